//! C24 — embedded raster images decode to the pixels that were supplied.
//!
//! Space (all enumerated, nothing sampled):
//!  * `png`: PNG files written by `refpdf::pngenc` — the 15 valid colour-type/bit-depth
//!    pairs × transparency/palette variant × interlace 0/1 × size menu × row-filter choice
//!    (types 0–4 fixed, and a per-row cycle) × 4 pixel patterns, and — as bounded
//!    deviations — IDAT splitting, zlib level and ancillary chunks.
//!  * `raw`: buffers through `Image::from_raw_data` (grey/RGB at 1,2,4,8,16 bits),
//!    `from_gray_data`, `from_rgba_data` × sizes × patterns.
//!  * `multi`: two images on one page or on two pages (all ordered pairs from a menu):
//!    each XObject must carry its own pixels and its own soft mask.
//! Every image goes Image::from_* → Page::add_image + draw_image → Document::to_bytes
//! (default configuration). The file is read back with `refpdf::file`, the XObject (+ /SMask
//! or /Mask) decoded with `refpdf::filters` and interpreted per ISO 32000-1 §8.9.5
//! (`refpdf::pngenc::interpret_image`), and compared in RGBA with what the third-party `png`
//! crate decodes from the same PNG (for raw buffers: with the supplied samples).
//! Secondary: the library's own reader (`ImageExtractor::extract_all_in_memory`) must see the
//! same pixels in the written XObject as the reference interpreter does.
use oxidize_pdf::{ColorSpace as ImgCs, Document, Image, Page};
use refpdf::file::PdfFile;
use refpdf::pngenc::{self, PngSpec, Rgba, RowFilter, Trns, XImage};
use refpdf::syntax::{Dict, Obj};
use serde_json::json;
use vx::{Ctx, Explore, Report};

pub const BUILT: bool = true;

/// Tallies for the evidence notes, per *distinct input* (the explorer re-runs some paths, and
/// different choices can produce the same file; keyed by input hash so the numbers are fixed).
mod tally {
    use std::collections::HashMap;
    use std::sync::Mutex;
    pub const PNG_OK: u8 = 0;
    pub const PNG_REJECTED: u8 = 1;
    pub const PNG_WRONG: u8 = 2;
    pub const RAW_OK: u8 = 3;
    pub const RAW_BAD: u8 = 4;
    static SEEN: Mutex<Option<HashMap<u64, u8>>> = Mutex::new(None);
    pub fn record(input: u64, status: u8) {
        SEEN.lock().unwrap().get_or_insert_with(HashMap::new).insert(input, status);
    }
    pub fn count(status: u8) -> u64 {
        SEEN.lock().unwrap().as_ref().map(|m| m.values().filter(|s| **s == status).count() as u64).unwrap_or(0)
    }
}

/// Optional phase timing (set C24_PROF=1): accumulated thread time per phase, printed at the end.
mod prof {
    use std::sync::atomic::{AtomicU64, Ordering};
    pub static T: [AtomicU64; 8] = [const { AtomicU64::new(0) }; 8];
    pub const NAMES: [&str; 8] = ["encode-png", "png-crate", "lib-import", "lib-write", "ref-read", "lib-extract", "compare", "other"];
    pub fn on() -> bool {
        static ON: std::sync::OnceLock<bool> = std::sync::OnceLock::new();
        *ON.get_or_init(|| std::env::var_os("C24_PROF").is_some())
    }
    pub fn time<T>(phase: usize, f: impl FnOnce() -> T) -> T {
        if !on() {
            return f();
        }
        let t0 = std::time::Instant::now();
        let r = f();
        T[phase].fetch_add(t0.elapsed().as_nanos() as u64, Ordering::Relaxed);
        r
    }
    pub fn report() {
        if on() {
            for (n, t) in NAMES.iter().zip(T.iter()) {
                eprintln!("[C24 prof] {n:12} {:8.1} ms", t.load(Ordering::Relaxed) as f64 / 1e6);
            }
        }
    }
}

const SIZES_QUICK: [(u32, u32); 6] = [(1, 1), (1, 2), (3, 1), (7, 3), (9, 2), (8, 8)];
const SIZES_THOROUGH: [(u32, u32); 12] =
    [(1, 1), (1, 2), (3, 1), (7, 3), (9, 2), (8, 8), (2, 2), (4, 4), (5, 9), (17, 5), (33, 2), (16, 16)];
const PATTERNS: [&str; 4] = ["gradient", "extremes", "scramble", "paeth-ties"];

fn mix(mut x: u64) -> u64 {
    x ^= x >> 33;
    x = x.wrapping_mul(0xff51_afd7_ed55_8ccd);
    x ^= x >> 33;
    x = x.wrapping_mul(0xc4ce_b9fe_1a85_ec53);
    x ^ (x >> 33)
}

/// Deterministic sample patterns; `lim` = number of admissible sample values.
///  gradient   – runs from 0 at the first sample to lim−1 at the last
///  extremes   – checkerboard of 0 and lim−1 (Average-filter carry, all-ones bytes)
///  scramble   – a fixed bit-mixing function of (x, y, channel, depth)
///  paeth-ties – 2×2 blocks in which the Paeth distances tie (pa=pb=pc and pb=pc<pa), so
///               that the tie-break order a, b, c decides the reconstructed byte
fn pattern_samples(pattern: usize, w: u32, h: u32, ch: usize, lim: u64, depth: u8) -> Vec<u16> {
    let (w, h, chn) = (w as u64, h as u64, ch as u64);
    let span = ((w - 1) * 3 + (h - 1) * 5 + (chn - 1) * 7).max(1);
    let mut out = Vec::with_capacity((w * h * chn) as usize);
    for y in 0..h {
        for x in 0..w {
            for c in 0..chn {
                let v = match pattern {
                    0 => (x * 3 + y * 5 + c * 7) * (lim - 1) / span,
                    1 => {
                        if (x + y + c) % 2 == 0 { 0 } else { lim - 1 }
                    }
                    2 => mix(x * 1_000_003 + y * 10_007 + c * 101 + depth as u64 * 7 + lim) % lim,
                    _ => {
                        let base = if y % 2 == 0 { [2u64, 3, 2, 0][(x % 4) as usize] } else { [0u64, 9, 3, 7][(x % 4) as usize] };
                        let v8 = base + 120 + c * 40; // ≤ 249: the tie relations are translation invariant
                        match depth {
                            16 => v8 * 257, // both bytes of the sample carry the tie pattern
                            8 => v8,
                            _ => v8 % lim,
                        }
                    }
                };
                out.push((v % lim.max(1)) as u16);
            }
        }
    }
    out
}

#[derive(Clone, Copy, Debug, PartialEq)]
enum TrnsVar {
    None,
    /// grey / RGB colour key, or a palette alpha table as long as the palette
    Full,
    /// palette alpha table covering only the first half of the palette
    Short,
}

#[derive(Clone, Debug)]
struct PngCase {
    spec: PngSpec,
    label: String,
}

#[allow(clippy::too_many_arguments)]
fn build_png(ct: u8, depth: u8, short_palette: bool, trns: TrnsVar, interlace: bool, w: u32, h: u32, filter: RowFilter, pattern: usize) -> PngCase {
    let ch = pngenc::channels(ct);
    let palette: Vec<[u8; 3]> = if ct == 3 {
        let full = 1usize << depth;
        let n = if short_palette { (full * 3 / 4).max(1) } else { full };
        (0..n).map(|i| [(i * 37 + 11) as u8, (i * 101 + 3) as u8, 255u8.wrapping_sub((i * 13) as u8)]).collect()
    } else {
        vec![]
    };
    let lim: u64 = if ct == 3 { palette.len() as u64 } else if depth == 16 { 65536 } else { 1u64 << depth };
    let mut samples = pattern_samples(pattern, w, h, ch, lim, depth);
    let npx = (w * h) as usize;
    let trns_v = match (trns, ct) {
        (TrnsVar::None, _) | (_, 4) | (_, 6) => None,
        (_, 0) | (_, 2) => {
            // key = colour of pixel 0; pixel 1 = near miss (last channel differs in its lowest
            // bit); the last pixel repeats the key colour
            let key: Vec<u16> = samples[..ch].to_vec();
            if npx >= 2 {
                for c in 0..ch {
                    samples[ch + c] = key[c];
                }
                samples[2 * ch - 1] ^= 1;
            }
            if npx >= 3 {
                for c in 0..ch {
                    samples[(npx - 1) * ch + c] = key[c];
                }
            }
            Some(if ct == 0 { Trns::Gray(key[0]) } else { Trns::Rgb(key[0], key[1], key[2]) })
        }
        (v, _) => {
            let n = if v == TrnsVar::Short { palette.len().div_ceil(2) } else { palette.len() };
            Some(Trns::Palette((0..n).map(|i| (i * 85) as u8).collect()))
        }
    };
    let label = format!(
        "ct{ct}/{depth}bit {w}x{h} {}{}{} filter={filter:?} pattern={}",
        if interlace { "adam7 " } else { "" },
        if ct == 3 { format!("plte={} ", palette.len()) } else { String::new() },
        match &trns_v {
            None => "no-tRNS".to_string(),
            Some(Trns::Palette(t)) => format!("tRNS[{}]", t.len()),
            Some(t) => format!("{t:?}"),
        },
        PATTERNS[pattern]
    );
    PngCase {
        spec: PngSpec { width: w, height: h, color_type: ct, bit_depth: depth, interlace, palette, trns: trns_v, filter, samples, idat_chunk: 0, level: 6, ancillary: false },
        label,
    }
}

// ------------------------------------------------------------------------------------
// reading the written document back (independent of the library)
// ------------------------------------------------------------------------------------

struct Located {
    dict: Dict,
    data: Vec<u8>,
    /// /SMask stream: resolved dictionary + decoded data
    smask: Option<(Dict, Vec<u8>)>,
    /// /Mask: colour-key array or stencil stream (dictionary + decoded data)
    mask_key: Option<Vec<Obj>>,
    mask_stencil: Option<(Dict, Vec<u8>)>,
    filter: String,
    painted: bool,
}

fn resolved_image_dict(f: &PdfFile, d: &Dict) -> Dict {
    let mut out = Dict::new();
    for k in ["Type", "Subtype", "Width", "Height", "BitsPerComponent", "ColorSpace", "CS", "Decode", "D", "ImageMask", "Matte", "Interpolate"] {
        if let Some(v) = d.get(k) {
            out.set(k, f.deep_resolve(v, 3));
        }
    }
    out
}

fn filter_name(d: &Dict) -> String {
    match d.get("Filter") {
        None => "none".into(),
        Some(Obj::Name(n)) => String::from_utf8_lossy(n).into_owned(),
        Some(Obj::Array(a)) => a.iter().filter_map(|o| o.as_name()).map(|n| String::from_utf8_lossy(n).into_owned()).collect::<Vec<_>>().join("+"),
        Some(_) => "?".into(),
    }
}

/// Find image XObject `name` in the resources of page `page_idx`; decode its data and its masks.
fn locate(f: &PdfFile, page_idx: usize, name: &str) -> Result<Located, (String, String)> {
    let e = |k: &str, d: String| (format!("C24/{k}"), d);
    let pages = f.pages().map_err(|m| e("written-file-has-no-page-tree", m))?;
    let page = pages.get(page_idx).ok_or_else(|| e("written-file-lacks-the-page", format!("{} pages, wanted index {page_idx}", pages.len())))?;
    let res = f.resolve_opt(page.resources());
    let xo = f.dget(&res, "XObject");
    let im = f.dget(&xo, name);
    let st = im.as_stream().ok_or_else(|| e("image-xobject-missing", format!("/Resources /XObject /{name} is {}", im.type_name())))?;
    if st.dict.get("Subtype").and_then(|o| o.as_name()) != Some(b"Image") {
        return Err(e("image-xobject-missing", format!("/{name} is not /Subtype /Image")));
    }
    let data = f.stream_data(st).map_err(|m| e("image-stream-undecodable", format!("/{name}: {m}")))?;
    let mut loc = Located {
        dict: resolved_image_dict(f, &st.dict),
        data,
        smask: None,
        mask_key: None,
        mask_stencil: None,
        filter: filter_name(&st.dict),
        painted: false,
    };
    match st.dict.get("SMask").map(|o| f.resolve(o)) {
        None | Some(Obj::Null) => {}
        Some(Obj::Stream(s)) => {
            let d = f.stream_data(&s).map_err(|m| e("smask-stream-undecodable", format!("/{name} /SMask: {m}")))?;
            loc.smask = Some((resolved_image_dict(f, &s.dict), d));
        }
        Some(o) => return Err(e("smask-not-a-stream", format!("/{name} /SMask is {}", o.type_name()))),
    }
    match st.dict.get("Mask").map(|o| f.resolve(o)) {
        None | Some(Obj::Null) => {}
        Some(Obj::Array(a)) => loc.mask_key = Some(a.iter().map(|o| f.resolve(o)).collect()),
        Some(Obj::Stream(s)) => {
            let d = f.stream_data(&s).map_err(|m| e("mask-stream-undecodable", format!("/{name} /Mask: {m}")))?;
            loc.mask_stencil = Some((resolved_image_dict(f, &s.dict), d));
        }
        Some(o) => return Err(e("mask-of-unknown-form", format!("/{name} /Mask is {}", o.type_name()))),
    }
    // is the image painted? "/name Do" in the page content
    if let Ok(content) = f.page_content(page) {
        let pat = format!("/{name} Do");
        loc.painted = content.windows(pat.len()).any(|w| w == pat.as_bytes());
    }
    Ok(loc)
}

/// The embedded image as pixels: colour (depth 8 or 16) and alpha (depth 8 or 16).
struct Pixels {
    width: u32,
    height: u32,
    colour_depth: u8,
    alpha_depth: u8,
    px: Vec<[u16; 4]>,
    /// e.g. "DeviceRGB/8+SMask/8"
    repr: String,
    has_alpha_plane: bool,
    surplus: usize,
    bpc: u8,
    ncomp: usize,
    indexed: bool,
}

fn interpret(f: &PdfFile, loc: &Located) -> Result<Pixels, (String, String)> {
    let e = |k: &str, d: String| (format!("C24/{k}"), d);
    let lookup = |o: &Obj| o.as_stream().and_then(|s| f.stream_data(s).ok());
    let x: XImage = pngenc::interpret_image(&loc.dict, &loc.data, &lookup).map_err(|m| e("image-samples-uninterpretable", m))?;
    let n = x.rgb.len();
    let mut repr = x.repr.clone();
    let mut surplus = x.surplus_bytes;
    let (alpha_depth, alpha): (u8, Option<Vec<u16>>) = if let Some((sd, sdata)) = &loc.smask {
        let (sw, sh, depth, a) = pngenc::interpret_smask(sd, sdata).map_err(|m| e("smask-uninterpretable", m))?;
        if (sw, sh) != (x.width, x.height) {
            return Err(e("smask-dimensions-differ-from-image", format!("image {}x{}, /SMask {sw}x{sh}", x.width, x.height)));
        }
        let need = (sw as usize * depth as usize).div_ceil(8) * sh as usize;
        surplus += sdata.len().saturating_sub(need);
        repr.push_str(&format!("+SMask/{depth}"));
        (depth, Some(a))
    } else if let Some(key) = &loc.mask_key {
        let a = pngenc::colour_key_alpha(&x, key).map_err(|m| e("colour-key-mask-uninterpretable", m))?;
        repr.push_str("+ColourKey");
        (8, Some(a))
    } else if let Some((md, mdata)) = &loc.mask_stencil {
        let (mw, mh, a) = pngenc::stencil_alpha(md, mdata).map_err(|m| e("stencil-mask-uninterpretable", m))?;
        if (mw, mh) != (x.width, x.height) {
            return Err(e("stencil-mask-dimensions-differ-from-image", format!("image {}x{}, /Mask {mw}x{mh}", x.width, x.height)));
        }
        repr.push_str("+Stencil");
        (8, Some(a))
    } else {
        (8, None)
    };
    let has_alpha_plane = alpha.is_some();
    let alpha = alpha.unwrap_or_else(|| vec![255; n]);
    let px = x.rgb.iter().zip(alpha.iter()).map(|(c, a)| [c[0], c[1], c[2], *a]).collect();
    Ok(Pixels {
        width: x.width,
        height: x.height,
        colour_depth: x.colour_depth,
        alpha_depth,
        px,
        repr: format!("{repr} {}", loc.filter),
        has_alpha_plane,
        surplus,
        bpc: x.bpc,
        ncomp: x.ncomp,
        indexed: x.repr.starts_with("Indexed"),
    })
}

/// One channel: does the embedded value represent the wanted value? Equal depths: equal
/// values. 16-bit source stored in 8 bits: either usual reduction. 8-bit source stored in
/// 16 bits: the exact replication v·257.
fn chan_ok(want: u16, wd: u8, got: u16, gd: u8) -> bool {
    match (wd, gd) {
        (16, 8) => got == want >> 8 || got as u32 == (want as u32 * 255 + 32767) / 65535,
        (8, 16) => got as u32 == want as u32 * 257,
        _ => want == got,
    }
}

#[derive(Default, Debug)]
struct Diff {
    colour_bad: usize,
    alpha_bad: usize,
    first: Option<String>,
    invisible_skipped: usize,
}

fn compare(want: &Rgba, got: &Pixels) -> Result<Diff, String> {
    if (want.width, want.height) != (got.width, got.height) {
        return Err(format!("source {}x{}, embedded {}x{}", want.width, want.height, got.width, got.height));
    }
    let mut d = Diff::default();
    for (i, (w, g)) in want.px.iter().zip(got.px.iter()).enumerate() {
        let a_ok = chan_ok(w[3], want.depth, g[3], got.alpha_depth);
        // colour under a fully transparent pixel cannot be observed: not compared
        let c_ok = if w[3] == 0 && a_ok {
            d.invisible_skipped += 1;
            true
        } else {
            (0..3).all(|c| chan_ok(w[c], want.depth, g[c], got.colour_depth))
        };
        if !a_ok {
            d.alpha_bad += 1;
        }
        if !c_ok {
            d.colour_bad += 1;
        }
        if (!a_ok || !c_ok) && d.first.is_none() {
            d.first = Some(format!("pixel {} (x={}, y={}): want RGBA{:?}@{}bit got RGB{:?}@{}bit A{}@{}bit", i, i as u32 % want.width, i as u32 / want.width, w, want.depth, &g[..3], got.colour_depth, g[3], got.alpha_depth));
        }
    }
    Ok(d)
}

// ------------------------------------------------------------------------------------
// through the library
// ------------------------------------------------------------------------------------

enum LibOut {
    Rejected(String),
    Panicked(String),
    WriteFailed(String),
    Written(Vec<u8>),
}

fn write_doc(images: Vec<(String, usize, Image)>, n_pages: usize) -> Result<Vec<u8>, String> {
    let mut pages: Vec<Page> = (0..n_pages).map(|_| Page::new(300.0, 300.0)).collect();
    for (k, (name, page, img)) in images.into_iter().enumerate() {
        pages[page].add_image(name.clone(), img);
        pages[page].draw_image(&name, 10.0 + 60.0 * k as f64, 20.0, 50.0, 40.0).map_err(|e| format!("draw_image: {e}"))?;
    }
    let mut doc = Document::new();
    for p in pages {
        doc.add_page(p);
    }
    doc.to_bytes().map_err(|e| format!("to_bytes: {e}"))
}

fn through_library(make: impl FnOnce() -> Result<Image, String>) -> LibOut {
    let img = match prof::time(2, || vx::guard(make)) {
        Err(p) => return LibOut::Panicked(p),
        Ok(Err(e)) => return LibOut::Rejected(e),
        Ok(Ok(i)) => i,
    };
    match prof::time(3, || vx::guard(move || write_doc(vec![("Im1".to_string(), 0, img)], 1))) {
        Err(p) => LibOut::Panicked(p),
        Ok(Err(e)) => LibOut::WriteFailed(e),
        Ok(Ok(b)) => LibOut::Written(b),
    }
}

/// The library's own reader on the written file: every image it extracts, as RGBA.
fn extract_with_library(pdf: &[u8]) -> Result<Vec<Rgba>, String> {
    use oxidize_pdf::operations::{ExtractImagesOptions, ImageExtractionLimits, ImageExtractor, ImagePreprocessingOptions};
    use oxidize_pdf::parser::{PdfDocument, PdfReader};
    let pdf = pdf.to_vec();
    let r = vx::guard(move || -> Result<Vec<Rgba>, String> {
        let reader = PdfReader::new(std::io::Cursor::new(pdf)).map_err(|e| format!("PdfReader::new: {e}"))?;
        let doc = PdfDocument::new(reader);
        // the default options post-process for OCR (rotate, contrast, denoise, upscale): all off
        let preprocessing = ImagePreprocessingOptions {
            auto_correct_rotation: false,
            enhance_contrast: false,
            denoise: false,
            upscale_small_images: false,
            force_grayscale: false,
            ..Default::default()
        };
        let opts = ExtractImagesOptions { min_size: None, extract_inline: false, create_dir: false, preprocessing, ..Default::default() };
        let mut ex = ImageExtractor::new(doc, opts);
        let imgs = ex.extract_all_in_memory(ImageExtractionLimits::default()).map_err(|e| format!("extract_all_in_memory: {e}"))?;
        let mut out = Vec::new();
        for i in imgs {
            let px = pngenc::decode_with_png_crate(&i.data).map_err(|e| format!("extracted image {} is not a decodable PNG: {e}", i.image_index))?;
            if (px.width, px.height) != (i.width, i.height) {
                return Err(format!("extracted image reports {}x{} but its PNG is {}x{}", i.width, i.height, px.width, px.height));
            }
            out.push(px);
        }
        Ok(out)
    });
    match r {
        Ok(v) => v,
        Err(p) => Err(format!("panic: {p}")),
    }
}

/// Does the library reader's picture equal the reference interpreter's picture of the same XObject?
fn same_picture(lib: &Rgba, mine: &Pixels) -> bool {
    (lib.width, lib.height) == (mine.width, mine.height)
        && lib.px.iter().zip(mine.px.iter()).all(|(l, m)| {
            (0..3).all(|c| chan_ok(l[c], lib.depth, m[c], mine.colour_depth) || chan_ok(m[c], mine.colour_depth, l[c], lib.depth))
                && (chan_ok(l[3], lib.depth, m[3], mine.alpha_depth) || chan_ok(m[3], mine.alpha_depth, l[3], lib.depth))
        })
}

/// Known defect of the library's extractor (KF-C24-8): it re-packs the samples of an image
/// with width × components bytes per row whatever /BitsPerComponent says, so any image whose
/// real row length differs (BitsPerComponent ≠ 8, not Indexed) comes out undecodable or garbled.
fn extractor_row_stride_defect_applies(m: &Pixels) -> bool {
    let samples = m.width as usize * m.ncomp;
    m.bpc != 8 && !m.indexed && samples != (samples * m.bpc as usize).div_ceil(8)
}

fn reader_cross_check(c: &mut Ctx, label: &str, pdf: &[u8], mine: &[&Pixels]) {
    let known = mine.iter().any(|m| extractor_row_stride_defect_applies(m));
    const KNOWN_KEY: &str = "C24/library-reader-repacks-non-8-bit-image-with-8-bit-row-length";
    match prof::time(5, || extract_with_library(pdf)) {
        Err(e) => {
            // KF-C24-9: the size check before that re-packing counts one byte per sample for every
            // depth up to 8, so images below 8 bits are refused as "too small"
            let too_small = mine.iter().any(|m| {
                m.bpc < 8 && !m.indexed && e.contains(&format!("Image data too small: expected {},", m.width as usize * m.height as usize * m.ncomp))
            });
            let key = if known && e.contains("is not a decodable PNG") {
                KNOWN_KEY
            } else if too_small {
                "C24/library-reader-refuses-image-below-8-bits-as-too-small"
            } else {
                "C24/library-reader-cannot-extract-written-image"
            };
            c.fail(key, format!("{label}: {e}"))
        }
        Ok(imgs) => {
            if imgs.len() != mine.len() {
                c.fail("C24/library-reader-extracts-wrong-number-of-images", format!("{label}: {} extracted, {} embedded", imgs.len(), mine.len()));
                return;
            }
            // extraction order follows a hash map: match as sets
            let mut left: Vec<&Rgba> = imgs.iter().collect();
            for m in mine {
                match left.iter().position(|l| same_picture(l, m)) {
                    Some(i) => {
                        left.swap_remove(i);
                    }
                    None => {
                        let l = left[0];
                        let first = l.px.iter().zip(m.px.iter()).position(|(a, b)| {
                            !((0..3).all(|k| chan_ok(a[k], l.depth, b[k], m.colour_depth)) && chan_ok(a[3], l.depth, b[3], m.alpha_depth))
                        });
                        let key = if extractor_row_stride_defect_applies(m) { KNOWN_KEY } else { "C24/library-reader-sees-other-pixels-than-the-xobject-holds" };
                        c.fail(
                            key,
                            format!("{label}: XObject {} is {}x{}; extracted {}x{} depth {}; first differing pixel {:?}: xobject {:?} extracted {:?}",
                                    m.repr, m.width, m.height, l.width, l.height, l.depth, first,
                                    first.map(|i| m.px[i]), first.map(|i| l.px[i])),
                        );
                        return;
                    }
                }
            }
        }
    }
}

// ------------------------------------------------------------------------------------
// known defective signatures of the PNG importer (see /verif/known_findings.d/C24.json)
// ------------------------------------------------------------------------------------

/// Row length the importer assumes: width × ceil(depth × channels / 8), with 3 channels for
/// palette images. When this exceeds the real row length it reports "Insufficient PNG image data".
fn importer_row_estimate_exceeds(spec: &PngSpec) -> bool {
    let ch_lib = match spec.color_type {
        0 => 1,
        2 | 3 => 3,
        4 => 2,
        _ => 4,
    };
    let est = spec.width as usize * (spec.bit_depth as usize * ch_lib).div_ceil(8);
    let real = (spec.width as usize * spec.bit_depth as usize * pngenc::channels(spec.color_type)).div_ceil(8);
    est > real
}

fn classify_rejection(spec: &PngSpec, msg: &str) -> String {
    if spec.interlace && msg.contains("Interlaced PNG not yet supported") {
        return "C24/interlaced-png-rejected".into();
    }
    if !spec.interlace && msg.contains("Insufficient PNG image data") && importer_row_estimate_exceeds(spec) {
        if spec.color_type == 0 && spec.bit_depth < 8 {
            return "C24/grey-png-below-8-bits-rejected-as-insufficient-data".into();
        }
        if spec.color_type == 3 {
            return "C24/palette-png-rejected-as-insufficient-data".into();
        }
    }
    "C24/valid-png-rejected".into()
}

/// The scanline bytes of a 16-bit image split the way 8-bit samples of the same colour type
/// would be split: (colour plane bytes, alpha plane bytes).
fn split_as_8bit(spec: &PngSpec) -> (Vec<u8>, Option<Vec<u8>>) {
    let bytes: Vec<u8> = pngenc::packed_rows(spec).concat();
    match spec.color_type {
        4 => (bytes.iter().step_by(2).copied().collect(), Some(bytes.iter().skip(1).step_by(2).copied().collect())),
        6 => (
            bytes.iter().enumerate().filter(|(i, _)| i % 4 != 3).map(|(_, b)| *b).collect(),
            Some(bytes.iter().skip(3).step_by(4).copied().collect()),
        ),
        _ => (bytes, None),
    }
}

fn dict_int(d: &Dict, k: &str) -> i64 {
    d.get(k).and_then(|o| o.as_int()).unwrap_or(-1)
}
fn dict_name(d: &Dict, k: &str) -> String {
    d.get(k).and_then(|o| o.as_name()).map(|n| String::from_utf8_lossy(n).into_owned()).unwrap_or_default()
}

/// Recognise the exact shape of the known importer defects in the written XObject.
fn known_signature(spec: &PngSpec, loc: &Located) -> Option<&'static str> {
    if spec.interlace || dict_int(&loc.dict, "BitsPerComponent") != 8 || loc.mask_key.is_some() || loc.mask_stencil.is_some() {
        return None;
    }
    let cs = dict_name(&loc.dict, "ColorSpace");
    let plain = loc.smask.is_none();
    let rows: Vec<u8> = pngenc::packed_rows(spec).concat();
    match (spec.color_type, spec.bit_depth) {
        (0, 1 | 2 | 4) if spec.width == 1 && plain && cs == "DeviceGray" && loc.data == rows => Some("C24/grey-png-below-8-bits-packed-bytes-declared-8-bit"),
        (3, 1 | 2) if spec.width == 1 && plain && cs == "DeviceRGB" && loc.data == rows => Some("C24/palette-png-index-bytes-declared-devicergb"),
        (_, 16) => {
            let (colour, alpha) = split_as_8bit(spec);
            let cs_ok = cs == if spec.color_type == 0 || spec.color_type == 4 { "DeviceGray" } else { "DeviceRGB" };
            let alpha_ok = match (&alpha, &loc.smask) {
                (None, None) => true,
                (Some(a), Some((sd, sdata))) => sdata == a && dict_int(sd, "BitsPerComponent") == 8,
                _ => false,
            };
            if cs_ok && alpha_ok && loc.data == colour { Some("C24/16-bit-png-bytes-split-as-8-bit-samples") } else { None }
        }
        _ => None,
    }
}

// ------------------------------------------------------------------------------------
// sections
// ------------------------------------------------------------------------------------

struct Verdict {
    class: String,
    compared: bool,
    ok: bool,
}

/// Common tail: written file → locate → interpret → compare with `want`. `spec` is present
/// for PNG inputs (known-signature recognition).
fn judge_written(c: &mut Ctx, label: &str, pdf: &[u8], want: &Rgba, spec: Option<&PngSpec>, cross_check_reader: bool) -> Verdict {
    let f = match prof::time(4, || PdfFile::parse(pdf)) {
        Ok(f) => f,
        Err(e) => {
            c.fail("C24/written-file-unreadable-by-reference-reader", format!("{label}: {e}"));
            return Verdict { class: "unreadable".into(), compared: false, ok: false };
        }
    };
    let loc = match prof::time(4, || locate(&f, 0, "Im1")) {
        Ok(l) => l,
        Err((k, d)) => {
            c.fail(k.clone(), format!("{label}: {d}"));
            return Verdict { class: k, compared: false, ok: false };
        }
    };
    if !loc.painted {
        c.fail("C24/image-not-painted-by-page-content", format!("{label}: no '/Im1 Do' in the page content"));
    }
    let sig = spec.and_then(|s| known_signature(s, &loc));
    let px = match interpret(&f, &loc) {
        Ok(p) => p,
        Err((k, d)) => {
            let key = sig.map(|s| s.to_string()).unwrap_or(k);
            c.fail(key.clone(), format!("{label}: {d} [{} bytes of sample data, /ColorSpace {} /BitsPerComponent {}]", loc.data.len(), dict_name(&loc.dict, "ColorSpace"), dict_int(&loc.dict, "BitsPerComponent")));
            return Verdict { class: key, compared: false, ok: false };
        }
    };
    let class;
    let mut ok = false;
    match compare(want, &px) {
        Err(dim) => {
            c.fail("C24/embedded-image-dimensions-differ", format!("{label}: {dim}"));
            class = "dimensions".to_string();
        }
        Ok(d) if d.colour_bad == 0 && d.alpha_bad == 0 => {
            class = format!("ok {}{}", px.repr, if px.surplus > 0 { " surplus-data" } else { "" });
            ok = true;
        }
        Ok(d) => {
            let trns_ignored = spec.map(|s| s.trns.is_some() && !s.interlace && s.bit_depth == 8).unwrap_or(false)
                && d.colour_bad == 0
                && !px.has_alpha_plane
                && want.px.iter().zip(px.px.iter()).all(|(w, g)| g[3] == 255 && (w[3] == 255 || w[3] == 0));
            let key = if let Some(s) = sig {
                s.to_string()
            } else if trns_ignored {
                "C24/trns-colour-key-ignored-no-mask-written".to_string()
            } else if d.colour_bad > 0 && d.alpha_bad > 0 {
                "C24/embedded-colour-and-alpha-differ".to_string()
            } else if d.colour_bad > 0 {
                "C24/embedded-colour-differs".to_string()
            } else {
                "C24/embedded-alpha-differs".to_string()
            };
            c.fail(key.clone(), format!("{label}: {} as {}: {} colour / {} alpha pixels of {} differ; {}", "image", px.repr, d.colour_bad, d.alpha_bad, want.px.len(), d.first.unwrap_or_default()));
            class = key;
        }
    }
    if cross_check_reader {
        reader_cross_check(c, label, pdf, &[&px]);
    }
    Verdict { class, compared: true, ok }
}

fn png_section(rep: &mut Report, thorough: bool) {
    let sizes: &[(u32, u32)] = if thorough { &SIZES_THOROUGH } else { &SIZES_QUICK };
    let cfg = if thorough { Explore::full() } else { Explore::dev(1) };
    rep.explore("png", cfg, |c: &mut Ctx| {
        let (ct, depth) = *c.pick_from("pair", &pngenc::VALID_PAIRS);
        let (short_palette, trns) = match ct {
            0 | 2 => (false, *c.pick_from("trns", &[TrnsVar::None, TrnsVar::Full])),
            3 => {
                let sp = c.flag("short-palette");
                let one_entry = sp && depth == 1;
                let menu: &[TrnsVar] = if one_entry { &[TrnsVar::None, TrnsVar::Full] } else { &[TrnsVar::None, TrnsVar::Full, TrnsVar::Short] };
                (sp, *c.pick_from("trns", menu))
            }
            _ => (false, TrnsVar::None),
        };
        let interlace = c.flag("interlace");
        let (w, h) = *c.pick_from("size", sizes);
        let filter = match c.choose("filter", 6) {
            5 => RowFilter::Cycle(1),
            f => RowFilter::Fixed(f as u8),
        };
        let pattern = c.choose("pattern", 4);
        let idat = *c.pick_dev("idat-split", &[0usize, 1, 7]);
        let level = *c.pick_dev("zlib-level", &[6u32, 0, 9]);
        let ancillary = c.choose_dev("ancillary-chunks", 2) == 1;
        let mut case = build_png(ct, depth, short_palette, trns, interlace, w, h, filter, pattern);
        case.spec.idat_chunk = idat;
        case.spec.level = level;
        case.spec.ancillary = ancillary;
        let label = format!("{} idat={idat} level={level} anc={ancillary}", case.label);
        let png = prof::time(0, || pngenc::encode(&case.spec));
        let input_hash = vx::hbytes(&png);
        c.input(input_hash);

        // the independent decoder, and the specification-derived expectation it was validated with
        let want = match prof::time(1, || pngenc::decode_with_png_crate(&png)) {
            Ok(w) => w,
            Err(e) => {
                c.fail("C24/check-error-png-crate-rejects-the-generated-png", format!("{label}: {e}"));
                return;
            }
        };
        if want != pngenc::expected_rgba(&case.spec) {
            c.fail("C24/check-error-png-crate-and-specification-disagree", label.clone());
            return;
        }

        let data = png.clone();
        let out = through_library(move || Image::from_png_data(data).map_err(|e| e.to_string()));
        let class = match out {
            LibOut::Rejected(msg) => {
                let key = classify_rejection(&case.spec, &msg);
                c.fail(key.clone(), format!("{label}: Image::from_png_data: {msg}"));
                tally::record(input_hash, tally::PNG_REJECTED);
                key
            }
            LibOut::Panicked(p) => {
                c.fail(format!("C24/panic-embedding-png@{}", vx::panic_site(&p)), format!("{label}: {p}"));
                "panic".into()
            }
            LibOut::WriteFailed(e) => {
                c.fail("C24/document-with-png-image-not-written", format!("{label}: {e}"));
                "write-failed".into()
            }
            LibOut::Written(pdf) => {
                let v = judge_written(c, &label, &pdf, &want, Some(&case.spec), true);
                if v.compared {
                    c.nontrivial();
                }
                tally::record(input_hash, if v.ok { tally::PNG_OK } else { tally::PNG_WRONG });
                v.class
            }
        };
        c.outcome(vx::h64(&(ct, depth, &class)));
        if c.want_sample() {
            c.sample(json!({"png": label, "png_bytes": png.len(), "outcome": class}));
        }
    });
}

#[derive(Clone, Copy, Debug, PartialEq)]
enum RawKind {
    RawGray(u8),
    RawRgb(u8),
    GrayData,
    RgbaData,
}
const RAW_KINDS: [RawKind; 12] = [
    RawKind::RawGray(8), RawKind::RawGray(16), RawKind::RawGray(1), RawKind::RawGray(2), RawKind::RawGray(4),
    RawKind::RawRgb(8), RawKind::RawRgb(16), RawKind::RawRgb(1), RawKind::RawRgb(2), RawKind::RawRgb(4),
    RawKind::GrayData, RawKind::RgbaData,
];

/// Build the buffer handed to the raw constructor and the pixels it stands for. Buffers for
/// `from_raw_data` use the PDF sample layout (§8.9.3): rows padded to bytes, MSB first.
fn build_raw(kind: RawKind, w: u32, h: u32, pattern: usize) -> (Vec<u8>, Rgba) {
    let (ch, depth) = match kind {
        RawKind::RawGray(d) => (1usize, d),
        RawKind::RawRgb(d) => (3, d),
        RawKind::GrayData => (1, 8),
        RawKind::RgbaData => (4, 8),
    };
    let lim: u64 = if depth == 16 { 65536 } else { 1u64 << depth };
    let samples = pattern_samples(pattern, w, h, ch, lim, depth);
    let row = w as usize * ch;
    let buf: Vec<u8> = samples.chunks(row).flat_map(|r| pngenc::pack_row(r, depth)).collect();
    let out_depth = if depth == 16 { 16 } else { 8 };
    let opaque = if depth == 16 { 65535 } else { 255 };
    let sc = |v: u16| -> u16 { if depth < 8 { (v as u32 * 255 / ((1u32 << depth) - 1)) as u16 } else { v } };
    let px = samples
        .chunks(ch)
        .map(|s| match ch {
            1 => [sc(s[0]), sc(s[0]), sc(s[0]), opaque],
            3 => [sc(s[0]), sc(s[1]), sc(s[2]), opaque],
            _ => [s[0], s[1], s[2], s[3]],
        })
        .collect();
    (buf, Rgba { width: w, height: h, depth: out_depth, px })
}

fn make_raw_image(kind: RawKind, buf: Vec<u8>, w: u32, h: u32) -> Result<Image, String> {
    match kind {
        RawKind::RawGray(d) => Ok(Image::from_raw_data(buf, w, h, ImgCs::DeviceGray, d)),
        RawKind::RawRgb(d) => Ok(Image::from_raw_data(buf, w, h, ImgCs::DeviceRGB, d)),
        RawKind::GrayData => Image::from_gray_data(buf, w, h).map_err(|e| e.to_string()),
        RawKind::RgbaData => Image::from_rgba_data(buf, w, h).map_err(|e| e.to_string()),
    }
}

fn raw_section(rep: &mut Report, thorough: bool) {
    let sizes: &[(u32, u32)] = if thorough { &SIZES_THOROUGH } else { &SIZES_QUICK };
    rep.explore("raw", Explore::full(), |c: &mut Ctx| {
        let kind = *c.pick_from("constructor", &RAW_KINDS);
        let (w, h) = *c.pick_from("size", sizes);
        let pattern = c.choose("pattern", 4);
        let (buf, want) = build_raw(kind, w, h, pattern);
        let label = format!("{kind:?} {w}x{h} pattern={}", PATTERNS[pattern]);
        let input_hash = vx::h64(&(format!("{kind:?}"), w, h, &buf));
        c.input(input_hash);
        let b2 = buf.clone();
        let class = match through_library(move || make_raw_image(kind, b2, w, h)) {
            LibOut::Rejected(msg) => {
                c.fail("C24/valid-raw-buffer-rejected", format!("{label}: {msg}"));
                "rejected".to_string()
            }
            LibOut::Panicked(p) => {
                c.fail(format!("C24/panic-embedding-raw-buffer@{}", vx::panic_site(&p)), format!("{label}: {p}"));
                "panic".into()
            }
            LibOut::WriteFailed(e) => {
                c.fail("C24/document-with-raw-image-not-written", format!("{label}: {e}"));
                "write-failed".into()
            }
            LibOut::Written(pdf) => {
                let v = judge_written(c, &label, &pdf, &want, None, true);
                if v.compared {
                    c.nontrivial();
                }
                tally::record(input_hash, if v.ok { tally::RAW_OK } else { tally::RAW_BAD });
                v.class
            }
        };
        c.outcome(vx::h64(&(format!("{kind:?}"), &class)));
        if c.want_sample() {
            c.sample(json!({"raw": label, "buffer_bytes": buf.len(), "outcome": class}));
        }
    });
}

/// Menu of small distinct images for the two-image documents: (label, image, wanted pixels).
fn multi_menu(i: usize) -> (String, Result<Image, String>, Rgba) {
    let png_case = |ct: u8, w: u32, h: u32, pattern: usize| {
        let case = build_png(ct, 8, false, TrnsVar::None, false, w, h, RowFilter::Fixed(4), pattern);
        let png = pngenc::encode(&case.spec);
        let want = pngenc::expected_rgba(&case.spec);
        (format!("png {}", case.label), Image::from_png_data(png).map_err(|e| e.to_string()), want)
    };
    match i {
        0 => png_case(0, 7, 3, 0),
        1 => png_case(2, 3, 1, 2),
        2 => png_case(4, 9, 2, 2),
        3 => png_case(6, 7, 3, 0),
        4 => png_case(6, 7, 3, 2), // same geometry as 3, other pixels and other alpha
        5 => {
            let (buf, want) = build_raw(RawKind::RgbaData, 7, 3, 1);
            ("raw rgba 7x3".into(), make_raw_image(RawKind::RgbaData, buf, 7, 3), want)
        }
        _ => {
            let (buf, want) = build_raw(RawKind::GrayData, 8, 8, 2);
            ("raw grey 8x8".into(), make_raw_image(RawKind::GrayData, buf, 8, 8), want)
        }
    }
}
const MULTI_MENU: usize = 7;

fn multi_section(rep: &mut Report) {
    rep.explore("multi", Explore::full(), |c: &mut Ctx| {
        let a = c.choose("first", MULTI_MENU);
        let b = c.choose("second", MULTI_MENU);
        let two_pages = c.flag("on-two-pages");
        // names chosen so that sorted order and insertion order differ in half of the cases
        let swap_names = c.flag("names-reversed");
        let (na, nb) = if swap_names { ("ImB", "ImA") } else { ("ImA", "ImB") };
        let (la, ia, wa) = multi_menu(a);
        let (lb, ib, wb) = multi_menu(b);
        let label = format!("/{na}={la} ; /{nb}={lb} ; two_pages={two_pages}");
        c.input(vx::h64(&(a, b, two_pages, swap_names)));
        c.nontrivial();
        let (ia, ib) = match (ia, ib) {
            (Ok(x), Ok(y)) => (x, y),
            (x, y) => {
                c.fail("C24/valid-png-rejected", format!("{label}: {:?} {:?}", x.err(), y.err()));
                return;
            }
        };
        let pb = if two_pages { 1 } else { 0 };
        let pdf = match vx::guard(move || write_doc(vec![(na.to_string(), 0, ia), (nb.to_string(), pb, ib)], pb + 1)) {
            Ok(Ok(p)) => p,
            Ok(Err(e)) => {
                c.fail("C24/document-with-two-images-not-written", format!("{label}: {e}"));
                return;
            }
            Err(p) => {
                c.fail(format!("C24/panic-embedding-two-images@{}", vx::panic_site(&p)), format!("{label}: {p}"));
                return;
            }
        };
        let f = match PdfFile::parse(&pdf) {
            Ok(f) => f,
            Err(e) => {
                c.fail("C24/written-file-unreadable-by-reference-reader", format!("{label}: {e}"));
                return;
            }
        };
        let mut classes = Vec::new();
        let mut pixels = Vec::new();
        for (name, page, want) in [(na, 0usize, &wa), (nb, pb, &wb)] {
            let r = locate(&f, page, name).and_then(|loc| {
                if !loc.painted {
                    return Err(("C24/image-not-painted-by-page-content".to_string(), format!("no '/{name} Do' on page {page}")));
                }
                interpret(&f, &loc)
            });
            match r {
                Err((k, d)) => {
                    c.fail(k.clone(), format!("{label}: /{name}: {d}"));
                    classes.push(k);
                }
                Ok(px) => {
                    match compare(want, &px) {
                        Ok(d) if d.colour_bad == 0 && d.alpha_bad == 0 => classes.push(format!("ok {}", px.repr)),
                        Ok(d) => {
                            // whose pixels are they?
                            let other = if name == na { &wb } else { &wa };
                            let swapped = compare(other, &px).map(|d| d.colour_bad == 0 && d.alpha_bad == 0).unwrap_or(false);
                            let key = if swapped { "C24/two-images-one-carries-the-others-pixels-or-mask" } else { "C24/two-images-embedded-pixels-differ" };
                            c.fail(key, format!("{label}: /{name} as {}: {} colour / {} alpha pixels differ; {}", px.repr, d.colour_bad, d.alpha_bad, d.first.unwrap_or_default()));
                            classes.push(key.to_string());
                        }
                        Err(dim) => {
                            c.fail("C24/embedded-image-dimensions-differ", format!("{label}: /{name}: {dim}"));
                            classes.push("dimensions".into());
                        }
                    }
                    pixels.push(px);
                }
            }
        }
        if pixels.len() == 2 {
            reader_cross_check(c, &label, &pdf, &[&pixels[0], &pixels[1]]);
        }
        c.outcome(vx::h64(&classes));
        if c.want_sample() {
            c.sample(json!({"images": label, "file_len": pdf.len(), "outcome": classes}));
        }
    });
}

pub fn run(rep: &mut Report) {
    let thorough = rep.tier.is_thorough();
    // Every case creates several zlib encoders (~300 KB each). With glibc's defaults each of
    // them is handed back to the kernel on free (madvise) and faulted in again on the next
    // case, which costs more than the work itself on 16 threads. Keep freed memory in the arenas.
    #[cfg(all(target_os = "linux", target_env = "gnu"))]
    unsafe {
        libc::mallopt(libc::M_MMAP_THRESHOLD, 32 * 1024 * 1024);
        libc::mallopt(libc::M_TRIM_THRESHOLD, 512 * 1024 * 1024);
    }
    rep.rule("one case = one generated PNG (colour type/bit depth pair, palette and tRNS variant, interlace, size, row-filter \
              choice, pixel pattern; IDAT split / zlib level / ancillary chunks as bounded deviations) or one raw buffer \
              (constructor, bit depth, size, pattern) or one ordered pair of images in one document; non-trivial = the library \
              accepted the input and the written image XObject was compared pixel by pixel (rejected inputs are violations but \
              not counted as non-trivial); distinct = distinct PNG file / buffer bytes");
    rep.assume("the `png` crate (0.18) decodes valid PNG files correctly; refpdf::pngenc unit tests show it returns, for every file the encoder writes, the samples that were encoded and the RGBA expansion derived from the PNG specification (the check re-asserts the latter for every case)");
    rep.assume("image XObject samples are interpreted per ISO 32000-1 §8.9.5 by refpdf (DeviceGray, DeviceRGB, Indexed; /Decode; /SMask, colour-key and stencil /Mask); data beyond width×height×components is ignored");
    rep.assume("16-bit sources stored with 8 bits per component may use either v>>8 or round(v·255/65535) per sample; colour under a fully transparent pixel is not compared");
    rep.assume("Image::from_raw_data buffers below 8 bits use the PDF sample layout (rows padded to bytes, most significant bits first)");
    png_section(rep, thorough);
    raw_section(rep, thorough);
    multi_section(rep);
    if !rep.is_replay() {
        rep.note("distinct_png_files_embedded_with_correct_pixels", json!(tally::count(tally::PNG_OK)));
        rep.note("distinct_png_files_rejected_by_the_library", json!(tally::count(tally::PNG_REJECTED)));
        rep.note("distinct_png_files_embedded_with_wrong_pixels", json!(tally::count(tally::PNG_WRONG)));
        rep.note("distinct_raw_buffers_embedded_with_correct_pixels", json!(tally::count(tally::RAW_OK)));
        rep.note("distinct_raw_buffers_embedded_with_wrong_pixels", json!(tally::count(tally::RAW_BAD)));
    }
    prof::report();
}
