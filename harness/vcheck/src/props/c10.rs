//! C10 — text given through the API reads back unchanged.
//!
//! Space (all enumerated, nothing sampled): every string of length ≤ 2 (thorough: ≤ 3) over the
//! 15-symbol alphabet {A, space, (, ), \, CR, LF, é, €, Ł, 中, U+1F600, U+FEFF, "þÿ", U+10FFFF (surrogate pair DBFF DFFF: the last low surrogate)} at every
//! text-bearing entry point:
//!  * `whole-document`: set_title/author/subject/keywords/creator/producer, `fill_field`
//!    (text field), annotation `/Contents`, outline item title — × the 3 writer configurations
//!    (classic, xref streams, xref + object streams);
//!  * `incremental-fill`: `IncrementalFormFiller::fill` on a text field and on a combo box of a
//!    library-written base file;
//!  * `text-notes`: `IncrementalTextNoteEditor::apply` Add and Update;
//!  * thorough only — `every-scalar-title`: EVERY Unicode scalar value (1 112 064) as a
//!    one-character title.
//! Oracle: the library's own reader (`metadata()`, `/V`, `/Contents`, `/Title` through
//! `PdfString::to_text`, `notes()`) returns the input, AND the reference reader (refpdf: file
//! structure + §7.9.2.2 text-string decoding of the raw string object) returns the input.
//! A documented refusal (`EncodingError` for non-WinAnsi form values with a built-in font,
//! "contents must not be empty" for notes) writes nothing and is counted as excluded.
use oxidize_pdf::annotations::{Annotation, AnnotationType};
use oxidize_pdf::forms::{ComboBox, FormManager, TextField, Widget, WidgetAppearance};
use oxidize_pdf::geometry::{Point, Rectangle};
use oxidize_pdf::parser::objects::{PdfDictionary, PdfObject};
use oxidize_pdf::parser::PdfReader;
use oxidize_pdf::structure::{OutlineItem, OutlineTree};
use oxidize_pdf::writer::{IncrementalFormFiller, IncrementalTextNoteEditor, TextNoteId, TextNoteMutation, WriterConfig};
use oxidize_pdf::{Document, Page, PdfError};
use refpdf::file::PdfFile;
use refpdf::syntax::Obj;
use refpdf::textstr::decode_text_string;
use serde_json::json;
use std::io::Cursor;
use std::sync::atomic::{AtomicU64, Ordering};
use vx::{Ctx, Explore, Report};

pub const BUILT: bool = true;

const ALPHABET: [&str; 15] = ["A", " ", "(", ")", "\\", "\r", "\n", "é", "€", "Ł", "中", "\u{1F600}", "\u{FEFF}", "þÿ", "\u{10FFFF}"];

static REFUSED_ENCODING: AtomicU64 = AtomicU64::new(0);
static REFUSED_EMPTY_NOTE: AtomicU64 = AtomicU64::new(0);

fn configs() -> [(&'static str, WriterConfig); 3] {
    [
        ("classic", WriterConfig::default()),
        (
            "xref-stream",
            WriterConfig { use_xref_streams: true, use_object_streams: false, pdf_version: "1.5".to_string(), compress_streams: true, incremental_update: false },
        ),
        ("xref+object-streams", WriterConfig::modern()),
    ]
}

/// all strings of length ≤ max over the alphabet, via choice points
fn gen_string(c: &mut Ctx, max: usize) -> String {
    let n = c.choose("len", max + 1);
    let mut s = String::new();
    for _ in 0..n {
        s.push_str(*c.pick_from("sym", &ALPHABET[..]));
    }
    s
}

// ------------------------------------------------------------------ classification

/// §7.3.4.2: an unescaped end-of-line marker inside a literal string is read as LF.
fn eol_norm(b: &[u8]) -> Vec<u8> {
    let mut out = Vec::with_capacity(b.len());
    let mut i = 0;
    while i < b.len() {
        if b[i] == b'\r' {
            out.push(b'\n');
            if b.get(i + 1) == Some(&b'\n') {
                i += 1;
            }
        } else {
            out.push(b[i]);
        }
        i += 1;
    }
    out
}

/// What was observed for one (entry point, string): the raw bytes of the string object as
/// the reference reader finds them, and the text the library's reader returns.
struct Seen {
    raw: Result<Vec<u8>, String>,
    lib: Result<String, String>,
}

/// Returns the observation class (for outcome counting) and pushes failures.
fn judge(family: &str, input: &str, seen: &Seen, fails: &mut Vec<(String, String)>) -> u64 {
    let mut class = 0u64;
    let u = input.as_bytes();
    let mut raw_is_utf8_defect = false;
    match &seen.raw {
        Err(e) => {
            class |= 1;
            fails.push((format!("C10/{family}-reference-reader-cannot-find-text"), format!("input={input:?} {e}")));
        }
        Ok(raw) => {
            let got = decode_text_string(raw);
            if got != input {
                let n = eol_norm(u);
                let not_representable = decode_text_string(u) != input;
                let cr_effect = raw.as_slice() != u && raw.as_slice() == n.as_slice();
                if raw.as_slice() == u || cr_effect {
                    raw_is_utf8_defect = true;
                    let mut explained = false;
                    if not_representable {
                        class |= 2;
                        explained = true;
                        fails.push((
                            format!("C10/{family}-non-ascii-written-as-raw-utf8"),
                            format!("input={input:?} string object bytes=<{}> (= the UTF-8 of the input) decode as {got:?}", vx::hex(raw)),
                        ));
                    }
                    if cr_effect {
                        class |= 4;
                        explained = true;
                        fails.push((
                            format!("C10/{family}-raw-CR-read-as-LF"),
                            format!("input={input:?}: CR is written unescaped inside a literal string; a conforming reader yields <{}> = {got:?}", vx::hex(raw)),
                        ));
                    }
                    if !explained {
                        class |= 8;
                        fails.push((format!("C10/{family}-reference-reader-text-differs"), format!("input={input:?} raw=<{}> decoded={got:?}", vx::hex(raw))));
                    }
                } else {
                    class |= 8;
                    fails.push((format!("C10/{family}-reference-reader-text-differs"), format!("input={input:?} raw=<{}> decoded={got:?}", vx::hex(raw))));
                }
            }
        }
    }
    match &seen.lib {
        Err(e) => {
            class |= 16;
            fails.push((format!("C10/{family}-library-reader-cannot-find-text"), format!("input={input:?} {e}")));
        }
        Ok(t) if t != input => {
            // When the string object already holds the wrong bytes (raw UTF-8), the library's
            // wrong text is the same defect seen through its reader, not a second one —
            // provided it decoded exactly those bytes the way it always does.
            let consequence = raw_is_utf8_defect
                && seen.raw.as_ref().map(|r| oxidize_pdf::parser::objects::PdfString::new(r.clone()).to_text() == *t || oxidize_pdf::parser::objects::PdfString::new(u.to_vec()).to_text() == *t).unwrap_or(false);
            if consequence {
                class |= 32;
            } else {
                class |= 64;
                fails.push((
                    format!("C10/{family}-library-reader-text-differs"),
                    format!("input={input:?} library read {t:?}; string object bytes={:?}", seen.raw.as_ref().map(|r| vx::hex(r))),
                ));
            }
        }
        Ok(_) => {}
    }
    class
}

fn report(c: &mut Ctx, family: &str, entry: &str, input: &str, seen: &Seen) {
    let mut fails = Vec::new();
    let class = judge(family, input, seen, &mut fails);
    c.outcome(vx::h64(&(family, class)));
    for (k, d) in fails {
        c.fail(k, format!("entry={entry} {d}"));
    }
    if c.want_sample() {
        c.sample(json!({"entry": entry, "input": input, "string_object_bytes": seen.raw.as_ref().map(|r| vx::hex(r)).unwrap_or_else(|e| e.clone()), "library_read": seen.lib.as_ref().map(|s| s.clone()).unwrap_or_else(|e| e.clone())}));
    }
}

// ------------------------------------------------------------------ reference-side lookups

fn str_of(o: &Obj, what: &str) -> Result<Vec<u8>, String> {
    match o {
        Obj::Str(s) => Ok(s.clone()),
        other => Err(format!("{what} is {} {other:?}, not a string", other.type_name())),
    }
}
fn ref_file(bytes: &[u8]) -> Result<PdfFile, String> {
    PdfFile::parse(bytes).map_err(|e| format!("reference reader cannot open the file: {e}"))
}
fn ref_info(f: &PdfFile, key: &str) -> Result<Vec<u8>, String> {
    let info = f.resolve_opt(f.trailer.get("Info"));
    str_of(&f.dget(&info, key), &format!("/Info/{key}"))
}
fn ref_field_v(f: &PdfFile, idx: usize) -> Result<Vec<u8>, String> {
    let cat = f.catalog()?;
    let acro = f.dget(&cat, "AcroForm");
    let fields = f.dget(&acro, "Fields");
    let fld = f.resolve_opt(fields.as_array().and_then(|a| a.get(idx)));
    str_of(&f.dget(&fld, "V"), "/AcroForm/Fields[i]/V")
}
fn ref_annot_contents(f: &PdfFile) -> Result<Vec<u8>, String> {
    let pages = f.pages()?;
    let p = pages.first().ok_or("no pages")?;
    let annots = f.resolve_opt(p.dict.get("Annots"));
    let a = f.resolve_opt(annots.as_array().and_then(|a| a.first()));
    str_of(&f.dget(&a, "Contents"), "/Annots[0]/Contents")
}
fn ref_outline_title(f: &PdfFile) -> Result<Vec<u8>, String> {
    let cat = f.catalog()?;
    let ol = f.dget(&cat, "Outlines");
    let first = f.dget(&ol, "First");
    str_of(&f.dget(&first, "Title"), "/Outlines/First/Title")
}

// ------------------------------------------------------------------ library-side lookups

fn lib_guard<T>(f: impl FnOnce() -> Result<T, String>) -> Result<T, String> {
    match vx::guard(f) {
        Ok(r) => r,
        Err(p) => Err(format!("PANIC {p}")),
    }
}
fn e2s<E: std::fmt::Debug>(e: E) -> String {
    vx::one_line(&format!("{e:?}"), 200)
}
fn lib_deref(r: &mut PdfReader<Cursor<&[u8]>>, o: Option<&PdfObject>) -> Result<PdfObject, String> {
    match o {
        None => Err("missing".into()),
        Some(PdfObject::Reference(n, g)) => r.get_object(*n, *g).map(|o| o.clone()).map_err(e2s),
        Some(o) => Ok(o.clone()),
    }
}
fn lib_text(d: &PdfDictionary, key: &str) -> Result<String, String> {
    d.get(key).and_then(|o| o.as_string()).map(|s| s.to_text()).ok_or_else(|| format!("no string /{key} (keys {:?})", d.0.keys().map(|k| k.as_str().to_string()).collect::<Vec<_>>()))
}
fn lib_info(bytes: &[u8], idx: usize) -> Result<String, String> {
    lib_guard(|| {
        let mut r = PdfReader::new(Cursor::new(bytes)).map_err(e2s)?;
        let m = r.metadata().map_err(e2s)?;
        [m.title, m.author, m.subject, m.keywords, m.creator, m.producer][idx].clone().ok_or_else(|| "metadata() has no value".to_string())
    })
}
fn lib_field_v(bytes: &[u8], idx: usize) -> Result<String, String> {
    lib_guard(|| {
        let mut r = PdfReader::new(Cursor::new(bytes)).map_err(e2s)?;
        let cat = r.catalog().map_err(e2s)?.clone();
        let acro = lib_deref(&mut r, cat.get("AcroForm"))?;
        let fields = lib_deref(&mut r, acro.as_dict().ok_or("AcroForm not a dict")?.get("Fields"))?;
        let f = lib_deref(&mut r, fields.as_array().ok_or("Fields not an array")?.get(idx))?;
        lib_text(f.as_dict().ok_or("field not a dict")?, "V")
    })
}
fn lib_annot_contents(bytes: &[u8]) -> Result<String, String> {
    lib_guard(|| {
        let r = PdfReader::new(Cursor::new(bytes)).map_err(e2s)?;
        let doc = r.into_document();
        let annots = doc.get_page_annotations(0).map_err(e2s)?;
        lib_text(annots.first().ok_or("no annotations on page 0")?, "Contents")
    })
}
fn lib_outline_title(bytes: &[u8]) -> Result<String, String> {
    lib_guard(|| {
        let mut r = PdfReader::new(Cursor::new(bytes)).map_err(e2s)?;
        let cat = r.catalog().map_err(e2s)?.clone();
        let ol = lib_deref(&mut r, cat.get("Outlines"))?;
        let first = lib_deref(&mut r, ol.as_dict().ok_or("Outlines not a dict")?.get("First"))?;
        lib_text(first.as_dict().ok_or("outline item not a dict")?, "Title")
    })
}

// ------------------------------------------------------------------ document builders

const INFO_KEYS: [&str; 6] = ["Title", "Author", "Subject", "Keywords", "Creator", "Producer"];

fn doc_with_info(idx: usize, s: &str) -> Document {
    let mut doc = Document::new();
    doc.add_page(Page::a4());
    match idx {
        0 => doc.set_title(s),
        1 => doc.set_author(s),
        2 => doc.set_subject(s),
        3 => doc.set_keywords(s),
        4 => doc.set_creator(s),
        _ => doc.set_producer(s),
    }
    doc
}

fn form_doc(combo: bool) -> Document {
    let mut doc = Document::new();
    let mut page = Page::a4();
    let mut fm = FormManager::new();
    let rect = Rectangle::new(Point::new(100.0, 700.0), Point::new(300.0, 720.0));
    let widget = Widget::new(rect).with_appearance(WidgetAppearance::default());
    let fref = if combo {
        fm.add_combo_box(ComboBox::new("f").add_option("one", "One").editable(), widget.clone(), None).expect("add_combo_box")
    } else {
        fm.add_text_field(TextField::new("f"), widget.clone(), None).expect("add_text_field")
    };
    page.add_form_widget_with_ref(widget, fref).expect("add_form_widget_with_ref");
    doc.add_page(page);
    doc.set_form_manager(fm);
    doc
}

fn write(doc: &mut Document, cfg: &WriterConfig) -> Result<Vec<u8>, String> {
    match vx::guard(|| doc.to_bytes_with_config(cfg.clone())) {
        Ok(Ok(b)) => Ok(b),
        Ok(Err(e)) => Err(format!("write error {}", e2s(e))),
        Err(p) => Err(format!("write PANIC {p}")),
    }
}

pub fn run(rep: &mut Report) {
    let thorough = rep.tier.is_thorough();
    let max_len = if thorough { 3 } else { 2 };
    rep.rule("case = (entry point, writer configuration, string); every string of length ≤ 2 (thorough 3) over the 14-symbol alphabet \
              (under the xref+object-streams configuration, whose files take seconds of CPU each to read back: the single string é, thorough all of length ≤ 1); \
              non-trivial = the string has a character outside printable ASCII or a PDF string delimiter; distinct = distinct (entry, configuration, string)");
    rep.assume("refpdf::file + refpdf::textstr are the independent reader (text strings per ISO 32000-1 §7.9.2.2 / 32000-2 UTF-8 form; PDFDocEncoding from Annex D)");
    rep.assume("a documented refusal that writes nothing (EncodingError for non-WinAnsi field values with a built-in font; empty/blank note contents) is excluded and counted, not a violation");
    let cfgs = configs();

    // ---- whole-document entry points
    rep.explore("whole-document", Explore::full(), |c: &mut Ctx| {
        let entry = c.choose("entry", 9);
        let ci = c.choose("writer-config", 3);
        let (cname, cfg) = &cfgs[ci];
        // WriterConfig::modern() numbers its object streams from 1 000 000, so every such file
        // carries a 1 000 000-entry cross-reference stream and costs the library's reader seconds
        // of CPU to open: that configuration gets a reduced string menu (stated in the rule).
        let s = if ci == 2 {
            if thorough { gen_string(c, 1) } else { "é".to_string() }
        } else {
            gen_string(c, max_len)
        };
        c.input(vx::h64(&(entry, *cname, &s)));
        if s.chars().any(|ch| !(' '..='~').contains(&ch) || "()\\".contains(ch)) {
            c.nontrivial();
        }
        let (family, ename, mut doc): (&str, String, Document) = match entry {
            0..=5 => ("info", format!("set_{}", INFO_KEYS[entry].to_lowercase()), doc_with_info(entry, &s)),
            6 => {
                let mut d = form_doc(false);
                match vx::guard(|| d.fill_field("f", s.clone())) {
                    Ok(Ok(())) => {}
                    Ok(Err(PdfError::EncodingError(_))) => {
                        REFUSED_ENCODING.fetch_add(1, Ordering::Relaxed);
                        c.outcome(vx::h64(&("refused", entry)));
                        return;
                    }
                    other => {
                        c.fail("C10/field-value-fill_field-failed", format!("input={s:?} {}", e2s(other)));
                        return;
                    }
                }
                ("field-value", "fill_field".to_string(), d)
            }
            7 => {
                let mut d = Document::new();
                let mut p = Page::a4();
                let rect = Rectangle::new(Point::new(50.0, 50.0), Point::new(70.0, 70.0));
                p.add_annotation(Annotation::new(AnnotationType::Text, rect).with_contents(s.clone()));
                d.add_page(p);
                ("annotation-contents", "Annotation::with_contents".to_string(), d)
            }
            _ => {
                let mut d = Document::new();
                d.add_page(Page::a4());
                let mut t = OutlineTree::new();
                t.add_item(OutlineItem::new(s.clone()));
                d.set_outline(t);
                ("outline-title", "OutlineItem::new".to_string(), d)
            }
        };
        let entry_name = format!("{ename} config={cname}");
        let bytes = match write(&mut doc, cfg) {
            Ok(b) => b,
            Err(e) => {
                c.fail(format!("C10/{family}-write-failed"), format!("entry={entry_name} input={s:?} {e}"));
                return;
            }
        };
        let rf = ref_file(&bytes);
        let raw = rf.and_then(|f| match entry {
            0..=5 => ref_info(&f, INFO_KEYS[entry]),
            6 => ref_field_v(&f, 0),
            7 => ref_annot_contents(&f),
            _ => ref_outline_title(&f),
        });
        let lib = match entry {
            0..=5 => lib_info(&bytes, entry),
            6 => lib_field_v(&bytes, 0),
            7 => lib_annot_contents(&bytes),
            _ => lib_outline_title(&bytes),
        };
        report(c, family, &entry_name, &s, &Seen { raw, lib });
    });

    // ---- incremental form fill (base files written once by the library)
    let base_text = form_doc(false).to_bytes().expect("base document with a text field");
    let base_combo = form_doc(true).to_bytes().expect("base document with a combo box");
    rep.explore("incremental-fill", Explore::full(), |c: &mut Ctx| {
        let combo = c.flag("combo-box");
        let s = gen_string(c, max_len);
        c.input(vx::h64(&(combo, &s)));
        c.nontrivial();
        let base = if combo { &base_combo } else { &base_text };
        let entry_name = if combo { "IncrementalFormFiller::fill(combo box)" } else { "IncrementalFormFiller::fill(text field)" };
        let out = match vx::guard(|| IncrementalFormFiller::new(base).fill("f", &s)) {
            Ok(Ok(b)) => b,
            Ok(Err(PdfError::EncodingError(_))) => {
                REFUSED_ENCODING.fetch_add(1, Ordering::Relaxed);
                c.outcome(vx::h64(&("refused", combo)));
                return;
            }
            other => {
                c.fail("C10/incremental-fill-failed", format!("entry={entry_name} input={s:?} {}", e2s(other.map(|r| r.map(|b| b.len())))));
                return;
            }
        };
        if !out.starts_with(base) {
            c.fail("C10/incremental-fill-does-not-append", format!("entry={entry_name} input={s:?}"));
        }
        let raw = ref_file(&out).and_then(|f| ref_field_v(&f, 0));
        let lib = lib_field_v(&out, 0);
        report(c, "incremental-fill", entry_name, &s, &Seen { raw, lib });
    });

    // ---- text notes
    let base_note = {
        let mut d = Document::new();
        let mut p = Page::a4();
        let rect = Rectangle::new(Point::new(50.0, 50.0), Point::new(70.0, 70.0));
        p.add_annotation(Annotation::new(AnnotationType::Text, rect).with_contents("old"));
        d.add_page(p);
        d.to_bytes().expect("base document with a text note")
    };
    let base_note_id: Option<TextNoteId> = IncrementalTextNoteEditor::new(&base_note).notes().ok().and_then(|n| n.first().map(|n| n.id));
    rep.explore("text-notes", Explore::full(), |c: &mut Ctx| {
        let update = c.flag("update-existing");
        let s = gen_string(c, max_len);
        c.input(vx::h64(&(update, &s)));
        c.nontrivial();
        let entry_name = if update { "TextNoteMutation::Update" } else { "TextNoteMutation::Add" };
        let Some(old_id) = base_note_id else {
            c.fail("C10/text-note-base-file-has-no-note", "the library does not list the /Text annotation it wrote itself".to_string());
            return;
        };
        let m = if update {
            TextNoteMutation::Update { id: old_id, position: Point::new(100.0, 100.0), contents: s.clone() }
        } else {
            TextNoteMutation::Add { page_index: 0, position: Point::new(200.0, 200.0), contents: s.clone() }
        };
        let upd = match vx::guard(|| IncrementalTextNoteEditor::new(&base_note).apply(&[m])) {
            Ok(Ok(u)) => u,
            Ok(Err(PdfError::InvalidStructure(msg))) if msg.contains("must not be empty") && s.trim().is_empty() => {
                REFUSED_EMPTY_NOTE.fetch_add(1, Ordering::Relaxed);
                c.outcome(vx::h64(&("refused-empty", update)));
                return;
            }
            other => {
                c.fail("C10/text-note-apply-failed", format!("entry={entry_name} input={s:?} {}", e2s(other.map(|r| r.map(|u| u.pdf_bytes.len())))));
                return;
            }
        };
        let id = if update { old_id } else { upd.added_notes.first().map(|n| n.id).unwrap_or(old_id) };
        let out = upd.pdf_bytes;
        let raw = ref_file(&out).and_then(|f| str_of(&f.get(id.object_number).dict_get("Contents").cloned().unwrap_or(Obj::Null), "note /Contents"));
        let lib = lib_guard(|| {
            let notes = IncrementalTextNoteEditor::new(&out).notes().map_err(e2s)?;
            notes.iter().find(|n| n.id == id).map(|n| n.contents.clone()).ok_or_else(|| format!("note {id:?} not listed"))
        });
        report(c, "text-note", entry_name, &s, &Seen { raw, lib });
    });

    // ---- thorough: every Unicode scalar value as a one-character title
    if thorough {
        let cfg = WriterConfig::default();
        rep.explore("every-scalar-title", Explore::full(), |c: &mut Ctx| {
            // 0x110000 / 256 blocks of 256 code points; surrogate blocks are empty
            let block = c.choose("block-of-256", 0x1100) as u32;
            c.input(block as u64);
            c.nontrivial();
            let mut per_key: std::collections::BTreeMap<String, u32> = Default::default();
            let mut oh = 0u64;
            let mut n = 0u64;
            for cp in block * 256..block * 256 + 256 {
                let Some(ch) = char::from_u32(cp) else { continue };
                n += 1;
                let s = ch.to_string();
                let mut doc = doc_with_info(0, &s);
                let mut fails = Vec::new();
                let class = match write(&mut doc, &cfg) {
                    Err(e) => {
                        fails.push(("C10/info-write-failed".to_string(), format!("input={s:?} {e}")));
                        1 << 20
                    }
                    Ok(bytes) => {
                        let raw = ref_file(&bytes).and_then(|f| ref_info(&f, "Title"));
                        let lib = lib_info(&bytes, 0);
                        judge("info", &s, &Seen { raw, lib }, &mut fails)
                    }
                };
                oh = vx::hmix(oh, class);
                for (k, d) in fails {
                    let e = per_key.entry(k.clone()).or_insert(0);
                    *e += 1;
                    if *e <= 2 {
                        c.fail(k, format!("entry=set_title U+{cp:04X} {d}"));
                    }
                }
            }
            c.add_evaluations(n.saturating_sub(1));
            c.outcome(oh);
            if c.want_sample() {
                c.sample(json!({"titles": format!("U+{:04X}..=U+{:04X}", block * 256, block * 256 + 255), "scalars_in_block": n}));
            }
        });
    }

    rep.note(
        "excluded_cells",
        json!({
            "refused_with_EncodingError (non-WinAnsi value, built-in font: fill_field / IncrementalFormFiller on a text field)": REFUSED_ENCODING.load(Ordering::Relaxed),
            "refused_blank_note_contents": REFUSED_EMPTY_NOTE.load(Ordering::Relaxed),
        }),
    );
}
