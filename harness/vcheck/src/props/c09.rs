//! C09 — serialized objects parse back to the same value.
//!
//! Space (all enumerated, nothing sampled):
//!  * `leaf-in-context`: every leaf of the catalogue below (null, booleans, boundary integers,
//!    reals, every one-character string U+0000–U+00FF and all pairs over 12 special characters,
//!    every one-character name U+0000–U+00FF + U+20AC and all pairs over 15 special characters,
//!    every one-byte ByteString, references) × every embedding context of depth ≤ 3
//!    (bare, array element first/last/only, dictionary value followed by another key, nested
//!    array/dictionary; names additionally as dictionary KEY).
//!  * `trees`: every object tree of depth ≤ 3 and width ≤ 2 (arrays and dictionaries of 0..2
//!    children) over a reduced leaf alphabet with one or two members of every leaf class.
//!  * `triples`: every 3-element array over a 14-leaf alphabet chosen around the parser's
//!    `N G R` look-ahead (small/large integers, the name /R, references, …).
//!  * `streams`: direct stream objects (dictionary menu × data menu incl. every single byte).
//!  * `incremental`: the second serializer of the library (`writer/incremental_update.rs
//!    write_object`), reached through the public `IncrementalTextNoteEditor::apply(Update)`:
//!    a crafted base file whose annotation dictionary carries `/X <value>` for every leaf
//!    (names and strings of every single byte) in five contexts; the value must survive.
//! Every case of the first four sections is serialized by BOTH private serializers of
//! `PdfWriter` (hook H3: direct writer and object-stream buffer), each output is parsed by
//! the library's `PdfObject::parse` and by the reference parser `refpdf::syntax`.
//! Oracle: parsed value == source value (strings: the UTF-8 bytes of the Rust `String`, which
//! is what `Object::String` emits; reals: numerically equal to the source re-rounded with the
//! writer's `{:.6}`; an integral real may come back as an integer — PDF numbers are
//! interchangeable); the reference parser reports no syntax issue (the §7.3.5 "should use #xx
//! outside '!'..'~'" recommendation is not an error); nothing is left over after the object
//! (bare: end of input; direct serializer also with the writer's `\nendobj\n` suffix).
use oxidize_pdf::objects::{Dictionary, Object, ObjectId};
use oxidize_pdf::parser::lexer::{Lexer, Token};
use oxidize_pdf::parser::objects::PdfObject;
use oxidize_pdf::writer::PdfWriter;
use refpdf::syntax::{self, Obj, Parser};
use serde_json::json;
use std::io::Cursor;
use vx::{Ctx, Explore, Report};

pub const BUILT: bool = true;

// ------------------------------------------------------------------ source values

#[derive(Clone, Debug, Hash, PartialEq)]
enum Src {
    Null,
    Bool(bool),
    Int(i64),
    /// f64 bits (so the type can be hashed)
    Real(u64),
    Str(String),
    Name(String),
    Bytes(Vec<u8>),
    Ref(u32, u16),
    Arr(Vec<Src>),
    Dict(Vec<(String, Src)>),
    Stream(Vec<(String, Src)>, Vec<u8>),
}

fn real(v: f64) -> Src {
    Src::Real(v.to_bits())
}
fn name(s: &str) -> Src {
    Src::Name(s.to_string())
}
fn st(s: &str) -> Src {
    Src::Str(s.to_string())
}

/// The writer's stated precision: `{:.6}`; the expected value is the source re-rounded the same way.
fn reround(v: f64) -> f64 {
    format!("{v:.6}").parse::<f64>().unwrap_or(f64::NAN)
}

impl Src {
    fn to_object(&self) -> Object {
        match self {
            Src::Null => Object::Null,
            Src::Bool(b) => Object::Boolean(*b),
            Src::Int(i) => Object::Integer(*i),
            Src::Real(b) => Object::Real(f64::from_bits(*b)),
            Src::Str(s) => Object::String(s.clone()),
            Src::Name(n) => Object::Name(n.clone()),
            Src::Bytes(b) => Object::ByteString(b.clone()),
            Src::Ref(n, g) => Object::Reference(ObjectId::new(*n, *g)),
            Src::Arr(a) => Object::Array(a.iter().map(|x| x.to_object()).collect()),
            Src::Dict(d) => Object::Dictionary(mk_dict(d)),
            Src::Stream(d, data) => Object::Stream(mk_dict(d), data.clone()),
        }
    }
    /// The value an independent reader must see.
    fn expected(&self) -> Obj {
        match self {
            Src::Null => Obj::Null,
            Src::Bool(b) => Obj::Bool(*b),
            Src::Int(i) => Obj::Int(*i),
            Src::Real(b) => Obj::Real(reround(f64::from_bits(*b))),
            Src::Str(s) => Obj::Str(s.as_bytes().to_vec()),
            Src::Name(n) => Obj::Name(n.as_bytes().to_vec()),
            Src::Bytes(b) => Obj::Str(b.clone()),
            Src::Ref(n, g) => Obj::Ref(*n, *g),
            Src::Arr(a) => Obj::Array(a.iter().map(|x| x.expected()).collect()),
            Src::Dict(d) => Obj::Dict(syntax::Dict(d.iter().map(|(k, v)| (k.as_bytes().to_vec(), v.expected())).collect())),
            Src::Stream(d, data) => {
                let mut dd = syntax::Dict(d.iter().filter(|(k, _)| k != "Length").map(|(k, v)| (k.as_bytes().to_vec(), v.expected())).collect());
                dd.0.push((b"Length".to_vec(), Obj::Int(data.len() as i64)));
                Obj::Stream(Box::new(syntax::StreamObj { dict: dd, data: data.clone() }))
            }
        }
    }
    fn describe(&self) -> String {
        format!("{:?}", self.expected())
    }
}

fn mk_dict(d: &[(String, Src)]) -> Dictionary {
    let mut out = Dictionary::new();
    for (k, v) in d {
        out.set(k.clone(), v.to_object());
    }
    out
}

// ------------------------------------------------------------------ leaf catalogue

const STR_PAIR: [char; 12] = ['(', ')', '\\', '\r', '\n', '\t', '%', '/', '<', '>', 'A', 'é'];
const NAME_PAIR: [char; 15] = ['A', ' ', '#', '/', '(', ')', '<', '>', '[', ']', '{', '}', '%', 'é', '\0'];

fn leaves() -> Vec<Src> {
    let mut v = vec![Src::Null, Src::Bool(true), Src::Bool(false)];
    for i in [0i64, 1, -1, i32::MAX as i64, i32::MIN as i64, i64::MAX, i64::MIN, 65535, 65536, 9_999_999, 10_000_000] {
        v.push(Src::Int(i));
    }
    for r in [0.0f64, -0.0, 0.5, -1.5, 1e-7, 123456.789, 1e15, 3.4e38, -1e-10, 0.1234567, -0.0000005, 9.3e18, -9.3e18, 9.2e18] {
        v.push(real(r));
    }
    v.push(st(""));
    for cp in 0u32..=0xFF {
        v.push(Src::Str(char::from_u32(cp).unwrap().to_string()));
    }
    for a in STR_PAIR {
        for b in STR_PAIR {
            v.push(Src::Str([a, b].iter().collect()));
        }
    }
    v.push(name(""));
    v.push(name("R"));
    v.push(name("A1.b-c_d"));
    for cp in (0u32..=0xFF).chain([0x20AC]) {
        v.push(Src::Name(char::from_u32(cp).unwrap().to_string()));
    }
    for a in NAME_PAIR {
        for b in NAME_PAIR {
            v.push(Src::Name([a, b].iter().collect()));
        }
    }
    v.push(Src::Bytes(vec![]));
    for b in 0u16..=0xFF {
        v.push(Src::Bytes(vec![b as u8]));
    }
    v.push(Src::Bytes(vec![0x00, 0xFF]));
    v.push(Src::Bytes(vec![0x12, 0x34, 0xAB]));
    for (n, g) in [(1u32, 0u16), (0, 0), (8_388_607, 65535), (9_999_999, 0), (10_000_000, 0), (u32::MAX, 65535)] {
        v.push(Src::Ref(n, g));
    }
    v
}

/// Embedding contexts (depth ≤ 3). `k` ≥ 12 only for names (the name is the dictionary KEY).
fn n_contexts(x: &Src) -> usize {
    if matches!(x, Src::Name(_)) { 15 } else { 12 }
}
fn wrap(k: usize, x: Src) -> Src {
    let key = match &x {
        Src::Name(n) => n.clone(),
        _ => String::new(),
    };
    let d = |e: Vec<(&str, Src)>| Src::Dict(e.into_iter().map(|(k, v)| (k.to_string(), v)).collect());
    match k {
        0 => x,
        1 => Src::Arr(vec![x]),
        2 => Src::Arr(vec![x, Src::Int(7)]),
        3 => Src::Arr(vec![Src::Int(7), x]),
        4 => Src::Arr(vec![x, name("Z")]),
        5 => Src::Arr(vec![st("s"), x]),
        6 => d(vec![("K", x)]),
        7 => d(vec![("A", x), ("B", Src::Int(7))]),
        8 => Src::Arr(vec![Src::Arr(vec![x])]),
        9 => Src::Arr(vec![d(vec![("K", x)])]),
        10 => d(vec![("K", Src::Arr(vec![x]))]),
        11 => d(vec![("K", d(vec![("L", x)]))]),
        12 => Src::Dict(vec![(key, Src::Int(7))]),
        13 => Src::Dict(vec![(key, Src::Arr(vec![Src::Int(7)])), ("zz".to_string(), name("Z"))]),
        _ => Src::Arr(vec![Src::Dict(vec![(key, st("s"))])]),
    }
}

// ------------------------------------------------------------------ the two readers

fn lib_parse(bytes: &[u8], want_endobj: bool) -> Result<(PdfObject, bool, String), String> {
    let r = vx::guard(|| -> Result<(PdfObject, bool, String), String> {
        let mut lx = Lexer::new(Cursor::new(bytes));
        let o = PdfObject::parse(&mut lx).map_err(|e| format!("{e:?}"))?;
        let nt = lx.next_token();
        let clean = match (&nt, want_endobj) {
            (Ok(Token::EndObj), true) => matches!(lx.next_token(), Ok(Token::Eof)),
            (Ok(Token::Eof), false) => true,
            _ => false,
        };
        Ok((o, clean, format!("{nt:?}")))
    });
    match r {
        Ok(x) => x,
        Err(p) => Err(format!("PANIC {p}")),
    }
}

fn ref_parse(bytes: &[u8], want_endobj: bool) -> Result<(Obj, Vec<String>), String> {
    let mut p = Parser::new(bytes, 0);
    let o = p.parse_object().map_err(|e| e.to_string())?;
    let o = match o {
        Obj::Dict(d) => p.maybe_stream(d, &|l| l.as_int()).map_err(|e| e.to_string())?,
        o => o,
    };
    p.skip_ws();
    if want_endobj {
        if !p.keyword(b"endobj") {
            return Err(format!("object not followed by 'endobj' at byte {}", p.pos));
        }
        p.skip_ws();
    }
    if !p.at_end() {
        return Err(format!("trailing data after the object at byte {}", p.pos));
    }
    // ISO 32000-1 §7.3.5: writing regular characters outside '!'..'~' with #xx is a
    // recommendation ("should"), not a requirement — not a syntax issue.
    let issues = p.issues.into_iter().filter(|i| !i.starts_with("name contains raw byte") && !i.starts_with("name contains #00")).collect();
    Ok((o, issues))
}

/// expected vs reference-parser value; an expected Real may come back as Int or Real.
fn ref_eq(exp: &Obj, got: &Obj) -> bool {
    match (exp, got) {
        (Obj::Real(e), Obj::Int(i)) => (*i as f64) == *e,
        (Obj::Real(e), Obj::Real(r)) => r == e,
        (Obj::Array(a), Obj::Array(b)) => a.len() == b.len() && a.iter().zip(b).all(|(x, y)| ref_eq(x, y)),
        (Obj::Dict(a), Obj::Dict(b)) => dict_eq(a, b),
        (Obj::Stream(a), Obj::Stream(b)) => dict_eq(&a.dict, &b.dict) && a.data == b.data,
        _ => exp == got,
    }
}
fn dict_eq(a: &syntax::Dict, b: &syntax::Dict) -> bool {
    a.len() == b.len() && !b.has_duplicates() && a.iter().all(|(k, v)| b.get_b(k).map(|o| ref_eq(v, o)).unwrap_or(false))
}

/// §7.3.4.2: an unescaped end-of-line marker inside a literal string is read as LF.
fn eol_normalised(o: &Obj) -> Obj {
    match o {
        Obj::Str(s) => {
            let mut out = Vec::with_capacity(s.len());
            let mut i = 0;
            while i < s.len() {
                if s[i] == b'\r' {
                    out.push(b'\n');
                    if s.get(i + 1) == Some(&b'\n') {
                        i += 1;
                    }
                } else {
                    out.push(s[i]);
                }
                i += 1;
            }
            Obj::Str(out)
        }
        Obj::Array(a) => Obj::Array(a.iter().map(eol_normalised).collect()),
        Obj::Dict(d) => Obj::Dict(syntax::Dict(d.iter().map(|(k, v)| (k.clone(), eol_normalised(v))).collect())),
        other => other.clone(),
    }
}

fn latin1_of_utf8(s: &str) -> String {
    s.bytes().map(|b| b as char).collect()
}

#[derive(Default)]
struct LibCmp {
    mism: Vec<String>,
    /// names whose only difference is "UTF-8 bytes shown as Latin-1 characters"
    mojibake: usize,
    got_refs: usize,
}

fn lib_cmp(src: &Src, got: &PdfObject, path: &str, st: &mut LibCmp) {
    let bad = |st: &mut LibCmp, what: String| {
        if st.mism.len() < 4 {
            st.mism.push(format!("{path}: {what}"));
        } else {
            st.mism.push(String::new());
        }
    };
    match (src, got) {
        (Src::Null, PdfObject::Null) => {}
        (Src::Bool(a), PdfObject::Boolean(b)) if a == b => {}
        (Src::Int(a), PdfObject::Integer(b)) if a == b => {}
        (Src::Real(bits), PdfObject::Integer(i)) if (*i as f64) == reround(f64::from_bits(*bits)) => {}
        (Src::Real(bits), PdfObject::Real(r)) if *r == reround(f64::from_bits(*bits)) => {}
        (Src::Str(s), PdfObject::String(g)) if g.as_bytes() == s.as_bytes() => {}
        (Src::Bytes(s), PdfObject::String(g)) if g.as_bytes() == s.as_slice() => {}
        (Src::Name(n), PdfObject::Name(g)) => {
            if g.as_str() == n {
            } else if !n.is_ascii() && g.as_str() == latin1_of_utf8(n) {
                st.mojibake += 1;
            } else {
                bad(st, format!("name {:?} read as {:?}", n, g.as_str()));
            }
        }
        (Src::Ref(n, g), PdfObject::Reference(a, b)) if n == a && g == b => {}
        (Src::Arr(a), PdfObject::Array(b)) => {
            if a.len() != b.len() {
                bad(st, format!("array of {} read as array of {}", a.len(), b.len()));
                st.got_refs += b.0.iter().filter(|o| matches!(o, PdfObject::Reference(..))).count();
            } else {
                for (i, (x, y)) in a.iter().zip(b.0.iter()).enumerate() {
                    lib_cmp(x, y, &format!("{path}[{i}]"), st);
                }
            }
        }
        (Src::Dict(d), PdfObject::Dictionary(g)) => lib_cmp_dict(d, None, g, path, st),
        (Src::Stream(d, data), PdfObject::Stream(s)) => {
            lib_cmp_dict(d, Some(data.len()), &s.dict, path, st);
            if &s.data != data {
                bad(st, format!("stream data of {} bytes read as {} bytes", data.len(), s.data.len()));
            }
        }
        (s, g) => bad(st, format!("{} read as {}", s.describe(), vx::one_line(&format!("{g:?}"), 160))),
    }
}

fn lib_cmp_dict(d: &[(String, Src)], stream_len: Option<usize>, g: &oxidize_pdf::parser::objects::PdfDictionary, path: &str, st: &mut LibCmp) {
    let mut want: Vec<(String, Src)> = d.iter().filter(|(k, _)| stream_len.is_none() || k != "Length").cloned().collect();
    if let Some(l) = stream_len {
        want.push(("Length".to_string(), Src::Int(l as i64)));
    }
    if want.len() != g.0.len() {
        st.mism.push(format!("{path}: dictionary of {} entries read with {} entries", want.len(), g.0.len()));
        return;
    }
    for (k, v) in &want {
        if let Some(gv) = g.get(k) {
            lib_cmp(v, gv, &format!("{path}/{k}"), st);
        } else if let Some(gv) = (!k.is_ascii()).then(|| g.get(&latin1_of_utf8(k))).flatten() {
            st.mojibake += 1;
            lib_cmp(v, gv, &format!("{path}/{k}"), st);
        } else {
            st.mism.push(format!("{path}: key {k:?} missing (keys read: {:?})", g.0.keys().map(|k| k.as_str().to_string()).collect::<Vec<_>>()));
        }
    }
}

// ------------------------------------------------------------------ known-defect signatures

fn must_escape(b: u8) -> bool {
    // §7.3.5: white space and delimiters are not regular characters and SHALL be written as
    // #xx; '#' SHALL be written as #23.
    syntax::is_ws(b) || syntax::is_delim(b) || b == b'#'
}

#[derive(Default)]
struct Suspects {
    /// first name (value or key) holding a byte that must be escaped, and whether it is a key
    must_escape: Option<(String, bool)>,
    non_ascii_name: bool,
    cr_string: bool,
    big_real: Option<f64>,
    big_ref: Option<(u32, u16)>,
    r_after_ints: bool,
}

fn scan(src: &Src, s: &mut Suspects) {
    let see_name = |s: &mut Suspects, n: &str, is_key: bool| {
        if n.bytes().any(must_escape) && s.must_escape.is_none() {
            s.must_escape = Some((n.to_string(), is_key));
        }
        if !n.is_ascii() {
            s.non_ascii_name = true;
        }
    };
    match src {
        Src::Name(n) => see_name(s, n, false),
        Src::Str(x) if x.contains('\r') => s.cr_string = true,
        Src::Real(b) => {
            let v = reround(f64::from_bits(*b));
            if v.abs() >= 9.223372036854775807e18 {
                s.big_real = Some(f64::from_bits(*b));
            }
        }
        Src::Ref(n, g) if *n > 9_999_999 => s.big_ref = Some((*n, *g)),
        Src::Arr(a) => {
            for w in a.windows(3) {
                if let (Src::Int(x), Src::Int(y), Src::Name(r)) = (&w[0], &w[1], &w[2]) {
                    if (0..=u32::MAX as i64).contains(x) && (0..=65535).contains(y) && r == "R" {
                        s.r_after_ints = true;
                    }
                }
            }
            a.iter().for_each(|x| scan(x, s));
        }
        Src::Dict(d) | Src::Stream(d, _) => {
            for (k, v) in d {
                see_name(s, k, true);
                scan(v, s);
            }
        }
        _ => {}
    }
}

fn serialize(src: &Src) -> Result<(Vec<u8>, Vec<u8>), String> {
    let obj = src.to_object();
    match vx::guard(|| PdfWriter::new_with_writer(Vec::<u8>::new()).verif_serialize_object(&obj)) {
        Ok(Ok(x)) => Ok(x),
        Ok(Err(e)) => Err(format!("error {e:?}")),
        Err(p) => Err(format!("PANIC {p}")),
    }
}

fn contains(h: &[u8], n: &[u8]) -> bool {
    !n.is_empty() && h.len() >= n.len() && h.windows(n.len()).any(|w| w == n)
}

/// The exact known-defective behaviour: the name's bytes are copied to the output after '/'.
fn sig_raw_name(n: &str, is_key: bool) -> bool {
    let probe = if is_key { Src::Dict(vec![(n.to_string(), Src::Null)]) } else { Src::Name(n.to_string()) };
    let mut raw = vec![b'/'];
    raw.extend_from_slice(n.as_bytes());
    match serialize(&probe) {
        Ok((d, b)) => {
            if is_key {
                let mut k = raw.clone();
                k.extend_from_slice(b" null");
                contains(&d, &k) && contains(&b, &k)
            } else {
                d == raw && b == raw
            }
        }
        Err(_) => false,
    }
}
/// An integral real beyond the i64 range is written as a bare digit string.
fn sig_big_real(v: f64) -> bool {
    match serialize(&real(v)) {
        Ok((d, _)) => !d.contains(&b'.') && d.iter().all(|c| c.is_ascii_digit() || *c == b'-') && matches!(lib_parse(&d, false), Err(m) if m.contains("Invalid integer")),
        Err(_) => false,
    }
}
/// `N G R` with N > 9999999 is read as the integer N, leaving `G R` behind.
fn sig_big_ref(n: u32, g: u16) -> bool {
    match serialize(&Src::Ref(n, g)) {
        Ok((d, _)) => d == format!("{n} {g} R").as_bytes() && matches!(lib_parse(&d, false), Ok((PdfObject::Integer(i), false, _)) if i == n as i64),
        Err(_) => false,
    }
}

// ------------------------------------------------------------------ one case

struct Verdict {
    fails: Vec<(String, String)>,
    outcome: u64,
    direct: Vec<u8>,
}

fn evaluate(section: &str, src: &Src) -> Verdict {
    let mut fails: Vec<(String, String)> = Vec::new();
    let (direct, buffered) = match serialize(src) {
        Ok(x) => x,
        Err(e) => {
            let key = if e.starts_with("PANIC") { "C09/serializer-panic" } else { "C09/serializer-error" };
            return Verdict { fails: vec![(key.to_string(), format!("{}: {e}", src.describe()))], outcome: vx::h64(&e), direct: vec![] };
        }
    };
    let is_stream = matches!(src, Src::Stream(..));
    let exp = src.expected();
    let exp_norm = eol_normalised(&exp);
    let mut sus = Suspects::default();
    scan(src, &mut sus);

    let mut with_endobj = direct.clone();
    with_endobj.extend_from_slice(b"\nendobj\n");
    let mut variants: Vec<(&str, &[u8], bool)> = vec![("direct", &direct, false), ("direct", &with_endobj, true)];
    if !is_stream {
        variants.push(("objstm", &buffered, false));
    }
    // (serializer, observation kind, detail)
    let mut obs: Vec<(&str, &'static str, String)> = Vec::new();
    for (label, bytes, endobj) in &variants {
        let shown = vx::show_bytes(bytes, 120);
        match lib_parse(bytes, *endobj) {
            Err(m) => obs.push((label, "library-parse-error", format!("bytes={shown} error={}", vx::one_line(&m, 200)))),
            Ok((o, clean, next)) => {
                let mut st = LibCmp::default();
                lib_cmp(src, &o, "$", &mut st);
                if !st.mism.is_empty() {
                    let refs_src = count_refs(src);
                    let kind = if st.got_refs > 0 || count_lib_refs(&o) > refs_src { "library-value-differs+ref" } else { "library-value-differs" };
                    obs.push((label, kind, format!("bytes={shown} {}", st.mism.iter().filter(|m| !m.is_empty()).cloned().collect::<Vec<_>>().join("; "))));
                } else if st.mojibake > 0 {
                    obs.push((label, "library-name-latin1", format!("bytes={shown} read={}", vx::one_line(&format!("{o:?}"), 200))));
                } else if !clean {
                    obs.push((label, "library-trailing-data", format!("bytes={shown} next token after the object: {next}")));
                }
            }
        }
        match ref_parse(bytes, *endobj) {
            Err(m) => obs.push((label, "reference-parse-error", format!("bytes={shown} error={m}"))),
            Ok((o, issues)) => {
                if !ref_eq(&exp, &o) {
                    if sus.cr_string && ref_eq(&exp_norm, &o) {
                        obs.push((label, "reference-cr-normalised", format!("bytes={shown} read={o:?}")));
                    } else {
                        obs.push((label, "reference-value-differs", format!("bytes={shown} want={exp:?} read={o:?}")));
                    }
                } else if !issues.is_empty() {
                    obs.push((label, "reference-syntax-issue", format!("bytes={shown} issues={issues:?}")));
                }
            }
        }
    }
    let outcome = vx::h64(&obs.iter().map(|(l, k, _)| (*l, *k)).collect::<Vec<_>>());
    if obs.is_empty() {
        return Verdict { fails, outcome, direct };
    }
    let what = src.describe();
    // 1. a name byte that SHALL be #xx-escaped was copied raw: it can break anything around it
    if let Some((n, is_key)) = &sus.must_escape {
        if sig_raw_name(n, *is_key) {
            let (l, k, d) = &obs[0];
            fails.push(("C09/name-byte-needs-#xx-escape".to_string(), format!("object={what} first symptom: {l} {k} {d}")));
            return Verdict { fails, outcome, direct };
        }
    }
    let big_real = sus.big_real.map(sig_big_real).unwrap_or(false);
    let big_ref = sus.big_ref.map(|(n, g)| sig_big_ref(n, g)).unwrap_or(false);
    for (label, kind, detail) in &obs {
        let key = match *kind {
            "library-name-latin1" if sus.non_ascii_name => "C09/non-ascii-name-read-back-as-latin1".to_string(),
            "reference-cr-normalised" => "C09/raw-CR-in-literal-string".to_string(),
            "library-parse-error" if big_real && detail.contains("Invalid integer") => "C09/integral-real-beyond-i64-written-without-decimal-point".to_string(),
            "library-trailing-data" | "library-value-differs" | "library-parse-error" if big_ref => "C09/reference-object-number-above-9999999-read-as-integer".to_string(),
            "library-value-differs+ref" if sus.r_after_ints => "C09/name-R-after-two-integers-read-as-reference".to_string(),
            "library-value-differs+ref" => format!("C09/{section}-{label}-library-value-differs"),
            other => format!("C09/{section}-{label}-{other}"),
        };
        if !fails.iter().any(|(k, _)| *k == key) {
            fails.push((key, format!("object={what} {detail}")));
        }
    }
    Verdict { fails, outcome, direct }
}

fn count_refs(s: &Src) -> usize {
    match s {
        Src::Ref(..) => 1,
        Src::Arr(a) => a.iter().map(count_refs).sum(),
        Src::Dict(d) | Src::Stream(d, _) => d.iter().map(|(_, v)| count_refs(v)).sum(),
        _ => 0,
    }
}
fn count_lib_refs(o: &PdfObject) -> usize {
    match o {
        PdfObject::Reference(..) => 1,
        PdfObject::Array(a) => a.0.iter().map(count_lib_refs).sum(),
        PdfObject::Dictionary(d) => d.0.values().map(count_lib_refs).sum(),
        PdfObject::Stream(s) => s.dict.0.values().map(count_lib_refs).sum(),
        _ => 0,
    }
}

fn run_case(c: &mut Ctx, section: &str, src: &Src) {
    c.input(vx::h64(src));
    let trivial = matches!(src, Src::Null | Src::Bool(_)) || matches!(src, Src::Int(i) if (-1..=1).contains(i));
    if !trivial {
        c.nontrivial();
    }
    let v = evaluate(section, src);
    c.outcome(v.outcome);
    for (k, d) in v.fails {
        c.fail(k, d);
    }
    if c.want_sample() {
        c.sample(json!({"object": src.describe(), "direct_serializer_output": vx::show_bytes(&v.direct, 100)}));
    }
}

// ------------------------------------------------------------------ sections

fn tree_leaves(thorough: bool) -> Vec<Src> {
    let mut v = vec![
        Src::Null,
        Src::Bool(true),
        Src::Int(0),
        Src::Int(i64::MIN),
        real(0.5),
        st("a(b\\)"),
        name("A"),
        Src::Bytes(vec![0xAB, 0x01]),
        Src::Ref(3, 0),
    ];
    if thorough {
        v.extend([
            Src::Bool(false), Src::Int(-1), real(-1.5), st(""), name("B.c-d"), real(123456.789), Src::Int(i64::MAX),
            st("%/<>[]{}"), st("\t\n é"), name("+-.!~"), Src::Int(10_000_000), Src::Int(65535), Src::Ref(9_999_999, 65535), Src::Bytes(vec![]), real(1e15), real(-0.0),
        ]);
    }
    v
}

fn gen_tree(c: &mut Ctx, depth: usize, leaves: &[Src]) -> Src {
    let kind = if depth > 1 { c.choose("node", 3) } else { 0 };
    match kind {
        0 => c.pick_from("leaf", leaves).clone(),
        1 => {
            let n = c.choose("array-len", 3);
            Src::Arr((0..n).map(|_| gen_tree(c, depth - 1, leaves)).collect())
        }
        _ => {
            let n = c.choose("dict-len", 3);
            Src::Dict((0..n).map(|i| (["K1", "K2"][i].to_string(), gen_tree(c, depth - 1, leaves))).collect())
        }
    }
}

pub fn run(rep: &mut Report) {
    let thorough = rep.tier.is_thorough();
    rep.rule("case = one source object (leaf × embedding context, tree, triple or stream), serialized by both serializers and \
              read by both readers; non-trivial = anything but a bare null/boolean/0/±1; distinct = distinct source object hash");
    rep.assume("a name containing NUL has no valid encoding at all (ISO 32000-1 7.3.5); the reference reader's note about #00 is not counted, the value round trip still is");
    rep.assume("refpdf::syntax is the independent reader (ISO 32000-1 §7.3, validated by its unit tests against the ISO examples)");
    rep.assume("an integral real may be read back as an integer (PDF numbers are interchangeable); reals compare after re-rounding the source with the writer's {:.6}");
    rep.assume("raw regular bytes outside '!'..'~' in a name are legal syntax (§7.3.5 'should'), only white space, delimiters and '#' SHALL be escaped");

    let lv = leaves();
    rep.note("leaf_catalogue_size", json!(lv.len()));
    rep.explore("leaf-in-context", Explore::full(), |c: &mut Ctx| {
        let leaf = c.pick_from("leaf", &lv).clone();
        let k = c.choose("context", n_contexts(&leaf));
        let src = wrap(k, leaf);
        run_case(c, "leaf", &src);
    });

    let tl = tree_leaves(thorough);
    rep.explore("trees", Explore::full(), |c: &mut Ctx| {
        let src = gen_tree(c, 3, &tl);
        run_case(c, "tree", &src);
    });

    let tri: Vec<Src> = vec![
        Src::Int(0), Src::Int(1), Src::Int(65535), Src::Int(65536), Src::Int(9_999_999), Src::Int(10_000_000), Src::Int(-1),
        name("R"), name("A"), Src::Ref(1, 0), real(0.5), st("R"), Src::Null, Src::Bool(true),
    ];
    rep.explore("triples", Explore::full(), |c: &mut Ctx| {
        let a = c.pick_from("a", &tri).clone();
        let b = c.pick_from("b", &tri).clone();
        let d = c.pick_from("c", &tri).clone();
        let arr = Src::Arr(vec![a, b, d]);
        let src = match c.choose("context", 3) {
            0 => arr,
            1 => Src::Dict(vec![("K".to_string(), arr)]),
            _ => Src::Arr(vec![arr, Src::Int(0)]),
        };
        run_case(c, "triple", &src);
    });

    // direct streams
    let mut datas: Vec<Vec<u8>> = vec![
        vec![], b"abc".to_vec(), b"abc\n".to_vec(), b"\r\n".to_vec(), b"endstream".to_vec(),
        b"x\nendstream\nendobj\n".to_vec(), b"stream\r\n".to_vec(), (0u16..=255).map(|b| b as u8).collect(), b" ".to_vec(), b"q\n".repeat(300),
    ];
    for b in 0u16..=255 {
        datas.push(vec![b as u8]);
    }
    if thorough {
        for a in [b'\r', b'\n', b'e', b' ', 0u8, b'>'] {
            for b in [b'\r', b'\n', b'e', b' ', 0u8, b'>'] {
                datas.push(vec![b'x', a, b]);
                datas.push(vec![a, b]);
            }
        }
    }
    let dicts: Vec<Vec<(String, Src)>> = vec![
        vec![],
        vec![("Type".to_string(), name("XObject"))],
        vec![("Length".to_string(), Src::Int(999))],
        vec![("K".to_string(), st("a)b(\\")), ("Z".to_string(), Src::Arr(vec![Src::Int(1), Src::Ref(2, 0)]))],
        vec![("Filter".to_string(), Src::Arr(vec![]))],
    ];
    rep.explore("streams", Explore::full(), |c: &mut Ctx| {
        let d = c.pick_from("dict", &dicts).clone();
        let data = c.pick_from("data", &datas).clone();
        run_case(c, "stream", &Src::Stream(d, data));
    });

    incremental::run(rep, thorough);
}

// ------------------------------------------------------------------ the incremental writer's serializer

/// `writer/incremental_update.rs write_object` is private; the public way in is an
/// incremental text-note update, which re-emits the whole annotation dictionary
/// ("preserving its other keys"). The base file is crafted with the reference builder, so
/// the source value here is a parsed value: what both readers saw BEFORE must be what they
/// see AFTER.
mod incremental {
    use super::*;
    use oxidize_pdf::geometry::Point;
    use oxidize_pdf::parser::PdfReader;
    use oxidize_pdf::writer::{IncrementalTextNoteEditor, TextNoteId, TextNoteMutation};
    use refpdf::builder::{simple_doc_objects, FileBuilder, Revision, XrefForm};
    use refpdf::file::PdfFile;

    fn b_leaves(thorough: bool) -> Vec<Obj> {
        let mut v = vec![Obj::Null, Obj::Bool(true), Obj::Bool(false)];
        for i in [0i64, 1, -1, i64::MAX, i64::MIN, 10_000_000] {
            v.push(Obj::Int(i));
        }
        for r in [0.5f64, -1.5, 123456.789, 0.000001, 1e15] {
            v.push(Obj::Real(r));
        }
        v.push(Obj::Str(vec![]));
        for b in 0u16..=255 {
            v.push(Obj::Str(vec![b as u8]));
        }
        for a in [b'(', b')', b'\\', b'\r', b'\n', 0xE9] {
            for b in [b'(', b')', b'\\', b'\r', b'\n', 0xE9] {
                v.push(Obj::Str(vec![a, b]));
            }
        }
        // names: every byte but NUL (a name cannot contain NUL, §7.3.5)
        for b in 1u16..=255 {
            v.push(Obj::Name(vec![b as u8]));
        }
        v.push(Obj::Name(vec![]));
        let pair: &[u8] = if thorough { b"A #/()<>[]{}%\xE9\xC3\xA9" } else { b"A #/(%\xE9" };
        for a in pair {
            for b in pair {
                v.push(Obj::Name(vec![*a, *b]));
            }
        }
        v.push(Obj::Name("é".as_bytes().to_vec()));
        v.push(Obj::Name("€".as_bytes().to_vec()));
        v.push(Obj::Ref(1, 0));
        v.push(Obj::Ref(8_388_607, 65535));
        v
    }

    fn b_wrap(k: usize, x: Obj) -> Obj {
        let key = match &x {
            Obj::Name(n) if !n.is_empty() => n.clone(),
            _ => b"K".to_vec(),
        };
        match k {
            0 => x,
            1 => Obj::Array(vec![x]),
            2 => Obj::Array(vec![x, Obj::Int(7)]),
            3 => Obj::dict(vec![("A", x), ("B", Obj::Int(7))]),
            4 => Obj::Array(vec![Obj::dict(vec![("K", Obj::Array(vec![x]))])]),
            _ => Obj::Dict(syntax::Dict(vec![(key, Obj::Int(7))])),
        }
    }

    fn base_file(x: &Obj) -> Vec<u8> {
        let mut objs = simple_doc_objects(1, &|_| b"BT ET".to_vec());
        // page object 3: add /Annots
        for (n, o) in objs.iter_mut() {
            if *n == 3 {
                if let Obj::Dict(d) = o {
                    d.set("Annots", Obj::Array(vec![Obj::Ref(10, 0)]));
                }
            }
        }
        objs.push((
            10,
            Obj::dict(vec![
                ("Type", Obj::name("Annot")),
                ("Subtype", Obj::name("Text")),
                ("Rect", Obj::Array(vec![Obj::Int(10), Obj::Int(20), Obj::Int(30), Obj::Int(40)])),
                ("Contents", Obj::str(b"old")),
                ("X", x.clone()),
            ]),
        ));
        let mut r = Revision::new(XrefForm::Table);
        for (n, o) in objs {
            r.add(n, o);
        }
        let mut fb = FileBuilder::new(1);
        fb.revisions.push(r);
        fb.build().bytes
    }

    fn lib_x(bytes: &[u8]) -> Result<PdfObject, String> {
        match vx::guard(|| -> Result<PdfObject, String> {
            let mut r = PdfReader::new(Cursor::new(bytes)).map_err(|e| format!("{e:?}"))?;
            let o = r.get_object(10, 0).map_err(|e| format!("{e:?}"))?;
            let d = o.as_dict().ok_or("object 10 is not a dictionary")?;
            d.get("X").cloned().ok_or_else(|| format!("no /X in {:?}", d.0.keys().collect::<Vec<_>>()))
        }) {
            Ok(r) => r,
            Err(p) => Err(format!("PANIC {p}")),
        }
    }

    fn ref_x(bytes: &[u8]) -> Result<Obj, String> {
        let f = PdfFile::parse(bytes)?;
        let (_, _, o, issues, _) = match f.xref.get(&10) {
            Some(refpdf::file::XEntry::InUse { offset, .. }) => f.object_at(*offset)?,
            other => return Err(format!("object 10 is {other:?}")),
        };
        let issues: Vec<String> = issues.into_iter().filter(|i| !i.starts_with("name contains raw byte") && !i.starts_with("name contains #00")).collect();
        if !issues.is_empty() {
            return Err(format!("syntax issues in the rewritten annotation: {issues:?}"));
        }
        o.dict_get("X").cloned().ok_or_else(|| format!("no /X in {o:?}"))
    }

    /// the known defect: every byte ≥ 0x80 of a name comes back as the UTF-8 encoding of
    /// the Latin-1 character with that code
    fn reencoded(o: &Obj) -> Obj {
        let f = |n: &Vec<u8>| -> Vec<u8> { n.iter().map(|&b| b as char).collect::<String>().into_bytes() };
        match o {
            Obj::Name(n) => Obj::Name(f(n)),
            Obj::Array(a) => Obj::Array(a.iter().map(reencoded).collect()),
            Obj::Dict(d) => Obj::Dict(syntax::Dict(d.iter().map(|(k, v)| (f(k), reencoded(v))).collect())),
            other => other.clone(),
        }
    }
    fn has_high_name_byte(o: &Obj) -> bool {
        match o {
            Obj::Name(n) => n.iter().any(|b| *b >= 0x80),
            Obj::Array(a) => a.iter().any(has_high_name_byte),
            Obj::Dict(d) => d.iter().any(|(k, v)| k.iter().any(|b| *b >= 0x80) || has_high_name_byte(v)),
            _ => false,
        }
    }

    pub fn run(rep: &mut Report, thorough: bool) {
        let lv = b_leaves(thorough);
        rep.explore("incremental", Explore::full(), |c: &mut Ctx| {
            let leaf = c.pick_from("leaf", &lv).clone();
            let nctx = if matches!(&leaf, Obj::Name(n) if !n.is_empty()) { 6 } else { 5 };
            let x = b_wrap(c.choose("context", nctx), leaf);
            c.input(vx::h64(&syntax::to_bytes(&x)));
            c.nontrivial();
            let base = base_file(&x);
            // self-check of the crafted file: the reference reader must see exactly x
            match ref_x(&base) {
                Ok(o) if ref_eq(&x, &o) => {}
                other => {
                    c.fail("C09/incremental-harness-base-file-wrong", format!("x={x:?} reference reader of the base file: {other:?}"));
                    return;
                }
            }
            let lib_before = lib_x(&base);
            let upd = vx::guard(|| {
                IncrementalTextNoteEditor::new(&base).apply(&[TextNoteMutation::Update {
                    id: TextNoteId::new(10, 0),
                    position: Point::new(100.0, 110.0),
                    contents: "n".to_string(),
                }])
            });
            let out = match upd {
                Ok(Ok(u)) => u.pdf_bytes,
                Ok(Err(e)) => {
                    // the library cannot read the base value at all: that is the reader half,
                    // decided by the other sections; count it here under its own key
                    c.outcome(1);
                    c.fail("C09/incremental-update-refused", format!("x={x:?} error={e:?} library-read-of-base={:?}", lib_before.as_ref().map(|_| "ok")));
                    return;
                }
                Err(p) => {
                    c.fail("C09/incremental-update-panic", format!("x={x:?} {p}"));
                    return;
                }
            };
            let mut oh = 0u64;
            match ref_x(&out) {
                Ok(o) if ref_eq(&x, &o) => {}
                Ok(o) => {
                    oh |= 2;
                    if has_high_name_byte(&x) && ref_eq(&reencoded(&x), &o) {
                        c.fail("C09/incremental-rewrite-reencodes-name-bytes-above-7F-as-utf8", format!("before={x:?} after={o:?}"));
                    } else {
                        c.fail("C09/incremental-reference-value-differs", format!("before={x:?} after={o:?}"));
                    }
                }
                Err(e) => {
                    oh |= 4;
                    c.fail("C09/incremental-reference-cannot-read-rewritten-object", format!("x={x:?} {e}"));
                }
            }
            match (&lib_before, lib_x(&out)) {
                (Ok(a), Ok(b)) if *a == b => {}
                (Ok(a), Ok(b)) => {
                    oh |= 8;
                    if has_high_name_byte(&x) {
                        c.fail("C09/incremental-rewrite-reencodes-name-bytes-above-7F-as-utf8", format!("library before={a:?} after={b:?}"));
                    } else {
                        c.fail("C09/incremental-library-value-differs", format!("x={x:?} before={a:?} after={b:?}"));
                    }
                }
                (a, b) => {
                    oh |= 16;
                    c.fail("C09/incremental-library-cannot-read", format!("x={x:?} before={} after={}", a.as_ref().map(|_| "ok".to_string()).unwrap_or_else(|e| e.clone()), b.as_ref().map(|_| "ok".to_string()).unwrap_or_else(|e| e.clone())));
                }
            }
            c.outcome(oh);
            if c.want_sample() {
                c.sample(json!({"X": format!("{x:?}"), "appended": vx::show_bytes(&out[base.len()..], 160)}));
            }
        });
    }
}
