//! One module per property, each behind its own cargo feature (`cNN`) so that a module
//! under construction cannot break the build of the others. Each exposes
//! `pub const BUILT: bool` and `pub fn run(rep: &mut vx::Report)`.
#[cfg(feature = "c01")]
pub mod c01;
#[cfg(feature = "c02")]
pub mod c02;
#[cfg(feature = "c03")]
pub mod c03;
#[cfg(feature = "c04")]
pub mod c04;
#[cfg(feature = "c05")]
pub mod c05;
#[cfg(feature = "c06")]
pub mod c06;
#[cfg(feature = "c07")]
pub mod c07;
#[cfg(feature = "c08")]
pub mod c08;
#[cfg(feature = "c09")]
pub mod c09;
#[cfg(feature = "c10")]
pub mod c10;
#[cfg(feature = "c11")]
pub mod c11;
#[cfg(feature = "c12")]
pub mod c12;
#[cfg(feature = "c13")]
pub mod c13;
#[cfg(feature = "c14")]
pub mod c14;
#[cfg(feature = "c15")]
pub mod c15;
#[cfg(feature = "c16")]
pub mod c16;
#[cfg(feature = "c17")]
pub mod c17;
#[cfg(feature = "c18")]
pub mod c18;
#[cfg(feature = "c19")]
pub mod c19;
#[cfg(feature = "c20")]
pub mod c20;
#[cfg(feature = "c21")]
pub mod c21;
#[cfg(feature = "c23")]
pub mod c23;
#[cfg(feature = "c24")]
pub mod c24;
#[cfg(feature = "c25")]
pub mod c25;
#[cfg(feature = "c26")]
pub mod c26;
#[cfg(feature = "c27")]
pub mod c27;
#[cfg(feature = "c28")]
pub mod c28;
#[cfg(feature = "c30")]
pub mod c30;

/// Entry point for `vcheck --worker <ID> ...` subprocesses.
pub fn worker_main(args: &[String]) -> i32 {
    match args.first().map(|s| s.as_str()) {
        #[cfg(feature = "c01")]
        Some("C01") => c01::worker_main(&args[1..]),
        #[cfg(feature = "c15")]
        Some("C15") => c15::worker_main(&args[1..]),
        #[cfg(feature = "c20")]
        Some("C20") => c20::worker_main(&args[1..]),
        _ => {
            eprintln!("no worker for {:?}", args.first());
            2
        }
    }
}
