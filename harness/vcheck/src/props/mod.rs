//! One module per property. Each exposes `pub fn run(rep: &mut vx::Report)`.
pub mod c01;
pub mod c02;
pub mod c03;
pub mod c04;
pub mod c05;
pub mod c06;
pub mod c07;
pub mod c08;
pub mod c09;
pub mod c10;
pub mod c11;
pub mod c12;
pub mod c13;
pub mod c14;
pub mod c15;
pub mod c16;
pub mod c17;
pub mod c18;
pub mod c19;
pub mod c20;
pub mod c21;
pub mod c23;
pub mod c24;
pub mod c25;
pub mod c26;
pub mod c27;
pub mod c28;
pub mod c30;

/// Entry point for `vcheck --worker <ID> ...` subprocesses.
pub fn worker_main(args: &[String]) -> i32 {
    match args.first().map(|s| s.as_str()) {
        _ => {
            eprintln!("no worker for {:?}", args.first());
            2
        }
    }
}
