//! C07 — every supported stream filter decodes exactly what a reference encoder encoded.
//!
//! Everything goes through the library's real stream-decode entry point
//! (`PdfStream { dict, data }.decode(&ParseOptions::default())`, the call every reader path ends
//! in). The encoders are refpdf's (written from ISO 32000-1 §7.4) plus third-party ones
//! (miniz through flate2 for Flate, `weezl` for LZW, `fax` for CCITT). Nothing is sampled.
//!
//! Sections
//!  * `single-small`   every string of length ≤4 over a 10-byte alphabet × filter × encoder variant
//!  * `single-first-bytes` every 2-byte prefix (all 65 536) in three shapes × filter
//!  * `patterns`       4 pattern generators at EVERY length 0..=4200 (thorough 0..=9000) × filter ×
//!                     encoder variant — crosses the LZW 511/1023/2047 width steps and the
//!                     4096 table reset, for both EarlyChange values, refpdf and weezl encodings
//!  * `chains`         all 259 /Filter sequences of length ≤3 over the six filters × 118 data strings
//!  * `ascii-decor`    ASCIIHex/ASCII85: white space of every kind every 1/7/64 characters,
//!                     leading/trailing blanks, EOD present/absent (+ RunLength EOD absent)
//!  * `predictors`     Predictor {2,10..15} × Colors 1-4 × BitsPerComponent {1,2,4,8,16} ×
//!                     Columns 1..16 (thorough 1..64) × rows 1..3 × 4 data patterns × carrier;
//!                     predictor 15: every per-row filter-type choice (5^rows)
//!  * `ccitt`          K ∈ {-1, 0, 0 with EndOfLine} × BlackIs1 × Columns {1..16,64} × rows 1..3 ×
//!                     every bitmap (≤12 pixels quick, ≤16 thorough), encoded through `fax`
//!  * `dict-forms`     /Filter and /DecodeParms as one-element arrays, explicit default parameters
use crate::util::filt::*;
use refpdf::filters as rf;
use serde_json::json;
use vx::{Ctx, Explore, Report};

pub const BUILT: bool = true;

/// 00 01 7F 80 FF: extremes / sign boundaries (RunLength length bytes, LZW high bits);
/// 'A' plain; '~' '>' 'z' are the ASCII85/ASCIIHex meta characters; 'T' (0x54) makes the first
/// ASCII85 digit '<'.
const ALPHA: [u8; 10] = [0x00, 0x01, 0x7F, 0x80, 0xFF, b'A', b'~', b'>', b'z', b'T'];

#[derive(Clone, Copy, PartialEq, Eq, Debug, Hash)]
enum Class {
    Match,
    Wrong,
    Rejected,
    Panic,
}
fn classify(got: &LibResult, want: &[u8]) -> Class {
    match got {
        Ok(Ok(v)) if v == want => Class::Match,
        Ok(Ok(_)) => Class::Wrong,
        Ok(Err(_)) => Class::Rejected,
        Err(_) => Class::Panic,
    }
}
fn generic_key(stem: &str, got: &LibResult) -> String {
    match got {
        Err(p) => format!("C07/{stem}-panic@{}", vx::panic_site(p)),
        Ok(Err(_)) => format!("C07/{stem}-rejects-reference-encoding"),
        Ok(Ok(_)) => format!("C07/{stem}-wrong-bytes"),
    }
}

const KEY_A85_LT: &str = "C07/ascii85-leading-lt-swallows-next-character";

/// Known-defect signature KF-C07-2. The library's ASCII85 decoder looks for an optional `<~`
/// prefix and, when the first character is `<` but the second is not `~`, forgets to put the
/// second character back. This is the reference decoding of `raw` through `fs` with exactly that
/// loss modelled at every ASCII85 stage; `None` when no ASCII85 stage ever sees `<x…`.
fn decode_with_lt_defect(fs: &[F], raw: &[u8]) -> Option<Result<Vec<u8>, String>> {
    let mut applied = false;
    let mut cur: Result<Vec<u8>, String> = Ok(raw.to_vec());
    for f in fs {
        cur = match cur {
            Err(e) => Err(e),
            Ok(d) => match f {
                F::Flate => rf::flate_decode(&d),
                F::Lzw1 => rf::lzw_decode(&d, true),
                F::Lzw0 => rf::lzw_decode(&d, false),
                F::AHx => rf::asciihex_decode(&d),
                F::RL => rf::runlength_decode(&d),
                F::A85 => {
                    let mut t: Vec<u8> = d.iter().copied().filter(|b| !matches!(b, 9 | 10 | 12 | 13 | 32)).collect();
                    if t.len() >= 2 && t[0] == b'<' && t[1] != b'~' {
                        t.remove(1);
                        applied = true;
                    }
                    rf::ascii85_decode(&t)
                }
            },
        };
    }
    if applied { Some(cur) } else { None }
}

/// Only the exact signature counts: the output equals the modelled decoding (or the damaged
/// intermediate data is rejected / mangled by a later stage without a panic).
fn is_lt_defect(fs: &[F], raw: &[u8], got: &LibResult) -> bool {
    match (decode_with_lt_defect(fs, raw), got) {
        (Some(Ok(w)), Ok(Ok(g))) => w == *g,
        (Some(Err(_)), Ok(_)) => true,
        _ => false,
    }
}

fn key_chain(fs: &[F], raw: &[u8], got: &LibResult) -> String {
    if is_lt_defect(fs, raw, got) {
        KEY_A85_LT.to_string()
    } else if fs.len() == 1 {
        generic_key(fs[0].short(), got)
    } else {
        generic_key("chain", got)
    }
}
fn key_single(f: F, raw: &[u8], got: &LibResult) -> String {
    key_chain(&[f], raw, got)
}

fn all_strings(alpha: &[u8], max_len: usize) -> Vec<Vec<u8>> {
    let mut out: Vec<Vec<u8>> = vec![vec![]];
    let mut start = 0;
    for _ in 0..max_len {
        let end = out.len();
        for i in start..end {
            for &a in alpha {
                let mut s = out[i].clone();
                s.push(a);
                out.push(s);
            }
        }
        start = end;
    }
    out
}

/// (filter, variant) pairs; `all` = every encoder variant, otherwise variant 0 only.
fn filter_variants(all: bool) -> Vec<(F, usize)> {
    let mut v = Vec::new();
    for f in ALL_F {
        for k in 0..(if all { f.variants() } else { 1 }) {
            v.push((f, k));
        }
    }
    v
}

pub fn run(rep: &mut Report) {
    let thorough = rep.tier.is_thorough();
    rep.rule(
        "one case = (filter chain + DecodeParms, reference-encoded bytes); inputs are distinct by the hash of \
         (chain, parameters, encoded bytes); non-trivial = the encoded bytes differ from the decoded data (for \
         predictor cases: the prediction changed at least one byte); loops over dense ranges (every length, every \
         second byte, every bitmap) are counted as evaluations",
    );
    rep.assume("refpdf::filters encoders are conforming (validated at setup against weezl, flate2/zune-inflate and round trips); flate2/miniz, weezl and fax encoders are conforming");
    rep.assume("streams are built as PdfStream{dict,data} and decoded with PdfStream::decode(&ParseOptions::default()) — the entry point all reader paths use");
    rep.assume("EOD-less ASCIIHex/ASCII85/RunLength data is outside the standard: Ok(original) and Err are both accepted there, only Ok(other bytes) is flagged");
    rep.assume("TIFF predictor 2 test data has zero padding bits at the end of each row (the standard does not say what a decoder does with them)");

    // the miniz streams produced by util::filt::flate_fast must be readable by an independent inflater
    for (k, n) in [(0usize, 0usize), (1, 1), (3, 700), (0, 70000), (2, 5000)] {
        for level in [0u32, 6, 9] {
            let d = pattern(k, n);
            if rf::flate_decode(&flate_fast(&d, level)).ok().as_deref() != Some(&d[..]) {
                rep.machinery_error(format!("flate_fast(level {level}) output of pattern {k} x {n} is not decoded back by zune-inflate"));
                return;
            }
        }
    }

    single_small(rep);
    single_first_bytes(rep, thorough);
    patterns(rep, thorough);
    chains(rep);
    ascii_decor(rep);
    predictors(rep, thorough);
    ccitt(rep, thorough);
    dict_forms(rep);
}

// ------------------------------------------------------------------------------------------

fn single_small(rep: &mut Report) {
    let fv = filter_variants(true);
    rep.explore("single-small", Explore::full(), |c: &mut Ctx| {
        let (f, var) = *c.pick_from("filter-variant", &fv);
        let len = c.choose("len", 5);
        let data: Vec<u8> = (0..len).map(|_| *c.pick_from("byte", &ALPHA)).collect();
        let raw = ref_encode(f, var, &data);
        let st = [Stage::plain(f)];
        c.input(vx::h64(&(f, &raw)));
        c.nontrivial();
        let s = make_stream(&st, raw.clone(), false);
        let got = lib_decode(&s);
        let cl = classify(&got, &data);
        c.outcome(vx::h64(&(cl, got.as_ref().ok().and_then(|r| r.as_ref().ok()))));
        if cl != Class::Match {
            c.fail(
                key_single(f, &raw, &got),
                format!("filter={} encoder={} data={} encoded={} got={}", f.short(), f.variant_name(var), vx::hex(&data), vx::show_bytes(&raw, 64), short_err(&got)),
            );
        }
        c.sample(json!({"filter": f.short(), "encoder": f.variant_name(var), "data_hex": vx::hex(&data), "encoded": vx::show_bytes(&raw, 64)}));
    });
}

fn single_first_bytes(rep: &mut Report, thorough: bool) {
    let fv = filter_variants(thorough);
    rep.explore("single-first-bytes", Explore::full(), |c: &mut Ctx| {
        let (f, var) = *c.pick_from("filter-variant", &fv);
        let b0 = c.choose("b0", 256) as u8;
        let st = [Stage::plain(f)];
        let mut ih = 0u64;
        let mut oh = 0u64;
        let mut reported = 0;
        for b1 in 0..=255u8 {
            // the pair alone, the pair in front of a tail, the pair behind a head
            let shapes: [Vec<u8>; 3] = [vec![b0, b1], vec![b0, b1, 0x80, 0x01], vec![b'A', b0, b1, 0x7F, 0xFF]];
            for data in shapes {
                let raw = ref_encode(f, var, &data);
                ih = vx::hmix(ih, vx::hbytes(&raw));
                let s = make_stream(&st, raw.clone(), false);
                let got = lib_decode(&s);
                let cl = classify(&got, &data);
                oh = vx::hmix(oh, vx::h64(&cl));
                if cl != Class::Match && reported < 3 {
                    reported += 1;
                    c.fail(
                        key_single(f, &raw, &got),
                        format!("filter={} encoder={} data={} encoded={} got={}", f.short(), f.variant_name(var), vx::hex(&data), vx::show_bytes(&raw, 64), short_err(&got)),
                    );
                }
            }
        }
        c.add_evaluations(256 * 3 - 1);
        c.input(vx::hmix(vx::h64(&(f, var, b0)), ih));
        c.outcome(oh);
        c.nontrivial();
        c.sample(json!({"filter": f.short(), "encoder": f.variant_name(var), "b0": b0, "b1": "0..=255", "shapes": ["b0 b1", "b0 b1 80 01", "41 b0 b1 7F FF"]}));
    });
}

fn patterns(rep: &mut Report, thorough: bool) {
    let fv = filter_variants(true);
    let max_len: usize = if thorough { 9000 } else { 4200 };
    const BLOCK: usize = 100;
    let blocks = max_len / BLOCK + 1;
    rep.note("patterns_max_len", json!(max_len));
    rep.explore("patterns", Explore::full(), |c: &mut Ctx| {
        let (f, var) = *c.pick_from("filter-variant", &fv);
        let pat = c.choose("pattern", PATTERNS.len());
        let blk = c.choose("length-block", blocks);
        let st = [Stage::plain(f)];
        let lo = blk * BLOCK;
        let hi = ((blk + 1) * BLOCK - 1).min(max_len);
        let full = pattern(pat, hi);
        let mut ih = 0u64;
        let mut oh = 0u64;
        let mut reported = 0;
        for n in lo..=hi {
            let data = &full[..n];
            let raw = ref_encode(f, var, data);
            ih = vx::hmix(ih, vx::hbytes(&raw));
            let s = make_stream(&st, raw.clone(), false);
            let got = lib_decode(&s);
            let cl = classify(&got, data);
            oh = vx::hmix(oh, vx::h64(&cl));
            if cl != Class::Match && reported < 2 {
                reported += 1;
                let first_diff = match &got {
                    Ok(Ok(g)) => g.iter().zip(data).position(|(a, b)| a != b).unwrap_or(g.len().min(data.len())),
                    _ => 0,
                };
                c.fail(
                    format!("{}-at-length", key_single(f, &raw, &got)),
                    format!("filter={} encoder={} pattern={} length={n} encoded_len={} first_difference_at={first_diff} got={}", f.short(), f.variant_name(var), PATTERNS[pat], raw.len(), short_err(&got)),
                );
            }
        }
        c.add_evaluations((hi - lo) as u64);
        c.input(vx::hmix(vx::h64(&(f, var, pat, blk)), ih));
        c.outcome(oh);
        if hi > 0 {
            c.nontrivial();
        }
        c.sample(json!({"filter": f.short(), "encoder": f.variant_name(var), "pattern": PATTERNS[pat], "lengths": format!("{lo}..={hi}")}));
    });
}

fn chain_data() -> Vec<Vec<u8>> {
    let mut v = all_strings(&ALPHA, 2);
    v.push(b"Test".to_vec());
    v.push(vec![0; 4]);
    v.push(vec![0; 8]);
    v.push(pattern(1, 300));
    v.push(pattern(0, 600));
    v.push(pattern(2, 700));
    v.push(pattern(3, 1100));
    v
}

fn chains(rep: &mut Report) {
    let data_set = chain_data();
    rep.note("chain_data_strings", json!(data_set.len()));
    rep.explore("chains", Explore::full(), |c: &mut Ctx| {
        let n = c.choose("chain-length", 4);
        let fs: Vec<F> = (0..n).map(|_| *c.pick_from("filter", &ALL_F)).collect();
        let data = c.pick_from("data", &data_set);
        // /Filter [F1 F2 F3] is decoded F1 first, so the data was encoded F3 first
        let mut raw = data.clone();
        for f in fs.iter().rev() {
            raw = ref_encode(*f, 0, &raw);
        }
        let st: Vec<Stage> = fs.iter().map(|f| Stage::plain(*f)).collect();
        c.input(vx::h64(&(&fs, &raw)));
        if n > 0 {
            c.nontrivial();
        }
        let s = make_stream(&st, raw.clone(), false);
        let got = lib_decode(&s);
        let cl = classify(&got, data);
        c.outcome(vx::h64(&(cl, vx::hbytes(data))));
        if cl != Class::Match {
            let key = key_chain(&fs, &raw, &got);
            c.fail(
                key,
                format!("chain={:?} data={} encoded={} got={}", fs.iter().map(|f| f.short()).collect::<Vec<_>>(), vx::show_bytes(data, 24), vx::show_bytes(&raw, 48), short_err(&got)),
            );
        }
        c.sample(json!({"chain": fs.iter().map(|f| f.short()).collect::<Vec<_>>(), "data_len": data.len(), "encoded_len": raw.len()}));
    });
}

// ------------------------------------------------------------------------------------------

const SEPS: [(&str, &[u8]); 7] = [("LF", b"\n"), ("CR", b"\r"), ("CRLF", b"\r\n"), ("SP", b" "), ("TAB", b"\t"), ("FF", b"\x0c"), ("NUL", b"\x00")];
const EVERY: [usize; 3] = [1, 7, 64];
const TRAIL: [&[u8]; 4] = [b"", b"\n", b"   ", b"\r\n"];
const LEAD: [&[u8]; 2] = [b"", b"\n "];

fn decorate(enc: &[u8], eod_len: usize, brk: Option<(&[u8], usize)>, keep_eod: bool, lead: &[u8], trail: &[u8]) -> Vec<u8> {
    let (body, eod) = enc.split_at(enc.len() - eod_len);
    let mut o = lead.to_vec();
    for (i, &b) in body.iter().enumerate() {
        o.push(b);
        if let Some((sep, every)) = brk {
            if (i + 1) % every == 0 {
                o.extend_from_slice(sep);
            }
        }
    }
    if keep_eod {
        o.extend_from_slice(eod);
    }
    o.extend_from_slice(trail);
    o
}

fn ascii_decor(rep: &mut Report) {
    let mut data_set = all_strings(&ALPHA, 3);
    data_set.push(pattern(3, 100));
    data_set.push(pattern(1, 300));
    data_set.push(vec![0; 9]);
    // (filter, variant, EOD length)
    let kinds: [(F, usize, usize); 4] = [(F::AHx, 0, 1), (F::AHx, 1, 1), (F::A85, 0, 2), (F::RL, 0, 1)];
    rep.explore("ascii-decor", Explore::full(), |c: &mut Ctx| {
        let (f, var, eod_len) = *c.pick_from("filter", &kinds);
        let keep_eod = !c.flag("eod-absent");
        let (brk, brk_name, lead, trail): (Option<(&[u8], usize)>, String, &[u8], &[u8]) = if f == F::RL {
            // binary filter: white space is data; only the EOD marker is varied
            (None, "none".into(), b"", b"")
        } else {
            let b = c.choose("break", 1 + SEPS.len() * EVERY.len());
            let brk = if b == 0 { None } else { Some((SEPS[(b - 1) / EVERY.len()].1, EVERY[(b - 1) % EVERY.len()])) };
            let name = if b == 0 { "none".to_string() } else { format!("{} every {}", SEPS[(b - 1) / EVERY.len()].0, EVERY[(b - 1) % EVERY.len()]) };
            let lead = *c.pick_from("lead", &LEAD);
            let trail = *c.pick_from("trail", &TRAIL);
            (brk, name, lead, trail)
        };
        let data = c.pick_from("data", &data_set);
        let enc = ref_encode(f, var, data);
        let raw = decorate(&enc, eod_len, brk, keep_eod, lead, trail);
        c.input(vx::h64(&(f, &raw)));
        if raw != enc {
            c.nontrivial();
        }
        let s = make_stream(&[Stage::plain(f)], raw.clone(), false);
        let got = lib_decode(&s);
        let cl = classify(&got, data);
        c.outcome(vx::h64(&(cl, keep_eod, vx::hbytes(data))));
        let detail = || format!("filter={} break={brk_name} eod={} lead={:?} trail={:?} data={} stream={} got={}", f.short(), keep_eod, vx::show_bytes(lead, 8), vx::show_bytes(trail, 8), vx::hex(&data[..data.len().min(16)]), vx::show_bytes(&raw, 64), short_err(&got));
        match (cl, keep_eod) {
            (Class::Match, _) => {}
            (Class::Rejected, false) => {} // EOD-less data: outside the standard, an error is acceptable
            (_, false) => {
                let k = key_single(f, &raw, &got);
                c.fail(if k == KEY_A85_LT { k } else { format!("{k}-without-eod") }, detail())
            }
            (_, true) => {
                let uses_nul = brk.map(|(s, _)| s == b"\x00").unwrap_or(false);
                let key = if uses_nul && cl == Class::Rejected {
                    // exact known signature (KF-C07-3): NUL (white space per ISO 32000-1 Table 1) is rejected
                    format!("C07/{}-rejects-nul-as-white-space", f.short())
                } else if brk.is_some() || !lead.is_empty() || !trail.is_empty() {
                    if is_lt_defect(&[f], &raw, &got) { KEY_A85_LT.to_string() } else { format!("{}-with-white-space", generic_key(f.short(), &got)) }
                } else {
                    key_single(f, &raw, &got)
                };
                c.fail(key, detail());
            }
        }
        c.sample(json!({"filter": f.short(), "break": brk_name, "eod": keep_eod, "stream": vx::show_bytes(&raw, 48)}));
    });
}

// ------------------------------------------------------------------------------------------

const PRED_PATTERNS: [&str; 4] = ["counter", "all-pairs-new", "mixed", "high"];
fn pred_data(kind: usize, n: usize) -> Vec<u8> {
    match kind {
        0 => (0..n).map(|i| (i * 3 + 1) as u8).collect(),
        1 => pattern(2, n + 3)[3..].to_vec(),
        2 => pattern(3, n),
        _ => (0..n).map(|i| ((255 - (i * 7) % 5) as u8) ^ (if i % 2 == 1 { 0x80u8 } else { 0u8 })).collect(),
    }
}

fn predictors(rep: &mut Report, thorough: bool) {
    let max_cols: usize = if thorough { 64 } else { 16 };
    rep.note("predictor_columns", json!(format!("1..={max_cols}")));
    const PREDS: [i64; 7] = [2, 10, 11, 12, 13, 14, 15];
    const BPCS: [usize; 5] = [1, 2, 4, 8, 16];
    const CARRIERS: [F; 3] = [F::Flate, F::Lzw1, F::Lzw0];
    rep.explore("predictors", Explore::full(), |c: &mut Ctx| {
        let carrier = *c.pick_from("carrier", &CARRIERS);
        let predictor = *c.pick_from("predictor", &PREDS);
        let colors = 1 + c.choose("colors", 4);
        let bpc = *c.pick_from("bpc", &BPCS);
        let columns = 1 + c.choose("columns", max_cols);
        let rows = 1 + c.choose("rows", 3);
        let pat = c.choose("data-pattern", PRED_PATTERNS.len());
        let p = rf::PredParams { predictor, colors, bpc, columns };
        let rb = p.row_bytes();
        // row filter types: predictor 10..14 → the named type on every row, or (Flate carrier
        // only) a rotation that differs from the named type — the tag byte of each row is what
        // counts (§7.4.4.4); predictor 15 (Flate carrier) → every assignment of the 5 types
        let tags: Vec<u8> = match predictor {
            2 => vec![],
            15 if carrier == F::Flate => (0..rows).map(|_| c.choose("row-filter-type", 5) as u8).collect(),
            15 => (0..rows).map(|r| ((r * 2 + 1) % 5) as u8).collect(),
            _ => {
                let base = (predictor - 10) as u8;
                let rot = carrier == F::Flate && c.flag("tags-differ-from-predictor-value");
                (0..rows).map(|r| if rot { (base + 1 + r as u8) % 5 } else { base }).collect()
            }
        };
        let mut data = pred_data(pat, rb * rows);
        if predictor == 2 {
            let pad = rb * 8 - colors * bpc * columns;
            if pad > 0 {
                for r in 0..rows {
                    data[(r + 1) * rb - 1] &= 0xFFu8 << pad;
                }
            }
        }
        let predicted = if predictor == 2 { rf::tiff_predict_encode(&data, &p) } else { rf::png_predict_encode(&data, &p, &|r| tags[r]) };
        let raw = ref_encode(carrier, 0, &predicted);
        let st = [Stage { f: carrier, parms: vec![("Predictor", predictor), ("Colors", colors as i64), ("BitsPerComponent", bpc as i64), ("Columns", columns as i64)] }];
        c.input(vx::h64(&(carrier, predictor, colors, bpc, columns, &raw)));
        let changed = if predictor == 2 { predicted != data } else { predicted.chunks(rb + 1).zip(data.chunks(rb)).any(|(a, b)| &a[1..] != b) };
        if changed {
            c.nontrivial();
        }
        let s = make_stream(&st, raw, false);
        let got = lib_decode(&s);
        let cl = classify(&got, &data);
        c.outcome(vx::h64(&(cl, vx::hbytes(&data))));
        if cl != Class::Match {
            let key = match &got {
                // exact known signature (KF-C07-1): the horizontally differenced bytes come back untouched
                Ok(Ok(g)) if predictor == 2 && *g == predicted => "C07/tiff-predictor-2-not-applied".to_string(),
                _ => generic_key(&format!("predictor-{}", if predictor == 2 { "tiff" } else { "png" }), &got),
            };
            c.fail(
                key,
                format!("carrier={} Predictor={predictor} Colors={colors} BitsPerComponent={bpc} Columns={columns} rows={rows} row-types={tags:?} data={} predicted={} got={}", carrier.short(), vx::hex(&data[..data.len().min(24)]), vx::hex(&predicted[..predicted.len().min(24)]), short_err(&got)),
            );
        }
        c.sample(json!({"carrier": carrier.short(), "Predictor": predictor, "Colors": colors, "BitsPerComponent": bpc, "Columns": columns, "rows": rows, "row_types": tags, "pattern": PRED_PATTERNS[pat]}));
    });
}

// ------------------------------------------------------------------------------------------

fn ccitt(rep: &mut Report, thorough: bool) {
    use oxidize_pdf::parser::objects::{PdfDictionary, PdfName, PdfObject, PdfStream};
    use refpdf::ccitt::{encode_g3_1d, encode_g4, Bitmap};
    let max_all_pixels: usize = if thorough { 16 } else { 12 };
    rep.note("ccitt", json!(format!("K=-1 (T.6, EndOfBlock true) through fax::encoder; K=0 (T.4 1-D, EndOfBlock false, with and without EndOfLine) from fax's code tables; K>0 (mixed 2-D) dropped: the fax crate has no encoder for it; EncodedByteAlign dropped; every bitmap for Columns*rows <= {max_all_pixels}, 6 fixed bitmaps above")));
    let cols: Vec<usize> = (1..=16).chain([64]).collect();
    const MODES: [&str; 3] = ["g4", "g3-1d", "g3-1d-eol"];
    // both one-dimensional modes share their finding keys (same placeholder code tables)
    const KMODES: [&str; 3] = ["g4", "g3-1d", "g3-1d"];
    rep.explore("ccitt", Explore::full(), |c: &mut Ctx| {
        let mode = c.choose("mode", 3);
        let black_is_1 = c.flag("BlackIs1");
        let columns = *c.pick_from("columns", &cols);
        let rows = 1 + c.choose("rows", 3);
        let npix = columns * rows;
        let bitmaps: Vec<Bitmap> = if npix <= max_all_pixels {
            (0..(1u32 << npix)).map(|bits| Bitmap::new(columns, (0..rows).map(|y| (0..columns).map(|x| bits >> (y * columns + x) & 1 == 1).collect()).collect())).collect()
        } else {
            (0..6)
                .map(|k| {
                    Bitmap::new(
                        columns,
                        (0..rows)
                            .map(|y| {
                                (0..columns)
                                    .map(|x| match k {
                                        0 => false,
                                        1 => true,
                                        2 => (x + y) % 2 == 1,
                                        3 => x / (3 + y) % 2 == 0,
                                        4 => x == y || x + 1 == columns,
                                        _ => x > 1 && x < columns - 1 - y,
                                    })
                                    .collect()
                            })
                            .collect(),
                    )
                })
                .collect()
        };
        let mut ih = 0u64;
        let mut oh = 0u64;
        let mut reported: Vec<String> = Vec::new();
        for bm in &bitmaps {
            let raw = match mode {
                0 => encode_g4(bm),
                1 => encode_g3_1d(bm, false, false),
                _ => encode_g3_1d(bm, true, false),
            };
            let want = bm.packed(black_is_1);
            let mut parms = PdfDictionary::new();
            parms.insert("K".into(), PdfObject::Integer(if mode == 0 { -1 } else { 0 }));
            parms.insert("Columns".into(), PdfObject::Integer(columns as i64));
            parms.insert("Rows".into(), PdfObject::Integer(rows as i64));
            parms.insert("BlackIs1".into(), PdfObject::Boolean(black_is_1));
            if mode != 0 {
                parms.insert("EndOfBlock".into(), PdfObject::Boolean(false));
            }
            if mode == 2 {
                parms.insert("EndOfLine".into(), PdfObject::Boolean(true));
            }
            let mut d = PdfDictionary::new();
            d.insert("Filter".into(), PdfObject::Name(PdfName("CCITTFaxDecode".into())));
            d.insert("DecodeParms".into(), PdfObject::Dictionary(parms));
            let s = PdfStream { dict: d, data: raw.clone() };
            ih = vx::hmix(ih, vx::hbytes(&raw));
            let got = lib_decode(&s);
            let cl = classify(&got, &want);
            oh = vx::hmix(oh, vx::h64(&cl));
            if cl != Class::Match {
                let rb = (columns + 7) / 8;
                let key = match (&got, mode) {
                    (Err(p), _) => format!("C07/ccitt-{}-panic@{}", KMODES[mode], vx::panic_site(p)),
                    // exact known signature (KF-C07-4): the Group 4 "decoder" hands back the encoded
                    // bytes cut or zero-padded to Rows * ceil(Columns/8)
                    (Ok(Ok(g)), 0) if {
                        let mut stub = raw.clone();
                        stub.resize(rb * rows, 0);
                        *g == stub
                    } => "C07/ccitt-g4-returns-the-encoded-bytes".to_string(),
                    (Ok(Ok(g)), _) if g.len() != want.len() => format!("C07/ccitt-{}-wrong-length", KMODES[mode]),
                    (Ok(Ok(_)), _) => format!("C07/ccitt-{}-wrong-pixels", KMODES[mode]),
                    (Ok(Err(_)), _) => format!("C07/ccitt-{}-rejects-reference-encoding", KMODES[mode]),
                };
                if !reported.contains(&key) {
                    reported.push(key.clone());
                    c.fail(
                        key,
                        format!("mode={} BlackIs1={black_is_1} Columns={columns} Rows={rows} bitmap(black=#)={:?} encoded={} want={} got={}", MODES[mode], bm.rows.iter().map(|r| r.iter().map(|&b| if b { '#' } else { '.' }).collect::<String>()).collect::<Vec<_>>(), vx::hex(&raw), vx::hex(&want), short_err(&got)),
                    );
                }
            }
        }
        c.add_evaluations(bitmaps.len() as u64 - 1);
        c.input(vx::hmix(vx::h64(&(mode, black_is_1, columns, rows)), ih));
        c.outcome(oh);
        c.nontrivial();
        c.sample(json!({"mode": MODES[mode], "BlackIs1": black_is_1, "Columns": columns, "Rows": rows, "bitmaps": bitmaps.len()}));
    });
}

// ------------------------------------------------------------------------------------------

fn dict_forms(rep: &mut Report) {
    let data_set: Vec<Vec<u8>> = {
        let mut v = all_strings(&ALPHA, 2);
        v.push(pattern(3, 700));
        v
    };
    // explicit default parameters (ISO 32000-1 Tables 8): must not change anything
    const DEFAULTS: [&[(&str, i64)]; 4] = [&[], &[("Predictor", 1)], &[("Predictor", 1), ("Colors", 3), ("BitsPerComponent", 8), ("Columns", 5)], &[("EarlyChange", 1)]];
    rep.explore("dict-forms", Explore::full(), |c: &mut Ctx| {
        let none = c.flag("no-filter");
        let data = c.pick_from("data", &data_set).clone();
        if none {
            let s = make_stream(&[], data.clone(), false);
            let got = lib_decode(&s);
            c.input(vx::h64(&("none", &data)));
            c.outcome(vx::h64(&classify(&got, &data)));
            if classify(&got, &data) != Class::Match {
                c.fail(generic_key("no-filter", &got), format!("data={} got={}", vx::hex(&data[..data.len().min(16)]), short_err(&got)));
            }
            return;
        }
        let f = *c.pick_from("filter", &ALL_F);
        let array_form = c.flag("array-form");
        let dflt = c.choose("explicit-defaults", DEFAULTS.len());
        let parms: Vec<(&'static str, i64)> = DEFAULTS[dflt]
            .iter()
            .filter(|(k, _)| match f {
                F::Flate => *k != "EarlyChange",
                // EarlyChange 1 only where it is the truth
                F::Lzw1 => true,
                F::Lzw0 => *k != "EarlyChange",
                _ => false,
            })
            .copied()
            .collect();
        let raw = ref_encode(f, 0, &data);
        let st = [Stage { f, parms: parms.clone() }];
        c.input(vx::h64(&(f, array_form, &parms, &raw)));
        if array_form || !parms.is_empty() {
            c.nontrivial();
        }
        let s = make_stream(&st, raw.clone(), array_form);
        let got = lib_decode(&s);
        let cl = classify(&got, &data);
        c.outcome(vx::h64(&(cl, vx::hbytes(&data))));
        if cl != Class::Match {
            let key = if is_lt_defect(&[f], &raw, &got) { KEY_A85_LT.to_string() } else { format!("{}-{}", generic_key(f.short(), &got), if array_form { "array-form" } else { "with-default-parms" }) };
            c.fail(key, format!("filter={} array_form={array_form} parms={parms:?} data={} got={}", f.short(), vx::hex(&data[..data.len().min(16)]), short_err(&got)));
        }
        c.sample(json!({"filter": f.short(), "array_form": array_form, "parms": format!("{parms:?}"), "data_len": data.len()}));
    });
}
