//! C14 — RAG chunking is a faithful, budget-respecting partition.
//!
//! Space (all enumerated, nothing sampled):
//!  * element sequences of length 1..=3 (`seq-le3`, FULL) and of length exactly 4
//!    (`seq-len4`, thorough only, sequence FULL × configuration DEV(2)) over 10 element
//!    symbols × 3 `parent_heading` modes per position;
//!  * configuration: max_tokens {3,0,1,2,5,100} × merge_adjacent × merge policy ×
//!    propagate_headings × 4 context modes × 3 token counters × 2 entry points.
//!
//! Oracle (from the property text only; nothing is taken from the chunker's code):
//!  1. partition — walking the input in order, every element is matched exactly once by one
//!     output element with the same variant and content, or by a run of consecutive output
//!     elements ("fragments") whose concatenation equals the element's text up to whitespace;
//!     no output element is left over;
//!  2. budget — `!is_oversized()` ⇒ `counter.count(chunk.text()) <= max_tokens`;
//!  3. heading — `heading_context` ∈ {parent_heading of the chunk's source elements} ∪
//!     {text of a Title in the chunk} (∪ {None} when propagate_headings is off); with a
//!     single candidate this is equality;
//!  4. determinism — a second, freshly constructed chunker/graph gives the same chunks;
//!  5. the RagChunk built from a chunk under the chosen context mode carries the chunk's
//!     text / flag / heading unchanged and `full_text` is `text` with at most a prefix.
//!
//! The two defects known from reading (`chunk_with_graph` drops/reorders elements that are not
//! children of a title; approves a section by summed per-element counts) get narrow keys that
//! are produced only when the output equals the exact defective model; anything else that is
//! wrong in the same cells gets a generic, unlisted key.
use oxidize_pdf::pipeline::{
    ContextFormat, ContextMode, Element, ElementData, ElementGraph, ElementMetadata, HybridChunk,
    HybridChunkConfig, HybridChunker, ImageElementData, KeyValueElementData, MergePolicy, RagChunk,
    TableElementData, TokenCounter,
};
use serde_json::json;
use std::sync::Arc;
use vx::{Ctx, Explore, Report};

pub const BUILT: bool = true;

// ------------------------------------------------------------------ token counters

/// Word-count proxy (additive over a whitespace join, and says so).
struct Words;
impl TokenCounter for Words {
    fn count(&self, t: &str) -> usize {
        t.split_whitespace().count()
    }
    fn name(&self) -> &'static str {
        "vx-words"
    }
    fn is_additive_over_whitespace_join(&self) -> bool {
        true
    }
}
/// ceil(chars / 4): non-additive (two ceilings vs one, plus the separator character).
struct CharQuarter;
impl TokenCounter for CharQuarter {
    fn count(&self, t: &str) -> usize {
        (t.chars().count() + 3) / 4
    }
    fn name(&self) -> &'static str {
        "vx-chars4"
    }
}
/// words + number of '\n': sensitive to the separator used when joining elements.
struct WordsNewlines;
impl TokenCounter for WordsNewlines {
    fn count(&self, t: &str) -> usize {
        t.split_whitespace().count() + t.chars().filter(|&c| c == '\n').count()
    }
    fn name(&self) -> &'static str {
        "vx-words+nl"
    }
}
const COUNTER_NAMES: [&str; 3] = ["words", "chars/4", "words+newlines"];
fn counter(i: usize) -> Arc<dyn TokenCounter> {
    match i {
        0 => Arc::new(Words),
        1 => Arc::new(CharQuarter),
        _ => Arc::new(WordsNewlines),
    }
}

// ------------------------------------------------------------------ alphabet

const T_A: &str = "Alpha";
const T_B: &str = "Beta Two";
const SYM_NAMES: [&str; 10] = ["TitleA", "TitleB", "P1w", "P1s", "P2s", "List", "KV", "Table", "Code", "Image"];
const HEAD_NAMES: [&str; 3] = ["none", "match", "stale"];

fn meta(idx: usize, ph: Option<&str>) -> ElementMetadata {
    ElementMetadata {
        page: idx as u32, // position tag, only used to make failure details readable
        parent_heading: ph.map(|s| s.to_string()),
        heading_path: ph.map(|s| vec![s.to_string()]).unwrap_or_default(),
        ..Default::default()
    }
}
fn text_el(s: &str, m: ElementMetadata) -> ElementData {
    ElementData { text: s.to_string(), metadata: m }
}
fn build_element(sym: usize, m: ElementMetadata) -> Element {
    match sym {
        0 => Element::Title(text_el(T_A, m)),
        1 => Element::Title(text_el(T_B, m)),
        2 => Element::Paragraph(text_el("solo", m)),
        3 => Element::Paragraph(text_el("One two three.", m)),
        4 => Element::Paragraph(text_el("Red green blue. Cyan magenta.", m)),
        5 => Element::ListItem(text_el("- uno dos. tres.", m)),
        6 => Element::KeyValue(KeyValueElementData { key: "Key".into(), value: "val ue".into(), metadata: m }),
        7 => Element::Table(TableElementData::new(
            vec![vec!["a".into(), "b".into()], vec!["c".into(), "d".into()]],
            m,
        )),
        8 => Element::CodeBlock(text_el("let x = 1;\nx += 1;", m)),
        _ => Element::Image(ImageElementData { alt_text: None, metadata: m }),
    }
}

/// Effective parent heading id for (symbol, mode) given the nearest preceding title:
/// 0 = None, 1 = "Alpha", 2 = "Beta Two".
fn heading_id(sym: usize, mode: usize, nearest_title: usize) -> usize {
    // the heading that "matches": a title's own text, otherwise the nearest preceding title
    let matching = match sym {
        0 => 1,
        1 => 2,
        _ => nearest_title,
    };
    match mode {
        0 => 0,
        1 => matching,
        // stale: the *other* title text (a heading that is not the governing one)
        _ => match matching {
            1 => 2,
            _ => 1,
        },
    }
}
fn heading_text(id: usize) -> Option<&'static str> {
    match id {
        0 => None,
        1 => Some(T_A),
        _ => Some(T_B),
    }
}

// ------------------------------------------------------------------ configuration

const MAXTOK: [usize; 6] = [3, 0, 1, 2, 5, 100];
const CTX_NAMES: [&str; 4] = ["heading", "none", "contextual-labeled", "contextual-prose"];
fn ctx_mode(i: usize) -> ContextMode {
    match i {
        0 => ContextMode::Heading,
        1 => ContextMode::None,
        2 => ContextMode::Contextual(ContextFormat::Labeled),
        _ => ContextMode::Contextual(ContextFormat::Prose),
    }
}

#[derive(Clone, Copy, Hash, PartialEq, Eq, Debug)]
struct Cfg {
    max_tokens: usize,
    merge_adjacent: bool,
    same_type_only: bool,
    propagate: bool,
    ctx: usize,
    counter: usize,
    graph: bool,
}
impl Cfg {
    fn lib(&self) -> HybridChunkConfig {
        HybridChunkConfig {
            max_tokens: self.max_tokens,
            overlap_tokens: 0,
            merge_adjacent: self.merge_adjacent,
            propagate_headings: self.propagate,
            merge_policy: if self.same_type_only { MergePolicy::SameTypeOnly } else { MergePolicy::AnyInlineContent },
            context_mode: ctx_mode(self.ctx),
        }
    }
    fn show(&self) -> String {
        format!(
            "max_tokens={} merge_adjacent={} policy={} propagate_headings={} context={} counter={} entry={}",
            self.max_tokens,
            self.merge_adjacent,
            if self.same_type_only { "SameTypeOnly" } else { "AnyInlineContent" },
            self.propagate,
            CTX_NAMES[self.ctx],
            COUNTER_NAMES[self.counter],
            if self.graph { "chunk_with_graph" } else { "chunk" }
        )
    }
}

fn choose_cfg(c: &mut Ctx, dev: bool) -> Cfg {
    let mut pick = |label: &'static str, n: usize| if dev { c.choose_dev(label, n) } else { c.choose(label, n) };
    Cfg {
        max_tokens: MAXTOK[pick("max_tokens", 6)],
        merge_adjacent: pick("merge_adjacent", 2) == 0,
        same_type_only: pick("policy", 2) == 1,
        propagate: pick("propagate_headings", 2) == 0,
        ctx: pick("context_mode", 4),
        counter: pick("counter", 3),
        graph: pick("entry", 2) == 1,
    }
}

// ------------------------------------------------------------------ running the library

fn run_lib(cfg: &Cfg, elements: &[Element]) -> Vec<HybridChunk> {
    let chunker = HybridChunker::new(cfg.lib()).with_token_counter(counter(cfg.counter));
    if cfg.graph {
        let graph = ElementGraph::build(elements);
        chunker.chunk_with_graph(elements, &graph)
    } else {
        chunker.chunk(elements)
    }
}

fn same_element(a: &Element, b: &Element) -> bool {
    use Element::*;
    match (a, b) {
        (Title(x), Title(y))
        | (Paragraph(x), Paragraph(y))
        | (Header(x), Header(y))
        | (Footer(x), Footer(y))
        | (ListItem(x), ListItem(y))
        | (CodeBlock(x), CodeBlock(y)) => x.text == y.text,
        (Table(x), Table(y)) => x.rows == y.rows,
        (Image(x), Image(y)) => x.alt_text == y.alt_text,
        (KeyValue(x), KeyValue(y)) => x.key == y.key && x.value == y.value,
        _ => false,
    }
}

fn same_output(a: &[HybridChunk], b: &[HybridChunk]) -> bool {
    a.len() == b.len()
        && a.iter().zip(b).all(|(x, y)| {
            x.heading_context == y.heading_context
                && x.is_oversized() == y.is_oversized()
                && x.token_estimate() == y.token_estimate()
                && x.elements().len() == y.elements().len()
                && x.elements().iter().zip(y.elements()).all(|(e, f)| {
                    same_element(e, f)
                        && e.metadata().page == f.metadata().page
                        && e.metadata().parent_heading == f.metadata().parent_heading
                })
        })
}

fn strip_ws(s: &str) -> String {
    s.chars().filter(|c| !c.is_whitespace()).collect()
}

/// Walk `order` (indices into `input`) against the flattened output elements. Returns the
/// source index of every output element, or a description of the first mismatch.
fn walk(order: &[usize], input: &[Element], out: &[&Element]) -> Result<Vec<usize>, String> {
    let mut src = Vec::with_capacity(out.len());
    let mut j = 0usize;
    for &i in order {
        let e = &input[i];
        if j < out.len() && same_element(out[j], e) {
            src.push(i);
            j += 1;
            continue;
        }
        // fragments: consecutive output elements whose concatenation is e's text up to whitespace
        let target = strip_ws(&e.display_text());
        let mut acc = String::new();
        let start = j;
        let mut done = false;
        while j < out.len() {
            let piece = strip_ws(&out[j].display_text());
            if piece.is_empty() {
                break;
            }
            acc.push_str(&piece);
            if !target.starts_with(&acc) {
                break;
            }
            src.push(i);
            j += 1;
            if acc.len() == target.len() {
                done = true;
                break;
            }
        }
        if !done || target.is_empty() {
            return Err(format!(
                "input element #{i} ({}) is not matched at output position {start}",
                describe_el(e)
            ));
        }
    }
    if j != out.len() {
        return Err(format!("output has {} element(s) beyond the input (first extra at position {j})", out.len() - j));
    }
    Ok(src)
}

fn describe_el(e: &Element) -> String {
    format!("{} {:?}", e.type_name(), e.display_text())
}

/// The element order `chunk_with_graph` is known to produce (KF-C14-1/-2): the preamble, then
/// per title its children = later non-title elements whose parent_heading is that title's text
/// (latest title with that text wins). Returns (order, dropped).
fn graph_defect_model(input: &[Element]) -> (Vec<usize>, Vec<usize>) {
    let n = input.len();
    let is_title = |i: usize| matches!(input[i], Element::Title(_));
    let first_title = (0..n).find(|&i| is_title(i)).unwrap_or(n);
    let mut order: Vec<usize> = (0..first_title).collect();
    let mut taken = vec![false; n];
    for t in first_title..n {
        if !is_title(t) {
            continue;
        }
        order.push(t);
        taken[t] = true;
        let text = input[t].text();
        for i in t + 1..n {
            if is_title(i) {
                if input[i].text() == text {
                    break; // a later title with the same text takes over
                }
                continue;
            }
            if input[i].metadata().parent_heading.as_deref() == Some(text) {
                order.push(i);
                taken[i] = true;
            }
        }
    }
    let dropped = (first_title..n).filter(|&i| !taken[i]).collect();
    (order, dropped)
}

fn show_input(syms: &[(usize, usize)], input: &[Element]) -> String {
    syms.iter()
        .zip(input)
        .enumerate()
        .map(|(i, ((s, m), e))| {
            format!("#{i} {}[{}→{:?}]", SYM_NAMES[*s], HEAD_NAMES[*m], e.metadata().parent_heading)
        })
        .collect::<Vec<_>>()
        .join(", ")
}
fn show_output(chunks: &[HybridChunk]) -> String {
    chunks
        .iter()
        .map(|ch| {
            format!(
                "{{h={:?} over={} est={} els=[{}]}}",
                ch.heading_context,
                ch.is_oversized(),
                ch.token_estimate(),
                ch.elements()
                    .iter()
                    .map(|e| format!("#{}:{}:{:?}", e.metadata().page, e.type_name(), e.display_text()))
                    .collect::<Vec<_>>()
                    .join(", ")
            )
        })
        .collect::<Vec<_>>()
        .join(" ")
}

// ------------------------------------------------------------------ the body

fn body(c: &mut Ctx, len_menu: &[usize], dev_cfg: bool) {
    let len = *c.pick_from("len", len_menu);
    let mut syms: Vec<(usize, usize)> = Vec::with_capacity(len);
    let mut input: Vec<Element> = Vec::with_capacity(len);
    let mut canon: [u8; 8] = [0xff; 8];
    let mut nearest_title = 0usize;
    for i in 0..len {
        let s = c.choose("symbol", 10);
        let m = c.choose("parent_heading", 3);
        let hid = heading_id(s, m, nearest_title);
        if s < 2 {
            nearest_title = s + 1;
        }
        syms.push((s, m));
        canon[2 * i] = s as u8;
        canon[2 * i + 1] = hid as u8;
        input.push(build_element(s, meta(i, heading_text(hid))));
    }
    let cfg = choose_cfg(c, dev_cfg);
    c.input(vx::h64(&(canon, cfg)));

    let ename = if cfg.graph { "graph" } else { "chunk" };
    let detail = |what: &str, chunks: Option<&[HybridChunk]>| {
        format!(
            "{what}; input=[{}] config=[{}] output=[{}]",
            show_input(&syms, &input),
            cfg.show(),
            chunks.map(show_output).unwrap_or_default()
        )
    };

    let chunks = match vx::guard(|| run_lib(&cfg, &input)) {
        Ok(v) => v,
        Err(p) => {
            c.fail(format!("C14/{ename}-panic@{}", vx::panic_site(&p)), detail(&p, None));
            return;
        }
    };

    // 4. determinism
    match vx::guard(|| run_lib(&cfg, &input)) {
        Ok(again) => {
            if !same_output(&chunks, &again) {
                c.fail(
                    format!("C14/{ename}-two-runs-differ"),
                    detail(&format!("second run gave [{}]", show_output(&again)), Some(&chunks)),
                );
            }
        }
        Err(p) => {
            c.fail(format!("C14/{ename}-panic-on-second-run"), detail(&p, Some(&chunks)));
        }
    }

    // 1. partition
    let flat: Vec<&Element> = chunks.iter().flat_map(|ch| ch.elements().iter()).collect();
    let identity: Vec<usize> = (0..len).collect();
    let src: Option<Vec<usize>> = match walk(&identity, &input, &flat) {
        Ok(s) => Some(s),
        Err(why) => {
            let mut recovered = None;
            if cfg.graph {
                let (order, dropped) = graph_defect_model(&input);
                if order != identity {
                    if let Ok(s) = walk(&order, &input, &flat) {
                        if !dropped.is_empty() {
                            c.fail(
                                "C14/graph-drops-elements-that-are-not-children-of-a-title",
                                detail(&format!("dropped input elements {dropped:?} ({why})"), Some(&chunks)),
                            );
                        }
                        if order.windows(2).any(|w| w[0] > w[1]) {
                            c.fail(
                                "C14/graph-emits-children-of-an-earlier-title-before-later-elements",
                                detail(&format!("output element order {order:?} ({why})"), Some(&chunks)),
                            );
                        }
                        recovered = Some(s);
                    }
                }
            }
            if recovered.is_none() {
                c.fail(format!("C14/{ename}-not-a-partition-of-the-input"), detail(&why, Some(&chunks)));
            }
            recovered
        }
    };

    // 2. budget
    let cnt = counter(cfg.counter);
    let mut any_over = false;
    for (k, ch) in chunks.iter().enumerate() {
        any_over |= ch.is_oversized();
        if ch.is_oversized() {
            continue;
        }
        let cost = cnt.count(&ch.text());
        if cost > cfg.max_tokens {
            let summed: usize = ch.elements().iter().map(|e| cnt.count(&e.display_text())).sum();
            let known = cfg.graph
                && ch.elements().len() >= 2
                && matches!(ch.elements()[0], Element::Title(_))
                && summed <= cfg.max_tokens;
            let key = if known {
                "C14/graph-section-approved-by-summed-element-counts".to_string()
            } else {
                format!("C14/{ename}-not-oversized-but-over-budget")
            };
            c.fail(
                key,
                detail(
                    &format!("chunk {k}: count(text)={cost} > max_tokens={} (sum of per-element counts={summed}) but is_oversized=false", cfg.max_tokens),
                    Some(&chunks),
                ),
            );
        }
    }

    // 3. heading
    if let Some(src) = &src {
        let mut pos = 0usize;
        for (k, ch) in chunks.iter().enumerate() {
            let n = ch.elements().len();
            let sources = &src[pos..pos + n];
            pos += n;
            let got = ch.heading_context.as_deref();
            let mut ok = !cfg.propagate && got.is_none();
            for &i in sources {
                if input[i].metadata().parent_heading.as_deref() == got {
                    ok = true;
                }
                if let Element::Title(t) = &input[i] {
                    if got == Some(t.text.as_str()) {
                        ok = true;
                    }
                }
            }
            if n == 0 {
                ok = true; // an empty chunk is reported by nothing else; flag it below
                c.fail(format!("C14/{ename}-empty-chunk"), detail(&format!("chunk {k} has no elements"), Some(&chunks)));
            }
            if !ok {
                // exact signature of the one known cause: the graph chunker stamps a section's
                // sub-chunks with the *title's own parent_heading* instead of the title text
                // i.e. some title t carries parent_heading == got, and every element of this
                // chunk is a non-title child of t (parent_heading == text of t, positioned after t)
                let title_parent_signature = got.is_some()
                    && (0..len).any(|t| {
                        matches!(input[t], Element::Title(_))
                            && input[t].metadata().parent_heading.as_deref() == got
                            && sources.iter().all(|&i| {
                                i > t
                                    && !matches!(input[i], Element::Title(_))
                                    && input[i].metadata().parent_heading.as_deref() == Some(input[t].text())
                            })
                    });
                let key = if cfg.graph && title_parent_signature {
                    "C14/graph-heading-is-the-titles-parent-heading-not-the-section-title".to_string()
                } else {
                    format!("C14/{ename}-heading-context-not-a-heading-of-the-chunk")
                };
                c.fail(
                    key,
                    detail(
                        &format!("chunk {k}: heading_context={got:?} is neither a parent_heading of its elements {sources:?} nor a title in it"),
                        Some(&chunks),
                    ),
                );
            }
        }
    }

    // 5. RagChunk view under the chosen context mode
    let mode = ctx_mode(cfg.ctx);
    for (k, ch) in chunks.iter().enumerate() {
        match vx::guard(|| RagChunk::from_hybrid_chunk_with_mode(k, ch, mode)) {
            Ok(rc) => {
                let text = ch.text();
                let full_ok = match mode {
                    ContextMode::None => rc.full_text == text,
                    _ => rc.full_text == text || rc.full_text.ends_with(&format!("\n\n{text}")),
                };
                if rc.text != text
                    || rc.is_oversized != ch.is_oversized()
                    || rc.heading_context != ch.heading_context
                    || rc.chunk_index != k
                    || !full_ok
                {
                    c.fail(
                        "C14/rag-chunk-does-not-carry-the-chunk",
                        detail(
                            &format!(
                                "chunk {k}: RagChunk text={:?} full_text={:?} oversized={} heading={:?}",
                                rc.text, rc.full_text, rc.is_oversized, rc.heading_context
                            ),
                            Some(&chunks),
                        ),
                    );
                }
            }
            Err(p) => c.fail(format!("C14/rag-chunk-panic@{}", vx::panic_site(&p)), detail(&p, Some(&chunks))),
        }
    }

    // observation class + non-triviality
    let split = flat.len() != len;
    let merged = chunks.iter().any(|ch| ch.elements().len() >= 2);
    if split || merged || any_over {
        c.nontrivial();
    }
    let shape: Vec<(usize, bool, Option<&str>, Vec<u32>)> = chunks
        .iter()
        .map(|ch| {
            (
                ch.token_estimate(),
                ch.is_oversized(),
                ch.heading_context.as_deref(),
                ch.elements().iter().map(|e| e.metadata().page).collect(),
            )
        })
        .collect();
    c.outcome(vx::h64(&(canon, shape)));
    if c.want_sample() {
        c.sample(json!({"input": show_input(&syms, &input), "config": cfg.show(), "output": show_output(&chunks)}));
    }
}

pub fn run(rep: &mut Report) {
    let thorough = rep.tier.is_thorough();
    rep.rule(
        "one case = one element sequence (symbol × parent_heading mode per position) × one full configuration; \
         distinct inputs are counted on the canonical form (symbol, effective parent heading) + configuration; \
         a case is non-trivial when the chunker merged ≥2 elements into a chunk, split an element into fragments, \
         or flagged a chunk oversized",
    );
    rep.assume("the three token counters are the harness's own TokenCounter implementations; only the word counter declares itself additive (it is)");
    rep.assume("fragments are compared with all whitespace removed (any whitespace normalisation is accepted)");
    rep.assume("heading oracle is the membership form: heading_context must be a parent_heading of one of the chunk's source elements or the text of a title in the chunk (None also accepted when propagate_headings=false)");
    rep.note(
        "alphabet",
        json!({"symbols": SYM_NAMES, "parent_heading_modes": HEAD_NAMES, "max_tokens": MAXTOK, "context_modes": CTX_NAMES, "counters": COUNTER_NAMES,
               "stale": "the other title's text (never the governing heading); 'match' = own text for a title, nearest preceding title otherwise (None when there is none)"}),
    );
    rep.explore("seq-le3", Explore::full(), |c| body(c, &[1, 2, 3], false));
    if thorough {
        rep.explore("seq-len4", Explore::dev(2), |c| body(c, &[4], true));
    }
}
