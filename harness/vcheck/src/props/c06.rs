//! C06 — encrypted files interoperate with an independent implementation.
//!
//! qpdf is not installed; the independent implementation is `refpdf::crypto`, which is bound
//! to qpdf and pypdf by having to decrypt all 28 of their fixtures (unit tests of refpdf).
//!
//! * `forward`: the reference *encrypts* generated plaintext documents — R2, R3, R4 with the
//!   /V2 and with the /AESV2 crypt filter, R5, R6; /EncryptMetadata on/off; classic table,
//!   cross-reference stream, cross-reference stream + object stream — in FULL, with a
//!   deviation bound over passwords, permissions, content, direct//indirect /Encrypt, explicit
//!   Identity crypt filter on cleartext metadata, and IV/salt seed. The library must open the
//!   file with the user and with the owner password and yield the same object graph, page
//!   text and metadata as for the plaintext original (same layout, written without
//!   encryption), report the same permissions, and refuse other passwords.
//! * `reverse`: documents encrypted by the library (C05's programs and writer
//!   configurations) are decrypted by the reference and compared with the plaintext build.
use crate::util::enc::{self, Diff, Src};
use crate::util::encdoc;
use oxidize_pdf::document::DocumentEncryption;
use refpdf::crypto::{self as rc, Scheme};
use refpdf::syntax::Obj;
use serde_json::json;
use std::sync::atomic::{AtomicU64, Ordering};
use vx::{Ctx, Explore, Report};

pub const BUILT: bool = true;

const CONTENT_NAMES: [&str; 3] = ["text-only", "info+xmp+acroform+flate", "awkward-strings+stream-dict-string"];

fn font_res() -> Obj {
    Obj::dict(vec![("Font", Obj::dict(vec![("F1", Obj::dict(vec![("Type", Obj::name("Font")), ("Subtype", Obj::name("Type1")), ("BaseFont", Obj::name("Helvetica")), ("Encoding", Obj::name("WinAnsiEncoding"))]))]))])
}
fn mediabox() -> Obj {
    Obj::Array(vec![Obj::Int(0), Obj::Int(0), Obj::Int(612), Obj::Int(792)])
}

/// Plaintext document as indirect objects; catalog = 1, Info = 7.
fn doc_objects(content: usize) -> Vec<(u32, Obj)> {
    let mut o: Vec<(u32, Obj)> = Vec::new();
    let page = |contents: u32, extra: Vec<(&str, Obj)>| {
        let mut d = vec![("Type", Obj::name("Page")), ("Parent", Obj::Ref(2, 0)), ("MediaBox", mediabox()), ("Resources", font_res()), ("Contents", Obj::Ref(contents, 0))];
        d.extend(extra);
        Obj::dict(d)
    };
    match content {
        0 => {
            o.push((1, Obj::dict(vec![("Type", Obj::name("Catalog")), ("Pages", Obj::Ref(2, 0))])));
            o.push((2, Obj::dict(vec![("Type", Obj::name("Pages")), ("Kids", Obj::Array(vec![Obj::Ref(3, 0)])), ("Count", Obj::Int(1))])));
            o.push((3, page(4, vec![])));
            o.push((4, Obj::stream(vec![], b"BT /F1 12 Tf 72 720 Td (Hello C06 plain text) Tj ET".to_vec())));
            o.push((7, Obj::dict(vec![("Producer", Obj::str(b"refpdf"))])));
        }
        1 => {
            o.push((
                1,
                Obj::dict(vec![
                    ("Type", Obj::name("Catalog")),
                    ("Pages", Obj::Ref(2, 0)),
                    ("Metadata", Obj::Ref(8, 0)),
                    ("AcroForm", Obj::dict(vec![("Fields", Obj::Array(vec![Obj::Ref(9, 0)])), ("DA", Obj::str(b"/Helv 0 Tf 0 g")), ("NeedAppearances", Obj::Bool(true))])),
                ]),
            ));
            o.push((2, Obj::dict(vec![("Type", Obj::name("Pages")), ("Kids", Obj::Array(vec![Obj::Ref(3, 0), Obj::Ref(5, 0)])), ("Count", Obj::Int(2))])));
            o.push((3, page(4, vec![("Annots", Obj::Array(vec![Obj::Ref(9, 0)]))])));
            o.push((4, Obj::stream(vec![], b"BT /F1 12 Tf 72 720 Td (First page with a form field) Tj ET".to_vec())));
            o.push((5, page(6, vec![])));
            o.push((6, Obj::stream(vec![("Filter", Obj::name("FlateDecode"))], refpdf::filters::flate_encode(b"BT /F1 14 Tf 72 720 Td (Second page, compressed) Tj ET"))));
            o.push((
                7,
                Obj::dict(vec![("Title", Obj::str(b"Interop title")), ("Author", Obj::str(b"A. Author")), ("Subject", Obj::str(b"Subject of C06")), ("Keywords", Obj::str(b"alpha, beta")), ("Creator", Obj::str(b"vcheck C06")), ("Producer", Obj::str(b"refpdf"))]),
            ));
            o.push((8, Obj::stream(vec![("Type", Obj::name("Metadata")), ("Subtype", Obj::name("XML"))], b"<?xpacket begin='' id='W5M0MpCehiHzreSzNTczkc9d'?><x:xmpmeta xmlns:x='adobe:ns:meta/'><rdf:RDF xmlns:rdf='http://www.w3.org/1999/02/22-rdf-syntax-ns#'/></x:xmpmeta><?xpacket end='w'?>".to_vec())));
            o.push((
                9,
                Obj::dict(vec![
                    ("Type", Obj::name("Annot")),
                    ("Subtype", Obj::name("Widget")),
                    ("FT", Obj::name("Tx")),
                    ("T", Obj::str(b"customer_name")),
                    ("V", Obj::str(b"Jane Q. Public")),
                    ("DV", Obj::str(b"default value")),
                    ("Rect", Obj::Array(vec![Obj::Int(72), Obj::Int(600), Obj::Int(300), Obj::Int(620)])),
                    ("P", Obj::Ref(3, 0)),
                ]),
            ));
        }
        _ => {
            o.push((1, Obj::dict(vec![("Type", Obj::name("Catalog")), ("Pages", Obj::Ref(2, 0)), ("Lang", Obj::str(b"en-US"))])));
            o.push((2, Obj::dict(vec![("Type", Obj::name("Pages")), ("Kids", Obj::Array(vec![Obj::Ref(3, 0)])), ("Count", Obj::Int(1))])));
            let mut res = font_res();
            if let Obj::Dict(d) = &mut res {
                d.set("XObject", Obj::dict(vec![("Fm1", Obj::Ref(5, 0))]));
            }
            o.push((3, Obj::dict(vec![("Type", Obj::name("Page")), ("Parent", Obj::Ref(2, 0)), ("MediaBox", mediabox()), ("Resources", res), ("Contents", Obj::Ref(4, 0))])));
            o.push((4, Obj::stream(vec![], b"BT /F1 12 Tf 72 720 Td (text \\(with\\) parens \\) and \\\\ backslash) Tj ET /Fm1 Do".to_vec())));
            // a form XObject whose stream dictionary carries a string (Table 95 /LastModified)
            o.push((
                5,
                Obj::stream(
                    vec![("Type", Obj::name("XObject")), ("Subtype", Obj::name("Form")), ("BBox", Obj::Array(vec![Obj::Int(0), Obj::Int(0), Obj::Int(10), Obj::Int(10)])), ("LastModified", Obj::str(b"D:20240101000000Z"))],
                    b"0 0 10 10 re f".to_vec(),
                ),
            ));
            o.push((
                7,
                Obj::dict(vec![
                    ("Title", Obj::str(b"Title (with) unbalanced ) paren \\ backslash")),
                    ("Author", Obj::str(b"line one\rline two\nline three\r\nend")),
                    ("Subject", Obj::str(b")(")),
                    ("Bin", Obj::str(b"\x00\x01\xfe\xff\x80binary")),
                    ("Empty", Obj::str(b"")),
                    ("Nested", Obj::Array(vec![Obj::str(b"in array"), Obj::dict(vec![("K", Obj::str(b"in dict in array"))])])),
                ]),
            ));
        }
    }
    o
}

/// (user, owner) as text; the alphabet of C05
fn password_pair(k: usize) -> (String, String) {
    encdoc::password_pair(k)
}

/// Bytes an independent producer hashes for this text password: PDFDocEncoding for R2–R4
/// (ISO 32000-1 §7.6.3.3), UTF-8 for R5/R6 (all test passwords are SASLprep-stable).
fn producer_bytes(scheme: Scheme, s: &str) -> Vec<u8> {
    if scheme.revision() <= 4 {
        s.chars().map(|c| if c == '€' { 0xA0 } else { c as u32 as u8 }).collect()
    } else {
        s.as_bytes().to_vec()
    }
}

const LAYOUTS: [(&str, bool, bool); 3] = [("classic-table", false, false), ("xref-stream", true, false), ("xref-stream+object-stream", true, true)];
const PERMS: [u32; 3] = [0xFFFF_FFFC, 0xFFFF_F0C0, 0xFFFF_F0C4];

struct Fwd {
    scheme: Scheme,
    em: bool,
    layout: usize,
}

/// Classify one difference between the library's view of the decrypted file and its view of
/// the plaintext original. Known defects are recognised by their exact signature.
fn classify(d: &Diff, f: &Fwd, file_key: &[u8], n_objects: u32) -> String {
    let (_, _, objstm) = LAYOUTS[f.layout];
    let rc4 = matches!(f.scheme, Scheme::R2 | Scheme::R3 | Scheme::R4Rc4);
    // strings of objects stored in an object stream are passed through the string cipher
    // although the stream that contains them was already decrypted
    if objstm && d.kind == "string" && rc4 {
        let again = (1..=n_objects + 4).any(|n| rc::rc4(&rc::alg1_object_key(file_key, n, 0, false), &d.a_raw) == d.b_raw);
        if again {
            return "C06/strings-in-object-streams-decrypted-a-second-time".into();
        }
    }
    if objstm && !rc4 && d.kind == "unresolvable" && d.b.contains("Failed to decrypt string") {
        return "C06/strings-in-object-streams-decrypted-a-second-time".into();
    }
    // /EncryptMetadata false: the XMP stream is cleartext but gets decrypted
    if !f.em && f.scheme.revision() >= 4 && d.path == "Root/Metadata" && (d.kind == "stream-data" || (d.kind == "unresolvable" && d.b.contains("decrypt stream"))) {
        return "C06/cleartext-metadata-stream-is-decrypted".into();
    }
    // strings inside stream dictionaries are left as ciphertext
    if d.kind == "stream-dict-string" {
        let is_ciphertext = if rc4 {
            (1..=n_objects + 4).any(|n| rc::rc4(&rc::alg1_object_key(file_key, n, 0, false), &d.b_raw) == d.a_raw)
        } else {
            let key = |n: u32| if f.scheme == Scheme::R4Aes { rc::alg1_object_key(file_key, n, 0, true) } else { file_key.to_vec() };
            (1..=n_objects + 4).any(|n| rc::pdf_aes_decrypt(&key(n), &d.b_raw).map(|p| p == d.a_raw).unwrap_or(false))
        };
        if is_ciphertext {
            return "C06/strings-in-stream-dictionaries-left-encrypted".into();
        }
    }
    format!("C06/decrypted-content-differs/{}", d.kind)
}

fn forward_section(rep: &mut Report, thorough: bool) {
    let skipped = AtomicU64::new(0);
    let compared = AtomicU64::new(0);
    let n_pw = 8;
    rep.explore("forward", Explore::dev(if thorough { 2 } else { 1 }), |c: &mut Ctx| {
        let scheme = *c.pick_from("scheme", &Scheme::ALL);
        let layout = c.choose("layout", 3);
        let em = !c.flag("cleartext_metadata");
        let pwk = c.choose_dev("passwords", n_pw);
        let p = *c.pick_dev("P", &PERMS);
        let content = c.choose_dev("content", 3);
        let indirect = c.choose_dev("encrypt_dict", 2) == 0;
        let ident = c.choose_dev("metadata_crypt_filter", 2) == 1;
        let seed = [1u64, 2, 0xFFFF_FFFF_FFFF_FF00][c.choose_dev("seed", 3)];
        let f = Fwd { scheme, em, layout };
        c.input(vx::h64(&(scheme, layout, em, pwk, p, content, indirect, ident, seed)));
        let (lname, xs, os) = LAYOUTS[layout];
        let (user, owner) = password_pair(pwk);
        let tag = format!(
            "{} {lname} EncryptMetadata={em} passwords={} P={p:#010x} content={} encrypt_dict={} metadata_identity_filter={ident} seed={seed}",
            scheme.name(),
            encdoc::PASSWORD_NAMES[pwk],
            CONTENT_NAMES[content],
            if indirect { "indirect" } else { "direct" }
        );
        c.sample(json!({"case": tag}));
        let objs = doc_objects(content);
        let n_objects = objs.iter().map(|x| x.0).max().unwrap_or(0);
        // the plaintext original through the library
        let plain = rc::plain_file(&objs, 1, Some(7), xs, os);
        let base = enc::lib_open(&plain, None).and_then(|l| enc::lib_text_and_metadata(&l).map(|tm| (l, tm)));
        let (bl, (btext, bmeta)) = match base {
            Ok(x) if !x.0.encrypted => x,
            other => {
                skipped.fetch_add(1, Ordering::Relaxed);
                c.outcome(vx::h64(&("skipped", other.err().map(|e| vx::one_line(&e, 60)))));
                return;
            }
        };
        {
            let (d, st) = enc::graph_diff(&bl, &bl, &[("Root", bl.root.clone(), bl.root.clone()), ("Info", bl.info.clone(), bl.info.clone())], &|_, _| false, 4);
            if !d.is_empty() || st.streams == 0 {
                skipped.fetch_add(1, Ordering::Relaxed);
                c.outcome(vx::h64(&("skipped-unwalkable", enc::show_diffs(&d))));
                return;
            }
        }
        c.nontrivial();
        compared.fetch_add(1, Ordering::Relaxed);
        let mut s = rc::EncSettings::new(scheme, &producer_bytes(scheme, &user), &producer_bytes(scheme, &owner));
        s.p = p as i32;
        s.encrypt_metadata = em;
        s.xref_stream = xs;
        s.objstm = os;
        s.encrypt_dict_indirect = indirect;
        s.metadata_identity_filter = ident;
        s.seed = seed;
        s.info = Some(7);
        let e = rc::encrypt_file_ex(&objs, &s);
        let mut oh = 0u64;
        let mut fail = |c: &mut Ctx, key: String, detail: String| {
            oh = vx::hmix(oh, vx::h64(&key));
            c.fail(key, detail);
        };
        // recognised as encrypted, locked
        match enc::lib_open(&e.bytes, None) {
            Ok(l) => {
                if !l.encrypted {
                    fail(c, "C06/encrypted-file-read-as-unencrypted".into(), format!("{tag}: is_encrypted() is false"));
                    c.outcome(oh);
                    return;
                }
                if !user.is_empty() {
                    if l.unlocked_on_open {
                        fail(c, "C06/opens-without-password".into(), tag.clone());
                    }
                    if let Some(Obj::Ref(n, g)) = &l.info {
                        if let Ok(o) = l.get(*n, *g) {
                            fail(c, "C06/locked-reader-hands-out-objects".into(), format!("{tag}: {o:?}"));
                        }
                    }
                }
            }
            Err(err) => {
                let key = if !indirect && err.contains("ncryption") { "C06/direct-encrypt-dictionary-rejected".to_string() } else { "C06/encrypted-file-cannot-be-opened".to_string() };
                fail(c, key, format!("{tag}: {err}"));
                c.outcome(oh);
                return;
            }
        }
        for (pw, role) in [(&user, "user"), (&owner, "owner")] {
            let l = match enc::lib_open(&e.bytes, Some(pw)) {
                Ok(l) => l,
                Err(err) => {
                    // known signature: non-ASCII password of an R2-R4 file is hashed as UTF-8 by the library
                    let non_ascii = !pw.is_ascii();
                    let mut key = format!("C06/{role}-password-refused");
                    // known signature: R5/R6 keep the first 127 bytes of a password (ISO 32000-2 7.6.4.3.2);
                    // the library hashes all of them (R5) or gives up (R6) - but accepts the 127-byte prefix
                    if scheme.revision() >= 5 && pw.len() > 127 && pw.is_char_boundary(127) && enc::lib_open(&e.bytes, Some(&pw[..127])).is_ok() {
                        key = "C06/r5-r6-password-over-127-bytes-not-truncated".into();
                    }
                    if non_ascii && scheme.revision() <= 4 && err.starts_with("unlock") {
                        let mut s2 = s.clone();
                        s2.user_pw = user.as_bytes().to_vec();
                        s2.owner_pw = owner.as_bytes().to_vec();
                        let e2 = rc::encrypt_file(&objs, &s2);
                        if enc::lib_open(&e2, Some(pw)).is_ok() {
                            key = "C06/r2-r4-non-ascii-password-hashed-as-utf8-not-pdfdocencoding".into();
                        }
                    }
                    fail(c, key, format!("{tag}: {role} password {pw:?}: {err}"));
                    continue;
                }
            };
            if l.perms != Some(p) {
                fail(c, "C06/permissions-differ".into(), format!("{tag}: /P {p:#010x}, library reports {:?}", l.perms.map(|x| format!("{x:#010x}"))));
            }
            let (d, _) = enc::graph_diff(&bl, &l, &[("Root", bl.root.clone(), l.root.clone()), ("Info", bl.info.clone(), l.info.clone())], &|_, _| false, 12);
            for x in &d {
                let key = classify(x, &f, &e.file_key, n_objects);
                fail(c, key, format!("{tag} ({role} password): {}", enc::show_diffs(std::slice::from_ref(x))));
            }
            if d.is_empty() {
                match enc::lib_text_and_metadata(&l) {
                    Ok((t, m)) => {
                        if t != btext {
                            fail(c, "C06/extracted-text-differs".into(), format!("{tag} ({role}): want {btext:?} got {t:?}"));
                        }
                        if m != bmeta {
                            fail(c, "C06/metadata-differs".into(), format!("{tag} ({role}): want {bmeta} got {m}"));
                        }
                    }
                    Err(err) => fail(c, "C06/text-or-metadata-unreadable".into(), format!("{tag} ({role}): {err}")),
                }
            }
        }
        // other passwords
        let info = refpdf::file::PdfFile::parse(&e.bytes).ok().and_then(|pf| rc::read_enc_info(&pf).ok());
        for w in ["", "wrong", "User-pw", "owner-pw ", "same-pw#"] {
            if w == user || w == owner {
                continue;
            }
            if let Some(i) = &info {
                if rc::authenticate(i, w.as_bytes()).which().is_some() {
                    continue;
                }
            }
            if let Ok(true) = enc::lib_accepts(&e.bytes, w) {
                fail(c, "C06/wrong-password-accepted".into(), format!("{tag}: {w:?} unlocks the file"));
            }
        }
        c.outcome(oh);
    });
    rep.note("forward_cells_compared", json!(compared.load(Ordering::Relaxed)));
    rep.note("forward_cells_skipped_plaintext_original_unreadable", json!(skipped.load(Ordering::Relaxed)));
}

/// R5/R6 with a dense seed menu. The hash of revision 6 (Algorithm 2.B) has data-dependent
/// control flow (round count, hash selection) that depends on password AND salt, so a defect
/// can sit in a few percent of the (password, salt) pairs only; one execution evaluates it
/// for four pairs (user/owner x validation/key salt). FULL over scheme x seed x password.
fn forward_seeds_section(rep: &mut Report, thorough: bool) {
    let n_seeds: usize = if thorough { 256 } else { 64 };
    const PW: [usize; 3] = [0, 2, 4]; // ascii, non-ascii, 127 bytes
    rep.explore("forward-r56-seeds", Explore::full(), |c: &mut Ctx| {
        let scheme = *c.pick_from("scheme", &[Scheme::R6, Scheme::R5]);
        let pwk = *c.pick_from("passwords", &PW);
        let seed = c.choose("seed", n_seeds) as u64;
        c.input(vx::h64(&(scheme, pwk, seed)));
        c.nontrivial();
        let (user, owner) = password_pair(pwk);
        let tag = format!("{} classic-table passwords={} seed={seed}", scheme.name(), encdoc::PASSWORD_NAMES[pwk]);
        c.sample(json!({"case": tag}));
        let objs = doc_objects(0);
        let mut s = rc::EncSettings::new(scheme, user.as_bytes(), owner.as_bytes());
        s.seed = seed.wrapping_mul(0x9E37_79B9).wrapping_add(7);
        s.info = Some(7);
        let e = rc::encrypt_file_ex(&objs, &s);
        let mut oh = 0u64;
        for (pw, role) in [(&user, "user"), (&owner, "owner")] {
            match enc::lib_open(&e.bytes, Some(pw)) {
                Ok(l) => {
                    // the file key is right when a string and a stream decrypt to the original
                    let info_ok = match &l.info {
                        Some(Obj::Ref(n, g)) => l.get(*n, *g).ok().and_then(|o| o.dict_get("Producer").and_then(|p| p.as_str_bytes().map(|b| b == b"refpdf"))).unwrap_or(false),
                        _ => false,
                    };
                    let text_ok = matches!(enc::lib_text_and_metadata(&l), Ok((t, _)) if t.iter().any(|x| x.contains("Hello C06 plain text")));
                    if !info_ok || !text_ok {
                        oh = vx::hmix(oh, 2);
                        c.fail("C06/r56-unlocked-but-content-wrong", format!("{tag} ({role} password): info string ok={info_ok} page text ok={text_ok}"));
                    }
                }
                Err(err) => {
                    oh = vx::hmix(oh, 1);
                    c.fail(format!("C06/r56-{role}-password-refused-for-some-salts"), format!("{tag}: {role} password {pw:?}: {err}"));
                }
            }
        }
        c.outcome(oh);
    });
}

fn reverse_section(rep: &mut Report, thorough: bool) {
    let skipped = AtomicU64::new(0);
    let compared = AtomicU64::new(0);
    rep.explore("reverse", Explore::dev(if thorough { 2 } else { 1 }), |c: &mut Ctx| {
        let s = c.choose("strength", 4);
        let xs = c.flag("xref_stream");
        let os = c.flag("object_streams");
        let comp = !c.flag("no_compression");
        let pwk = c.choose_dev("passwords", 8);
        let ck = c.choose_dev("content", 3);
        let seed = [1u64, 2][c.choose_dev("seed", 2)];
        let pk = c.choose_dev("permissions", 5);
        c.input(vx::h64(&(s, xs, os, comp, pwk, ck, seed, pk)));
        let cfg = encdoc::config(xs, os, comp);
        let (user, owner) = encdoc::password_pair(pwk);
        // all permissions, or a raw /P value whose reserved bits are not in canonical form
        let perms = if pk == 0 { oxidize_pdf::encryption::Permissions::all() } else { oxidize_pdf::encryption::Permissions::from_bits(encdoc::RAW_PERMS[pk - 1]) };
        let tag = format!("{} xref_stream={xs} object_streams={os} compress={comp} passwords={} permissions={:#010x} content={} seed={seed}", encdoc::STRENGTHS[s].1, encdoc::PASSWORD_NAMES[pwk], perms.bits(), encdoc::CONTENT_NAMES[ck]);
        c.sample(json!({"case": tag}));
        let base = match encdoc::baseline(ck, &cfg) {
            Ok(b) => b,
            Err(e) => {
                skipped.fetch_add(1, Ordering::Relaxed);
                c.outcome(vx::h64(&("skipped", vx::one_line(&e, 60))));
                return;
            }
        };
        c.nontrivial();
        compared.fetch_add(1, Ordering::Relaxed);
        let de = DocumentEncryption::new(user.clone(), owner.clone(), perms, encdoc::STRENGTHS[s].0);
        let ebytes = match encdoc::write_document(ck, &cfg, Some((&de, seed))) {
            Ok(b) => b,
            Err(e) => {
                c.fail("C06/library-encrypted-build-fails", format!("{tag}: {e}"));
                return;
            }
        };
        if xs && encdoc::xref_stream_trailer_lacks_encrypt(&ebytes) {
            c.fail("C06/library-xref-stream-trailer-lacks-Encrypt-and-ID", format!("{tag}: an independent reader finds no /Encrypt and no /ID in the cross-reference stream dictionary and sees ciphertext"));
            c.outcome(1);
            return;
        }
        let base_lib = match base.open() {
            Ok(l) => l,
            Err(e) => {
                c.fail("C06/plaintext-build-no-longer-readable", format!("{tag}: {e}"));
                return;
            }
        };
        let cs = encdoc::Case { tag: tag.clone(), user: &user, owner: &owner, perms: perms.bits(), base: &base, base_lib: &base_lib };
        let mut oh = 0u64;
        for (k, d) in encdoc::check_reference(&ebytes, &cs) {
            oh = vx::hmix(oh, vx::h64(&k));
            c.fail(format!("C06/{k}"), d);
        }
        c.outcome(oh);
    });
    rep.note("reverse_cells_compared", json!(compared.load(Ordering::Relaxed)));
    rep.note("reverse_cells_skipped_plaintext_build_unreadable", json!(skipped.load(Ordering::Relaxed)));
}

pub fn run(rep: &mut Report) {
    let thorough = rep.tier.is_thorough();
    rep.rule(
        "forward: one execution = (scheme, layout, EncryptMetadata) in FULL with at most k non-default choices among (password pair, P, content, \
         direct/indirect /Encrypt, Identity crypt filter on metadata, seed); reverse: (strength, writer configuration) in FULL with at most k non-default \
         choices among (password pair, permission value incl. non-canonical raw /P, content, seed); forward-r56-seeds: R5/R6 x 3 password pairs x every seed 0..63 \
         (thorough 0..255) in FULL - the seed menu is a bound: salts and file keys are a deterministic function of the seed, other salts are not covered; non-trivial = the plaintext original is readable by the library, so the encrypted file was compared",
    );
    rep.assume("refpdf::crypto stands in for qpdf: it decrypts all 28 qpdf/pypdf fixtures; its writer round-trips through its reader for every scheme/layout (unit tests)");
    rep.assume("object streams written by the reference follow ISO 32000-1 7.5.7/7.6.2: strings inside are not encrypted individually, the object stream is encrypted as a stream");
    rep.assume("passwords of R2-R4 files are PDFDocEncoding bytes, of R5/R6 files UTF-8 bytes (SASLprep-stable characters only)");
    rep.assume("the plaintext original (same layout, not encrypted) as read by the library defines 'same objects, text and metadata'");
    forward_section(rep, thorough);
    forward_seeds_section(rep, thorough);
    reverse_section(rep, thorough);
}
