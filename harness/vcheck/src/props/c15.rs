//! C15 — the document → chunks pipeline preserves content and provenance.
//!
//! Space (all enumerated): authored documents = every sequence of 1..=4 (quick) / 1..=5
//! (thorough) blocks from {H1 24 pt bold, H2 18 pt bold, one-sentence paragraph 10 pt,
//! two-sentence paragraph, list item, ruled 2×2 table, page break, one-sentence paragraph in
//! Times-Roman with the same character count as the Helvetica one (font-weight tie inside a merged
//! chunk)} × page sizes {all A4, first page A4 landscape then A4 — only for documents with a page
//! break}, every sentence / heading /
//! table cell carrying a unique marker word; × max_tokens {64, 8, 512} × 4 context modes ×
//! 2 merge policies. Each document is written with `oxidize_pdf::Document`/`Page` text and
//! graphics calls, serialised with `to_bytes`, re-opened with `PdfReader`/`PdfDocument`, and
//! chunked with `rag_chunks_with` / `rag_chunks_with_counter` / `rag_chunks_with_source_and_config`.
//!
//! Authoring stays inside what the partitioner classifies without ambiguity: headings are bold
//! *and* 1.8×/2.4× the body size (two independent title signals), body text is 10 pt regular
//! without colons or numeric prefixes, blocks are 80 pt apart (gap > 1.5× any line height, so no two
//! blocks are merged into one paragraph), everything lies between y=400 and y=790 (outside the
//! 5 % header/footer zones).
//!
//! Oracle (from the property text):
//!  * every authored unit (marker + its sentence) occurs exactly once in the chunks' `text`;
//!  * `page_numbers` (and `metadata.page_span`) = the pages the chunk's markers were authored on;
//!  * `metadata.heading_path` = the headings that govern the chunk's content in the *document*
//!    (H1 resets, H2 nests under the last H1, page breaks do not end a section); membership
//!    form when a chunk holds units with different governing headings; a heading's own chunk
//!    may or may not list the heading itself; `heading_context` is the leaf of the breadcrumb;
//!  * the Debug-serialised chunks (ids included) are byte-identical between two in-process
//!    runs and a run in a second process (`vcheck --worker C15 run <cfg>`).
use oxidize_pdf::parser::{PdfDocument, PdfReader};
use oxidize_pdf::pipeline::{
    ContextFormat, ContextMode, DocumentSource, HybridChunkConfig, MergePolicy, RagChunk, WordProxyCounter,
};
use oxidize_pdf::{Document, Font, Page};
use serde_json::json;
use std::io::{Cursor, Read, Write};
use std::sync::Arc;
use vx::{Ctx, Explore, Report};

pub const BUILT: bool = true;

const KINDS: [&str; 8] = ["H1", "H2", "para", "para2", "list", "table", "break", "paraT"];
const PAGE_SIZES: [&str; 2] = ["all A4 portrait", "first page A4 landscape (842x595), then A4 portrait"];
const MAXTOK: [usize; 3] = [64, 8, 512];
const CTX_NAMES: [&str; 4] = ["heading", "none", "contextual-labeled", "contextual-prose"];
const N_CFG: usize = 3 * 4 * 2;
/// Baseline-to-baseline distance between blocks. The paragraph reconstruction joins two lines when
/// the gap (distance − height of the lower line) is ≤ 1.5 × the median line height, i.e. ≤ 36 pt
/// for 24 pt headings; 80 − 24 = 56 keeps every pair of blocks apart.
const STEP: f64 = 80.0;

#[derive(Clone, Copy, Debug, Hash, PartialEq, Eq)]
struct Cfg {
    max_tokens: usize,
    ctx: usize,
    same_type_only: bool,
}
impl Cfg {
    fn from_index(i: usize) -> Cfg {
        Cfg { max_tokens: MAXTOK[i % 3], ctx: (i / 3) % 4, same_type_only: (i / 12) % 2 == 1 }
    }
    fn index(&self) -> usize {
        MAXTOK.iter().position(|&m| m == self.max_tokens).unwrap() + 3 * self.ctx + 12 * self.same_type_only as usize
    }
    fn lib(&self) -> HybridChunkConfig {
        HybridChunkConfig {
            max_tokens: self.max_tokens,
            merge_policy: if self.same_type_only { MergePolicy::SameTypeOnly } else { MergePolicy::AnyInlineContent },
            context_mode: match self.ctx {
                0 => ContextMode::Heading,
                1 => ContextMode::None,
                2 => ContextMode::Contextual(ContextFormat::Labeled),
                _ => ContextMode::Contextual(ContextFormat::Prose),
            },
            ..Default::default()
        }
    }
    fn show(&self) -> String {
        format!(
            "max_tokens={} context={} policy={} api={}",
            self.max_tokens,
            CTX_NAMES[self.ctx],
            if self.same_type_only { "SameTypeOnly" } else { "AnyInlineContent" },
            match self.ctx {
                0 => "rag_chunks_with",
                1 => "rag_chunks_with_counter(WordProxyCounter)",
                _ => "rag_chunks_with_source_and_config",
            }
        )
    }
}

// ------------------------------------------------------------------ authoring

/// One authored unit of content: a heading, a sentence, a list item or a table cell.
#[derive(Clone, Debug)]
struct Unit {
    marker: String,
    text: String,
    page: u32,
    is_title: bool,
    is_table: bool,
    /// governing headings in the document (for a heading: including itself)
    crumb: Vec<String>,
    /// what a per-page restart of the heading stack gives (the known defect's model)
    crumb_page: Vec<String>,
    /// per-page restart, and headings lying between two tables of their page are not headings
    /// (KF-C15-3 turns them into a table row)
    crumb_fused: Vec<String>,
}

fn marker(block: usize, sub: usize) -> String {
    format!("Mk{}{}z", (b'A' + block as u8) as char, (b'a' + sub as u8) as char)
}

fn push_heading(stack: &mut Vec<(u8, String)>, level: u8, text: &str) {
    stack.retain(|(l, _)| *l < level);
    stack.push((level, text.to_string()));
}
fn crumb_of(stack: &[(u8, String)]) -> Vec<String> {
    stack.iter().map(|(_, t)| t.clone()).collect()
}

#[allow(clippy::too_many_arguments)]
fn add_unit(units: &mut Vec<Unit>, page: u32, marker: String, text: String, is_title: bool, st: &[(u8, String)], sp: &[(u8, String)], sf: &[(u8, String)]) {
    units.push(Unit { marker, text, page, is_title, is_table: false, crumb: crumb_of(st), crumb_page: crumb_of(sp), crumb_fused: crumb_of(sf) });
}

fn author(seq: &[usize], mixed_sizes: bool) -> (Vec<u8>, Vec<Unit>, u32) {
    let mut doc = Document::new();
    doc.set_title("Verification sample");
    doc.set_author("vx");
    let mut units: Vec<Unit> = Vec::new();
    // first page: A4, or A4 landscape (height 595) when the document mixes page sizes
    let mut page = if mixed_sizes { Page::new(842.0, 595.0) } else { Page::a4() };
    let mut page_no = 0u32;
    let mut y = if mixed_sizes { 595.0 - 82.0 } else { 760.0 };
    let mut stack: Vec<(u8, String)> = Vec::new();
    let mut stack_page: Vec<(u8, String)> = Vec::new();
    let mut stack_fused: Vec<(u8, String)> = Vec::new();
    let x = 72.0;
    for (b, &kind) in seq.iter().enumerate() {
        match kind {
            0 | 1 => {
                let (size, level, word) = if kind == 0 { (24.0, 1u8, "Chapter") } else { (18.0, 2u8, "Section") };
                let text = format!("{} {word}", marker(b, 0));
                page.text().set_font(Font::HelveticaBold, size).at(x, y).write(&text).expect("write heading");
                push_heading(&mut stack, level, &text);
                push_heading(&mut stack_page, level, &text);
                let table_before = seq[..b].iter().rev().take_while(|&&k| k != 6).any(|&k| k == 5);
                let table_after = seq[b + 1..].iter().take_while(|&&k| k != 6).any(|&k| k == 5);
                if !(table_before && table_after) {
                    push_heading(&mut stack_fused, level, &text);
                }
                add_unit(&mut units, page_no, marker(b, 0), text, true, &stack, &stack_page, &stack_fused);
            }
            2 => {
                let text = format!("{} plain body text here.", marker(b, 0));
                page.text().set_font(Font::Helvetica, 10.0).at(x, y).write(&text).expect("write para");
                add_unit(&mut units, page_no, marker(b, 0), text, false, &stack, &stack_page, &stack_fused);
            }
            3 => {
                let s1 = format!("{} opens with six plain words.", marker(b, 0));
                let s2 = format!("{} closes with six more words.", marker(b, 1));
                let text = format!("{s1} {s2}");
                page.text().set_font(Font::Helvetica, 10.0).at(x, y).write(&text).expect("write para2");
                add_unit(&mut units, page_no, marker(b, 0), s1, false, &stack, &stack_page, &stack_fused);
                add_unit(&mut units, page_no, marker(b, 1), s2, false, &stack, &stack_page, &stack_fused);
            }
            4 => {
                let text = format!("- {} listed entry", marker(b, 0));
                page.text().set_font(Font::Helvetica, 10.0).at(x, y).write(&text).expect("write list");
                add_unit(&mut units, page_no, marker(b, 0), text, false, &stack, &stack_page, &stack_fused);
            }
            5 => {
                // ruled 2×2 grid: columns at 72..222..372, rows y+14..y-4..y-22
                let (x0, x1, x2) = (72.0, 222.0, 372.0);
                let (t, m, bt) = (y + 14.0, y - 4.0, y - 22.0);
                {
                    let g = page.graphics();
                    g.set_line_width(1.0);
                    for yy in [t, m, bt] {
                        g.move_to(x0, yy).line_to(x2, yy).stroke();
                    }
                    for xx in [x0, x1, x2] {
                        g.move_to(xx, t).line_to(xx, bt).stroke();
                    }
                }
                for (sub, (cx, cy)) in [(x0 + 6.0, y), (x1 + 6.0, y), (x0 + 6.0, y - 18.0), (x1 + 6.0, y - 18.0)].into_iter().enumerate() {
                    let text = marker(b, sub);
                    page.text().set_font(Font::Helvetica, 10.0).at(cx, cy).write(&text).expect("write cell");
                    add_unit(&mut units, page_no, marker(b, sub), text, false, &stack, &stack_page, &stack_fused);
                    units.last_mut().unwrap().is_table = true;
                }
            }
            7 => {
                // same character count as the Helvetica paragraph (kind 2): a chunk holding one of
                // each has two fonts with exactly equal character weight
                let text = format!("{} serif body text here.", marker(b, 0));
                page.text().set_font(Font::TimesRoman, 10.0).at(x, y).write(&text).expect("write paraT");
                add_unit(&mut units, page_no, marker(b, 0), text, false, &stack, &stack_page, &stack_fused);
            }
            _ => {
                doc.add_page(std::mem::replace(&mut page, Page::a4()));
                page_no += 1;
                y = 760.0 + STEP; // undone by the decrement below
                stack_page.clear();
                stack_fused.clear();
            }
        }
        y -= STEP;
    }
    doc.add_page(page);
    (doc.to_bytes().expect("to_bytes"), units, page_no + 1)
}

// ------------------------------------------------------------------ running the pipeline

fn run_pipeline(bytes: &[u8], cfg: &Cfg) -> Result<Vec<RagChunk>, String> {
    let reader = PdfReader::new(Cursor::new(bytes.to_vec())).map_err(|e| format!("reader: {e}"))?;
    let doc = PdfDocument::new(reader);
    let r = match cfg.ctx {
        0 => doc.rag_chunks_with(cfg.lib()),
        1 => doc.rag_chunks_with_counter(cfg.lib(), Arc::new(WordProxyCounter)),
        _ => doc.rag_chunks_with_source_and_config(
            DocumentSource::with_file(Some("sample.pdf".to_string()), None),
            cfg.lib(),
        ),
    };
    r.map_err(|e| format!("rag_chunks: {e}"))
}

/// Byte-exact serialisation used for the determinism comparison (ids included).
fn serialise(chunks: &[RagChunk]) -> Vec<u8> {
    let mut s = String::new();
    for c in chunks {
        s.push_str(&format!("id={} {:?}\n", c.metadata.chunk_id, c));
    }
    s.into_bytes()
}

/// A long-lived second process (one per explorer thread) answering `serve` requests:
/// request = cfg index (u32 LE) + length (u32 LE) + PDF bytes; reply = status byte + length + payload.
struct Worker {
    child: std::process::Child,
    stdin: std::process::ChildStdin,
    stdout: std::process::ChildStdout,
}
impl Worker {
    fn spawn() -> std::io::Result<Worker> {
        let mut child = vx::proc::spawn_self(&["--worker", "C15", "serve"], None)?;
        let stdin = child.stdin.take().expect("piped stdin");
        let stdout = child.stdout.take().expect("piped stdout");
        Ok(Worker { child, stdin, stdout })
    }
    fn ask(&mut self, cfg: usize, bytes: &[u8]) -> std::io::Result<(u8, Vec<u8>)> {
        self.stdin.write_all(&(cfg as u32).to_le_bytes())?;
        self.stdin.write_all(&(bytes.len() as u32).to_le_bytes())?;
        self.stdin.write_all(bytes)?;
        self.stdin.flush()?;
        let mut head = [0u8; 5];
        self.stdout.read_exact(&mut head)?;
        let n = u32::from_le_bytes([head[1], head[2], head[3], head[4]]) as usize;
        let mut out = vec![0u8; n];
        self.stdout.read_exact(&mut out)?;
        Ok((head[0], out))
    }
}
impl Drop for Worker {
    fn drop(&mut self) {
        let _ = self.child.kill();
        let _ = self.child.wait();
    }
}
thread_local! {
    static WORKER: std::cell::RefCell<Option<Worker>> = const { std::cell::RefCell::new(None) };
}
/// Run one case in the second process. Err = the worker died / could not be started.
fn second_process(cfg: usize, bytes: &[u8]) -> Result<(u8, Vec<u8>), String> {
    WORKER.with(|w| {
        let mut w = w.borrow_mut();
        if w.is_none() {
            *w = Some(Worker::spawn().map_err(|e| format!("spawn: {e}"))?);
        }
        match w.as_mut().unwrap().ask(cfg, bytes) {
            Ok(r) => Ok(r),
            Err(e) => {
                *w = None; // the next case gets a fresh worker
                Err(format!("worker i/o: {e}"))
            }
        }
    })
}

fn serve() -> i32 {
    let mut stdin = std::io::stdin().lock();
    let mut stdout = std::io::stdout().lock();
    loop {
        let mut head = [0u8; 8];
        if stdin.read_exact(&mut head).is_err() {
            return 0; // parent closed the pipe
        }
        let cfg = u32::from_le_bytes([head[0], head[1], head[2], head[3]]) as usize;
        let n = u32::from_le_bytes([head[4], head[5], head[6], head[7]]) as usize;
        let mut bytes = vec![0u8; n];
        if stdin.read_exact(&mut bytes).is_err() || cfg >= N_CFG {
            return 2;
        }
        let (status, payload) = match std::panic::catch_unwind(|| run_pipeline(&bytes, &Cfg::from_index(cfg))) {
            Ok(Ok(ch)) => (0u8, serialise(&ch)),
            Ok(Err(e)) => (3u8, format!("ERR {e}").into_bytes()),
            Err(_) => (4u8, b"panic in worker".to_vec()),
        };
        if stdout.write_all(&[status]).is_err()
            || stdout.write_all(&(payload.len() as u32).to_le_bytes()).is_err()
            || stdout.write_all(&payload).is_err()
            || stdout.flush().is_err()
        {
            return 2;
        }
    }
}

pub fn worker_main(args: &[String]) -> i32 {
    match args.first().map(|s| s.as_str()) {
        Some("serve") => serve(),
        Some("run") => {
            let Some(cfg) = args.get(1).and_then(|s| s.parse::<usize>().ok()).filter(|&i| i < N_CFG) else {
                return 2;
            };
            let mut bytes = Vec::new();
            if std::io::stdin().read_to_end(&mut bytes).is_err() {
                return 2;
            }
            match run_pipeline(&bytes, &Cfg::from_index(cfg)) {
                Ok(ch) => {
                    let _ = std::io::stdout().write_all(&serialise(&ch));
                    0
                }
                Err(e) => {
                    let _ = std::io::stdout().write_all(format!("ERR {e}").as_bytes());
                    3
                }
            }
        }
        // `probe 0251` prints the partition elements and chunks of one authored document
        Some("probe") => {
            let seq: Vec<usize> = args.get(1).map(|s| s.bytes().map(|b| (b - b'0') as usize).collect()).unwrap_or_default();
            let cfg = Cfg::from_index(args.get(2).and_then(|s| s.parse().ok()).unwrap_or(0));
            let mixed = args.get(3).map(|s| s == "1").unwrap_or(false);
            let (bytes, units, pages) = author(&seq, mixed);
            println!("pages={pages} bytes={}", bytes.len());
            for u in &units {
                println!("unit {u:?}");
            }
            let reader = PdfReader::new(Cursor::new(bytes.clone())).expect("reader");
            let doc = PdfDocument::new(reader);
            for e in doc.partition().expect("partition") {
                println!(
                    "element {} p{} size={:?} bold={} ph={:?} path={:?} text={:?}",
                    e.type_name(),
                    e.page(),
                    e.metadata().font_size,
                    e.metadata().is_bold,
                    e.metadata().parent_heading,
                    e.metadata().heading_path,
                    e.display_text()
                );
            }
            match run_pipeline(&bytes, &cfg) {
                Ok(ch) => {
                    for c in ch {
                        println!(
                            "chunk {} pages={:?} over={} hc={:?} path={:?} text={:?} full={:?}",
                            c.chunk_index, c.page_numbers, c.is_oversized, c.heading_context, c.metadata.heading_path, c.text, c.full_text
                        );
                    }
                }
                Err(e) => println!("ERR {e}"),
            }
            0
        }
        _ => 2,
    }
}

// ------------------------------------------------------------------ the body

fn norm(s: &str) -> String {
    s.split_whitespace().collect::<Vec<_>>().join(" ")
}

fn body(c: &mut Ctx, lens: &[usize]) {
    let len = *c.pick_from("blocks", lens);
    let seq: Vec<usize> = (0..len).map(|_| c.choose("block", KINDS.len())).collect();
    // page sizes only vary when there is a later page
    let mixed = seq.contains(&6) && c.choose("page_sizes", PAGE_SIZES.len()) == 1;
    let cfg = Cfg {
        max_tokens: MAXTOK[c.choose("max_tokens", 3)],
        ctx: c.choose("context_mode", 4),
        same_type_only: c.choose("policy", 2) == 1,
    };
    c.input(vx::h64(&(&seq, mixed, cfg)));
    let show_seq = format!("{}{}", seq.iter().map(|&k| KINDS[k]).collect::<Vec<_>>().join(" "), if mixed { " | first page landscape" } else { "" });

    let (bytes, units, pages) = match vx::guard(|| author(&seq, mixed)) {
        Ok(v) => v,
        Err(p) => {
            c.fail(format!("C15/authoring-panic@{}", vx::panic_site(&p)), format!("doc=[{show_seq}] {p}"));
            return;
        }
    };

    let run = |bytes: &[u8]| vx::guard(|| run_pipeline(bytes, &cfg));
    let chunks = match run(&bytes) {
        Ok(Ok(ch)) => ch,
        Ok(Err(e)) => {
            c.fail("C15/pipeline-error", format!("doc=[{show_seq}] config=[{}] {e}", cfg.show()));
            return;
        }
        Err(p) => {
            c.fail(format!("C15/panic@{}", vx::panic_site(&p)), format!("doc=[{show_seq}] config=[{}] {p}", cfg.show()));
            return;
        }
    };
    let show_chunks = || {
        chunks
            .iter()
            .map(|ch| {
                format!(
                    "{{#{} pages={:?} path={:?} hc={:?} over={} types={:?} text={:?}}}",
                    ch.chunk_index, ch.page_numbers, ch.metadata.heading_path, ch.heading_context, ch.is_oversized, ch.element_types, ch.text
                )
            })
            .collect::<Vec<_>>()
            .join(" ")
    };
    let detail = |what: &str| format!("{what}; doc=[{show_seq}] ({pages} page(s)) config=[{}] chunks=[{}]", cfg.show(), show_chunks());

    // determinism: second in-process run, then a second process
    let ser = serialise(&chunks);
    match run(&bytes) {
        Ok(Ok(again)) => {
            let ser2 = serialise(&again);
            if ser2 != ser {
                c.fail("C15/two-in-process-runs-differ", detail(&format!("second run: {}", String::from_utf8_lossy(&ser2))));
            }
        }
        other => c.fail("C15/second-in-process-run-failed", detail(&format!("{:?}", other.map(|r| r.map(|v| v.len()))))),
    }
    match second_process(cfg.index(), &bytes) {
        Ok((0, out)) => {
            if out != ser {
                c.fail("C15/second-process-output-differs", detail(&format!("worker output: {}", String::from_utf8_lossy(&out))));
            }
        }
        Ok((code, out)) => c.fail(
            "C15/second-process-failed",
            detail(&format!("worker status {code}: {}", String::from_utf8_lossy(&out[..out.len().min(300)]))),
        ),
        Err(e) => c.fail("C15/second-process-died", detail(&e)),
    }

    // content: every unit exactly once
    let texts: Vec<String> = chunks.iter().map(|ch| norm(&ch.text)).collect();
    let mut home: Vec<Option<usize>> = vec![None; units.len()];
    for (ui, u) in units.iter().enumerate() {
        let hits: Vec<(usize, usize)> = texts.iter().enumerate().map(|(k, t)| (k, t.matches(u.marker.as_str()).count())).filter(|(_, n)| *n > 0).collect();
        let total: usize = hits.iter().map(|(_, n)| n).sum();
        if total == 0 {
            c.fail("C15/authored-text-missing-from-chunks", detail(&format!("marker {} ({:?}, page {}) is in no chunk", u.marker, u.text, u.page)));
            continue;
        }
        if total > 1 {
            // exact signature of KF-C15-3: two ruled grids with the same column positions on one
            // page are fused into one table, and the text between them becomes a spanning row
            // whose content is repeated once per column
            let tables_on_page = |before: bool| {
                units.iter().enumerate().any(|(vi, v)| v.is_table && v.page == u.page && if before { vi < ui } else { vi > ui })
            };
            let fused = !u.is_table
                && total == 2
                && hits.len() == 1
                && tables_on_page(true)
                && tables_on_page(false)
                && chunks[hits[0].0].element_types == ["table"];
            c.fail(
                if fused { "C15/text-between-two-ruled-tables-swallowed-into-one-fused-table" } else { "C15/authored-text-duplicated-in-chunks" },
                detail(&format!("marker {} occurs {total} times (chunk, occurrences: {:?})", u.marker, hits)),
            );
        }
        home[ui] = Some(hits[0].0);
        if !texts[hits[0].0].contains(&norm(&u.text)) {
            c.fail("C15/authored-sentence-altered", detail(&format!("chunk {} holds marker {} but not its text {:?}", hits[0].0, u.marker, u.text)));
        }
    }

    // provenance per chunk
    for (k, ch) in chunks.iter().enumerate() {
        let mine: Vec<&Unit> = units.iter().enumerate().filter(|(ui, _)| home[*ui] == Some(k)).map(|(_, u)| u).collect();
        if mine.is_empty() {
            c.fail("C15/chunk-without-authored-content", detail(&format!("chunk {k} contains no authored marker")));
            continue;
        }
        let mut want_pages: Vec<u32> = mine.iter().map(|u| u.page).collect();
        want_pages.sort_unstable();
        want_pages.dedup();
        if ch.page_numbers != want_pages {
            c.fail("C15/page-numbers-differ-from-authored-pages", detail(&format!("chunk {k}: page_numbers={:?}, its content was authored on pages {want_pages:?}", ch.page_numbers)));
        }
        let want_span = Some((want_pages[0], *want_pages.last().unwrap()));
        if ch.metadata.page_span != want_span {
            c.fail("C15/page-span-differs-from-authored-pages", detail(&format!("chunk {k}: page_span={:?}, expected {want_span:?}", ch.metadata.page_span)));
        }
        // breadcrumb
        let got = &ch.metadata.heading_path;
        let accepts = |pick: &dyn Fn(&Unit) -> &Vec<String>| {
            mine.iter().any(|u| {
                let w = pick(u);
                got == w || (u.is_title && got[..] == w[..w.len() - 1])
            })
        };
        if !accepts(&|u| &u.crumb) {
            let want: Vec<&Vec<String>> = mine.iter().map(|u| &u.crumb).collect();
            if accepts(&|u| &u.crumb_page) {
                c.fail(
                    "C15/breadcrumb-restarts-at-every-page",
                    detail(&format!("chunk {k}: heading_path={got:?} is the per-page breadcrumb; the document structure gives {want:?}")),
                );
            } else if got.is_empty() && ch.element_types.iter().all(|t| t == "table") && mine.iter().any(|u| u.is_table) {
                c.fail(
                    "C15/table-gets-no-breadcrumb-because-it-is-emitted-before-its-pages-headings",
                    detail(&format!("chunk {k}: a table authored below heading(s) {want:?} on its page has an empty heading_path")),
                );
            } else if accepts(&|u| &u.crumb_fused) {
                c.fail(
                    "C15/text-between-two-ruled-tables-swallowed-into-one-fused-table",
                    detail(&format!("chunk {k}: heading_path={got:?} lacks the heading(s) that were swallowed into a fused table; the document structure gives {want:?}")),
                );
            } else {
                c.fail("C15/breadcrumb-is-not-the-governing-headings", detail(&format!("chunk {k}: heading_path={got:?}, expected one of {want:?}")));
            }
        }
        if ch.heading_context.as_ref() != got.last() {
            c.fail("C15/heading-context-is-not-the-breadcrumb-leaf", detail(&format!("chunk {k}: heading_context={:?} heading_path={got:?}", ch.heading_context)));
        }
    }

    if pages > 1 || chunks.len() > 1 {
        c.nontrivial();
    }
    let shape: Vec<(Vec<usize>, &Vec<u32>, &Vec<String>, bool)> = chunks
        .iter()
        .enumerate()
        .map(|(k, ch)| ((0..units.len()).filter(|ui| home[*ui] == Some(k)).collect(), &ch.page_numbers, &ch.metadata.heading_path, ch.is_oversized))
        .collect();
    c.outcome(vx::h64(&(&seq, shape)));
    if c.want_sample() {
        c.sample(json!({"doc": show_seq, "pages": pages, "config": cfg.show(), "chunks": show_chunks()}));
    }
}

pub fn run(rep: &mut Report) {
    let thorough = rep.tier.is_thorough();
    rep.rule(
        "one case = one authored document (block sequence) × one chunk configuration; non-trivial when the \
         document has more than one page or yields more than one chunk",
    );
    rep.assume("authoring uses only layouts whose classification does not depend on a heuristic tie (see module doc); whatever element types the partitioner assigns, the oracle is stated on markers");
    rep.assume("serialised output = Debug rendering of every RagChunk plus its chunk_id (the harness does not enable the library's `semantic` feature, so serde JSON is not available)");
    rep.assume("a heading's own chunk may list the heading itself in heading_path or not; chunks holding content with different governing headings are checked by membership");
    rep.note("blocks", json!(KINDS));
    rep.note("page_sizes", json!({"menu": PAGE_SIZES, "rule": "enumerated only for documents with at least one page break"}));
    rep.explore("docs8-le4", Explore::full(), |c| body(c, &[1, 2, 3, 4]));
    if thorough {
        rep.explore("docs8-len5", Explore::full(), |c| body(c, &[5]));
    }
}
