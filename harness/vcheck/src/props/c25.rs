//! C25 — single-byte text encodings match the normative tables (ISO 32000-1 Annex D).
//!
//! The space is genuinely complete: every byte 0x00-0xFF and every Unicode scalar value
//! (0x110000 code points minus the 2048 surrogates, which a Rust `char`/`&str` cannot carry)
//! for StandardEncoding, MacRomanEncoding, WinAnsiEncoding and PDFDocEncoding, through every
//! public entry point of the library that applies one of these tables:
//!   * `text::TextEncoding::{decode, encode, encode_strict}` (all four encodings) — the
//!     crate-private `winansi_encode_char` / `macroman_encode_char` are exactly what
//!     `encode_strict` applies per character, and `winansi_decode_char` is exactly what
//!     `PdfString::to_text` applies per byte, so they are covered through those;
//!   * `parser::objects::PdfString::to_text` (text strings without BOM = PDFDocEncoding);
//!   * `parser::encoding::EnhancedDecoder::decode_with_encoding` lenient and strict, and
//!     `decode_text_with_encoding` (Windows1252 -> WinAnsi, MacRoman, PdfDocEncoding).
//! Sections:
//!   `decode`     (entry point, encoding) x all 256 single-byte inputs vs the Annex D cell;
//!   `encode`     (encode_strict | encode, encoding, plane) x all 65536 code points of the plane;
//!   `roundtrip`  encoding: decode(encode(c)) = c on the whole repertoire and
//!                encode(decode(b)) = b on every assigned code, library functions only;
//!   `extract`    simple font with /Encoding /WinAnsiEncoding | /MacRomanEncoding |
//!                /StandardEncoding (name, or dictionary with /BaseEncoding) x every byte, shown
//!                between `A` and `B` on a page crafted by refpdf::builder and read back with
//!                `TextExtractor::extract_from_page` (the private tables of text/extraction_cmap.rs);
//!   `pairs`      every 2-byte input (65536 per entry point/encoding): decoding is byte-wise;
//!                every pair over repertoire + 3 outsiders: encoding is character-wise and
//!                encode_strict reports the first unencodable character.
//! Oracle: refpdf::encodings (Annex D Table D.2 by glyph name + AGLFN; cross-validated at
//! setup against Python's cp1252 / mac_roman codecs, refpdf::textstr and a second
//! transcription of StandardEncoding). Cells the table leaves unassigned are excluded from
//! decode comparison and counted (note `excluded_cells`); nothing is guessed.
//!
//! Violation keys name the defect: when the complete observed table of an entry point equals
//! a recognisable wrong model (UTF-8 pass-through, Windows-1252 used for PDFDocEncoding,
//! Latin-1, Mac OS Roman, a table that stops at 0xAF, ...) the key names that model; any other
//! deviation — including one more wrong cell on top of a known model — gives `...-mismatch`.
use oxidize_pdf::parser::encoding::{CharacterDecoder, EncodingType, EnhancedDecoder};
use oxidize_pdf::parser::objects::PdfString;
use oxidize_pdf::text::TextEncoding;
use refpdf::encodings::{self as re, Cell, Enc};
use serde_json::json;
use vx::{Ctx, Explore, Report};

pub const BUILT: bool = true;

fn lib_enc(e: Enc) -> TextEncoding {
    match e {
        Enc::Standard => TextEncoding::StandardEncoding,
        Enc::MacRoman => TextEncoding::MacRomanEncoding,
        Enc::WinAnsi => TextEncoding::WinAnsiEncoding,
        Enc::PdfDoc => TextEncoding::PdfDocEncoding,
    }
}
fn short(e: Enc) -> &'static str {
    match e {
        Enc::Standard => "standard",
        Enc::MacRoman => "macroman",
        Enc::WinAnsi => "winansi",
        Enc::PdfDoc => "pdfdoc",
    }
}
fn parser_enc(e: Enc) -> EncodingType {
    match e {
        Enc::WinAnsi => EncodingType::Windows1252,
        Enc::MacRoman => EncodingType::MacRoman,
        Enc::PdfDoc => EncodingType::PdfDocEncoding,
        Enc::Standard => unreachable!("parser::encoding has no StandardEncoding"),
    }
}

#[derive(Clone, Copy, PartialEq, Eq, Debug, Hash)]
enum Dec {
    /// TextEncoding::decode
    TextEncoding,
    /// PdfString::to_text (PDFDocEncoding when there is no BOM)
    ToText,
    /// EnhancedDecoder::decode_with_encoding(.., lenient = true) (= decode_text_with_encoding)
    ParserLenient,
    /// EnhancedDecoder::decode_with_encoding(.., lenient = false)
    ParserStrict,
}
impl Dec {
    fn short(self) -> &'static str {
        match self {
            Dec::TextEncoding => "textencoding",
            Dec::ToText => "pdfstring-to-text",
            Dec::ParserLenient => "parser-lenient",
            Dec::ParserStrict => "parser-strict",
        }
    }
}

const DEC_POINTS: [(Dec, Enc); 11] = [
    (Dec::TextEncoding, Enc::Standard),
    (Dec::TextEncoding, Enc::MacRoman),
    (Dec::TextEncoding, Enc::WinAnsi),
    (Dec::TextEncoding, Enc::PdfDoc),
    (Dec::ToText, Enc::PdfDoc),
    (Dec::ParserLenient, Enc::MacRoman),
    (Dec::ParserLenient, Enc::WinAnsi),
    (Dec::ParserLenient, Enc::PdfDoc),
    (Dec::ParserStrict, Enc::MacRoman),
    (Dec::ParserStrict, Enc::WinAnsi),
    (Dec::ParserStrict, Enc::PdfDoc),
];

thread_local! {
    static DECODER: EnhancedDecoder = EnhancedDecoder::new();
}

/// Run a decode entry point. Ok(None) = the entry point reported an error for the input.
fn lib_decode(d: Dec, e: Enc, bytes: &[u8]) -> Result<Option<String>, String> {
    vx::guard(|| match d {
        Dec::TextEncoding => Some(lib_enc(e).decode(bytes)),
        Dec::ToText => Some(PdfString::new(bytes.to_vec()).to_text()),
        Dec::ParserLenient => {
            // the convenience function and the trait method must agree
            let a = oxidize_pdf::parser::encoding::decode_text_with_encoding(bytes, parser_enc(e)).ok();
            let b = DECODER.with(|dec| dec.decode_with_encoding(bytes, parser_enc(e), true).ok());
            if a != b {
                panic!("decode_text_with_encoding {a:?} != decode_with_encoding(lenient) {b:?}");
            }
            a
        }
        Dec::ParserStrict => DECODER.with(|dec| dec.decode_with_encoding(bytes, parser_enc(e), false).ok()),
    })
}

// ---- recognisable wrong decode models (byte -> what that model would answer; None = error)

fn cp1252_c1(b: u8) -> char {
    match re::decode(Enc::WinAnsi, b) {
        Cell::Def(c) => c,
        Cell::Undef => b as char,
    }
}
fn mac_until_af(b: u8) -> Option<char> {
    match b {
        0..=0x7F => Some(b as char),
        0x80..=0xAF => Some(re::macos_roman(b)),
        _ => None,
    }
}
const DEC_MODELS: [&str; 6] = ["utf8-lossy", "windows-1252", "latin-1", "mac-os-roman", "mac-table-ends-at-AF-then-U+FFFD", "mac-table-ends-at-AF-then-error"];
fn dec_model(i: usize, b: u8) -> Option<String> {
    let c = match i {
        0 => Some(if b < 0x80 { b as char } else { '\u{FFFD}' }),
        1 => Some(cp1252_c1(b)),
        2 => Some(b as char),
        3 => Some(re::macos_roman(b)),
        4 => Some(mac_until_af(b).unwrap_or('\u{FFFD}')),
        _ => mac_until_af(b),
    };
    c.map(|c| c.to_string())
}

fn ucp(s: &str) -> String {
    s.chars().map(|c| format!("U+{:04X}", c as u32)).collect::<Vec<_>>().join(" ")
}

fn decode_cell_ok(e: Enc, b: u8, got: &Option<String>) -> bool {
    match re::decode(e, b) {
        Cell::Undef => true,
        Cell::Def(c) => match got {
            Some(s) => {
                let mut it = s.chars();
                match (it.next(), it.next()) {
                    (Some(g), None) => g == c || re::decode_alternatives(e, b).contains(&g),
                    _ => false,
                }
            }
            None => false,
        },
    }
}

// ---- encode side

#[derive(Clone, Copy, PartialEq, Eq, Debug, Hash)]
enum EncEntry {
    Strict,
    Lossy,
}
impl EncEntry {
    fn short(self) -> &'static str {
        match self {
            EncEntry::Strict => "encode_strict",
            EncEntry::Lossy => "encode",
        }
    }
}

/// Is `Ok([b])` for a character outside the repertoire a consistent extension (the table
/// leaves `b` unassigned and the library's own decoder reads `b` back as `c`)?
fn consistent_extension(e: Enc, c: char, bytes: &[u8]) -> bool {
    bytes.len() == 1 && re::decode(e, bytes[0]) == Cell::Undef && {
        let back = lib_enc(e).decode(bytes);
        let mut it = back.chars();
        it.next() == Some(c) && it.next().is_none()
    }
}

/// verdict on encode_strict's answer for one character: Ok or a short failure class
fn strict_verdict(e: Enc, c: char, got: &Result<Vec<u8>, char>) -> Result<(), &'static str> {
    match (re::encode(e, c), got) {
        (Some(b), Ok(v)) if v.as_slice() == [b] => Ok(()),
        (Some(_), Ok(_)) => Err("repertoire character encoded to the wrong code"),
        (Some(_), Err(_)) => Err("repertoire character refused"),
        (None, Err(ch)) if *ch == c => Ok(()),
        (None, Err(_)) => Err("wrong character reported"),
        (None, Ok(v)) if consistent_extension(e, c, v) => Ok(()),
        (None, Ok(_)) => Err("character outside the repertoire silently encoded to a code that means something else"),
    }
}

fn lossy_verdict(e: Enc, c: char, got: &[u8], strict: &Result<Vec<u8>, char>) -> Result<(), &'static str> {
    match re::encode(e, c) {
        Some(b) if got == [b] => Ok(()),
        Some(_) => Err("repertoire character not encoded to its code"),
        None => match strict {
            // not encodable: the lossy path may substitute, provided the strict path reports it
            Err(ch) if *ch == c => Ok(()),
            Err(_) => Err("strict path reports a different character"),
            Ok(v) if v.as_slice() == got && consistent_extension(e, c, got) => Ok(()),
            Ok(_) => Err("character outside the repertoire silently replaced and not reported by encode_strict"),
        },
    }
}

const ENC_MODELS: [&str; 3] = ["ascii-pass-through", "utf8-pass-through", "mac-table-ends-at-AF"];
fn mac_encode_until_af(c: char) -> Option<u8> {
    if (c as u32) < 0x80 {
        return Some(c as u8);
    }
    (0x80u8..=0xAF).find(|&b| re::macos_roman(b) == c)
}
/// model prediction for encode_strict
fn strict_model(i: usize, c: char) -> Option<Result<Vec<u8>, char>> {
    match i {
        0 => Some(if (c as u32) < 0x80 { Ok(vec![c as u8]) } else { Err(c) }),
        2 => Some(mac_encode_until_af(c).map(|b| vec![b]).ok_or(c)),
        _ => None,
    }
}
/// model prediction for the lossy encode
fn lossy_model(i: usize, c: char) -> Option<Vec<u8>> {
    match i {
        1 => Some(c.to_string().into_bytes()),
        2 => Some(vec![mac_encode_until_af(c).unwrap_or(b'?')]),
        _ => None,
    }
}

fn scalars(plane: u32) -> impl Iterator<Item = char> {
    (plane << 16..(plane + 1) << 16).filter_map(char::from_u32)
}

pub fn run(rep: &mut Report) {
    rep.rule(
        "enumerated case = (entry point, encoding) with all 256 one-byte inputs inside, or (encode entry, \
         encoding, plane) with all 65536 code points of the plane inside, or (entry, encoding, first byte) with \
         all 256 second bytes inside; non-trivial = the case contains at least one cell / character the Annex D \
         table assigns; distinct = distinct (entry, encoding, block) and distinct observed result tables",
    );
    rep.assume("Annex D Table D.2 transcribed by glyph name with AGLFN Unicode values (refpdf::encodings); validated at setup against Python codecs cp1252 and mac_roman on every shared cell, against refpdf::textstr for PDFDocEncoding and against a second, code-ordered transcription for StandardEncoding");
    rep.assume("cells a table leaves unassigned (controls 0x00-0x1F; WinAnsi 7F 81 8D 8F 90 9D, which the footnote maps to bullet 'subject to future reassignment'; the 15 Mac OS Roman codes MacRomanEncoding lacks; the gaps of StandardEncoding; PDFDoc 7F 9F AD and 00-17 except HT LF CR) are excluded from decode comparison and counted; encoding a character outside the repertoire to such a cell is accepted when the library's own decoder reads it back");
    rep.assume("WinAnsi 0xA0 / MacRoman 0xCA (footnote: nonbreaking space) accept U+00A0 or U+0020, WinAnsi 0xAD (footnote: soft hyphen) accepts U+00AD or U+002D");
    rep.assume("a lossy encode() may substitute an unencodable character only if encode_strict() reports that character");
    rep.assume("surrogate code points D800-DFFF cannot be passed through the &str/char API and are not inputs: 0x110000 - 2048 = 1 112 064 scalar values per encoding");
    rep.note(
        "excluded_cells",
        json!(re::ALL.iter().map(|e| (e.name().to_string(), json!({
            "unassigned_codes": re::undefined_codes(*e).len(),
            "assigned_codes": re::repertoire(*e).len(),
        }))).collect::<serde_json::Map<_, _>>()),
    );
    rep.note("complete", json!("all 256 bytes x 11 decode entry points, all 1 112 064 scalar values x 4 encodings x 2 encode entry points, all 65 536 byte pairs x 11 decode entry points — exhaustive, nothing sampled, in both tiers"));

    // ---------------------------------------------------------------- decode
    rep.explore("decode", Explore::full(), |c: &mut Ctx| {
        let (d, e) = *c.pick_from("entry-encoding", &DEC_POINTS);
        c.input(vx::h64(&(d, e)));
        c.nontrivial();
        let mut got: Vec<Option<String>> = Vec::with_capacity(256);
        for b in 0u16..256 {
            match lib_decode(d, e, &[b as u8]) {
                Ok(g) => got.push(g),
                Err(p) => {
                    c.fail(format!("C25/{}-{}-decode-panics", d.short(), short(e)), format!("byte 0x{b:02X}: {p}"));
                    return;
                }
            }
        }
        c.add_evaluations(256);
        c.outcome(vx::h64(&got));
        let bad: Vec<u8> = (0u16..256).map(|b| b as u8).filter(|&b| !decode_cell_ok(e, b, &got[b as usize])).collect();
        let undef = re::undefined_codes(e).len();
        c.sample(json!({"entry": d.short(), "encoding": e.name(), "bytes": "00..=FF", "assigned_cells": 256 - undef,
                        "excluded_unassigned_cells": undef, "wrong_cells": bad.len()}));
        if bad.is_empty() {
            return;
        }
        // recognise a known wrong model: it must reproduce the library's answer on every assigned cell
        let model = (0..DEC_MODELS.len()).find(|&i| {
            (0u16..256).map(|b| b as u8).filter(|&b| re::decode(e, b) != Cell::Undef).all(|b| dec_model(i, b) == got[b as usize])
        });
        let key = match model {
            Some(i) => format!("C25/{}-{}-decodes-as-{}", d.short(), short(e), DEC_MODELS[i]),
            None => format!("C25/{}-{}-decode-mismatch", d.short(), short(e)),
        };
        let first: Vec<String> = bad
            .iter()
            .take(6)
            .map(|&b| {
                let Cell::Def(w) = re::decode(e, b) else { unreachable!() };
                format!(
                    "0x{b:02X} want U+{:04X} ({}) got {}",
                    w as u32,
                    re::glyph_name(e, b).unwrap_or("?"),
                    got[b as usize].as_deref().map(ucp).unwrap_or_else(|| "error".into())
                )
            })
            .collect();
        c.fail(key, format!("{} {}: {} of {} assigned cells wrong; first: {}", d.short(), e.name(), bad.len(), 256 - undef, first.join("; ")));
    });

    // ---------------------------------------------------------------- encode
    const ENTRIES: [EncEntry; 2] = [EncEntry::Strict, EncEntry::Lossy];
    rep.explore("encode", Explore::full(), |c: &mut Ctx| {
        let entry = *c.pick_from("entry", &ENTRIES);
        let e = *c.pick_from("encoding", &re::ALL);
        let plane = c.choose("plane", 17) as u32;
        c.input(vx::h64(&(entry, e, plane)));
        if plane == 0 {
            c.nontrivial();
        }
        let le = lib_enc(e);
        let mut oh = 0u64;
        let mut n = 0u64;
        let mut bad: Vec<(char, &'static str, String)> = Vec::new();
        let mut nbad = 0usize;
        let mut strict_tab: Vec<Result<Vec<u8>, char>> = Vec::new();
        let mut lossy_tab: Vec<Vec<u8>> = Vec::new();
        let mut buf = [0u8; 4];
        for ch in scalars(plane) {
            let s: &str = ch.encode_utf8(&mut buf);
            let strict = le.encode_strict(s);
            let verdict = match entry {
                EncEntry::Strict => {
                    let v = strict_verdict(e, ch, &strict);
                    oh = vx::hmix(oh, vx::h64(&strict));
                    if v.is_err() && bad.len() < 6 {
                        bad.push((ch, v.unwrap_err(), format!("{strict:02X?}")));
                    }
                    if plane == 0 {
                        strict_tab.push(strict);
                    }
                    v
                }
                EncEntry::Lossy => {
                    let lossy = le.encode(s);
                    let v = lossy_verdict(e, ch, &lossy, &strict);
                    oh = vx::hmix(oh, vx::hbytes(&lossy));
                    if v.is_err() && bad.len() < 6 {
                        bad.push((ch, v.unwrap_err(), format!("{lossy:02X?} (encode_strict: {strict:02X?})")));
                    }
                    if plane == 0 {
                        lossy_tab.push(lossy);
                    }
                    v
                }
            };
            if verdict.is_err() {
                nbad += 1;
            }
            n += 1;
        }
        c.add_evaluations(n);
        c.outcome(oh);
        c.sample(json!({"entry": entry.short(), "encoding": e.name(), "code_points": format!("U+{:04X}..=U+{:04X}", plane << 16, (plane << 16) + 0xFFFF),
                        "scalar_values": n, "wrong": nbad}));
        if nbad == 0 {
            return;
        }
        // recognise a known wrong model over the complete plane 0 table
        let model = if plane == 0 {
            (0..ENC_MODELS.len()).find(|&i| match entry {
                EncEntry::Strict => scalars(0).zip(strict_tab.iter()).all(|(ch, g)| strict_model(i, ch).as_ref() == Some(g)),
                EncEntry::Lossy => scalars(0).zip(lossy_tab.iter()).all(|(ch, g)| lossy_model(i, ch).as_ref() == Some(g)),
            })
        } else {
            None
        };
        let key = match model {
            Some(i) => format!("C25/textencoding-{}-{}-is-{}", short(e), entry.short(), ENC_MODELS[i]),
            None => format!("C25/textencoding-{}-{}-mismatch", short(e), entry.short()),
        };
        let first: Vec<String> = bad
            .iter()
            .map(|(ch, why, got)| {
                format!("U+{:04X} want {} got {got}: {why}", *ch as u32, re::encode(e, *ch).map(|b| format!("[{b:02X}]")).unwrap_or_else(|| "reported as unencodable".into()))
            })
            .collect();
        c.fail(key, format!("{} {} plane {plane}: {nbad} of {n} code points wrong; first: {}", entry.short(), e.name(), first.join("; ")));
    });

    // ---------------------------------------------------------------- roundtrip (library only)
    rep.explore("roundtrip", Explore::full(), |c: &mut Ctx| {
        let e = *c.pick_from("encoding", &re::ALL);
        c.input(vx::h64(&e));
        c.nontrivial();
        let le = lib_enc(e);
        let rep_ = re::repertoire(e);
        // characters: decode(encode(c)) == c ; codes: encode(decode(b)) == [b]
        let mut bad_chars: Vec<char> = Vec::new();
        let mut bad_codes: Vec<u8> = Vec::new();
        for (b, ch) in &rep_ {
            let enc = le.encode(&ch.to_string());
            if le.decode(&enc) != ch.to_string() {
                bad_chars.push(*ch);
            }
            let dec = le.decode(&[*b]);
            if le.encode(&dec) != [*b] {
                bad_codes.push(*b);
            }
        }
        c.add_evaluations(2 * rep_.len() as u64);
        c.outcome(vx::h64(&(&bad_chars, &bad_codes)));
        c.sample(json!({"encoding": e.name(), "repertoire": rep_.len(), "chars_not_round_tripping": bad_chars.len(), "codes_not_round_tripping": bad_codes.len()}));
        if bad_chars.is_empty() && bad_codes.is_empty() {
            return;
        }
        // known signatures: exactly the assigned codes above 0xAF (MacRoman table that stops
        // there); exactly the assigned codes above 0x7F (UTF-8 pass-through: a lone high byte
        // is not UTF-8, while every character survives as its UTF-8 bytes)
        let above = |lim: u8| rep_.iter().filter(|(b, _)| *b > lim).map(|(b, _)| *b).collect::<Vec<u8>>();
        let above_chars = |lim: u8| rep_.iter().filter(|(b, _)| *b > lim).map(|(_, ch)| *ch).collect::<Vec<char>>();
        let key = if bad_codes == above(0xAF) && bad_chars == above_chars(0xAF) {
            format!("C25/textencoding-{}-roundtrip-lost-above-AF", short(e))
        } else if bad_codes == above(0x7F) && bad_chars.is_empty() {
            format!("C25/textencoding-{}-roundtrip-codes-above-7F-lost-utf8", short(e))
        } else {
            format!("C25/textencoding-{}-roundtrip-mismatch", short(e))
        };
        c.fail(
            key,
            format!(
                "{}: {} repertoire characters do not survive decode(encode(c)) (first {:?}); {} assigned codes do not survive encode(decode(b)) (first {:02X?})",
                e.name(), bad_chars.len(), bad_chars.iter().take(4).map(|ch| format!("U+{:04X}", *ch as u32)).collect::<Vec<_>>(),
                bad_codes.len(), &bad_codes[..bad_codes.len().min(6)]
            ),
        );
    });

    // ---------------------------------------------------------------- pairs: decode is byte-wise
    rep.explore("pairs-decode", Explore::full(), |c: &mut Ctx| {
        let (d, e) = *c.pick_from("entry-encoding", &DEC_POINTS);
        let b1 = c.choose("first-byte", 256) as u8;
        c.input(vx::h64(&(d, e, b1)));
        c.nontrivial();
        let single: Vec<Option<String>> = (0u16..256).map(|b| lib_decode(d, e, &[b as u8]).unwrap_or(None)).collect();
        let mut oh = 0u64;
        let mut bad: Vec<(u8, Option<String>, Option<String>)> = Vec::new();
        let mut nbad = 0;
        let mut all_utf8 = true;
        for b2 in 0u16..256 {
            let b2 = b2 as u8;
            // a text string starting FE FF is UTF-16BE with a byte order mark, not PDFDocEncoding
            if d == Dec::ToText && b1 == 0xFE && b2 == 0xFF {
                continue;
            }
            let got = match lib_decode(d, e, &[b1, b2]) {
                Ok(g) => g,
                Err(p) => {
                    c.fail(format!("C25/{}-{}-decode-panics", d.short(), short(e)), format!("bytes {b1:02X} {b2:02X}: {p}"));
                    return;
                }
            };
            let want = match (&single[b1 as usize], &single[b2 as usize]) {
                (Some(a), Some(b)) => Some(format!("{a}{b}")),
                _ => None,
            };
            oh = vx::hmix(oh, vx::h64(&got));
            if got != want {
                nbad += 1;
                if got.as_deref() != Some(&*String::from_utf8_lossy(&[b1, b2])) {
                    all_utf8 = false;
                }
                if bad.len() < 4 {
                    bad.push((b2, want, got));
                }
            }
        }
        c.add_evaluations(256);
        c.outcome(oh);
        c.sample(json!({"entry": d.short(), "encoding": e.name(), "first_byte": format!("{b1:02X}"), "second_bytes": "00..=FF", "not_bytewise": nbad}));
        if nbad > 0 {
            let key = if all_utf8 {
                format!("C25/{}-{}-decodes-byte-pairs-as-utf8", d.short(), short(e))
            } else {
                format!("C25/{}-{}-decode-not-bytewise", d.short(), short(e))
            };
            let first: Vec<String> = bad
                .iter()
                .map(|(b2, w, g)| format!("{b1:02X} {b2:02X}: separately {} together {}", w.as_deref().map(ucp).unwrap_or("error".into()), g.as_deref().map(ucp).unwrap_or("error".into())))
                .collect();
            c.fail(key, format!("{} {}: {nbad} second bytes after {b1:02X} decode differently in a pair; first: {}", d.short(), e.name(), first.join("; ")));
        }
    });

    // ---------------------------------------------------------------- text extraction with a simple font
    const EXTRACT_ENCS: [Enc; 3] = [Enc::WinAnsi, Enc::MacRoman, Enc::Standard];
    rep.explore("extract", Explore::full(), |c: &mut Ctx| {
        let e = *c.pick_from("encoding", &EXTRACT_ENCS);
        let as_dict = c.flag("encoding-as-dictionary-with-BaseEncoding");
        c.input(vx::h64(&(e, as_dict)));
        c.nontrivial();
        let mut got: Vec<Option<String>> = Vec::with_capacity(256);
        for b in 0u16..256 {
            match extract::shown_byte(e, as_dict, b as u8) {
                Ok(t) => got.push(t),
                Err(p) => {
                    c.fail(format!("C25/extract-{}-fails", short(e)), format!("byte 0x{b:02X}: {p}"));
                    return;
                }
            }
        }
        c.add_evaluations(256);
        c.outcome(vx::h64(&got));
        // comparable cells: assigned, and the character is visible (white space and the soft
        // hyphen may legitimately be normalised by an extractor)
        let comparable = |b: u8| matches!(re::decode(e, b), Cell::Def(ch) if !ch.is_whitespace() && ch != '\u{00AD}');
        let bad: Vec<u8> = (0u16..256).map(|b| b as u8).filter(|&b| comparable(b) && !decode_cell_ok(e, b, &got[b as usize])).collect();
        let ncomp = (0u16..256).filter(|b| comparable(*b as u8)).count();
        c.sample(json!({"entry": "TextExtractor, simple font", "encoding": e.name(), "encoding_as_dictionary": as_dict, "bytes": "00..=FF",
                        "compared_cells": ncomp, "excluded_cells": 256 - ncomp, "wrong_cells": bad.len()}));
        if bad.is_empty() {
            return;
        }
        let model = (0..extract::MODELS.len()).rev().find(|&i| (0u16..256).map(|b| b as u8).filter(|&b| comparable(b)).all(|b| Some(extract::model(i, b).to_string()) == got[b as usize]));
        let key = match model {
            Some(i) => format!("C25/extract-{}-decodes-as-{}", short(e), extract::MODELS[i]),
            None => format!("C25/extract-{}-decode-mismatch", short(e)),
        };
        let first: Vec<String> = bad
            .iter()
            .take(6)
            .map(|&b| {
                let Cell::Def(w) = re::decode(e, b) else { unreachable!() };
                format!("0x{b:02X} want U+{:04X} ({}) got {}", w as u32, re::glyph_name(e, b).unwrap_or("?"), got[b as usize].as_deref().map(ucp).unwrap_or_else(|| "nothing between A and B".into()))
            })
            .collect();
        c.fail(key, format!("text extraction, font /Encoding {}{}: {} of {ncomp} compared cells wrong; first: {}", e.name(), if as_dict { " (as /BaseEncoding)" } else { "" }, bad.len(), first.join("; ")));
    });

    // ---------------------------------------------------------------- pairs: encode is character-wise
    rep.explore("pairs-encode", Explore::full(), |c: &mut Ctx| {
        let e = *c.pick_from("encoding", &re::ALL);
        let mut chars: Vec<char> = re::repertoire(e).into_iter().map(|(_, ch)| ch).collect();
        chars.extend(['\u{0100}', '\u{4E2D}', '\u{1F600}']);
        let i1 = c.choose("first-char", chars.len());
        let c1 = chars[i1];
        c.input(vx::h64(&(e, c1)));
        c.nontrivial();
        let le = lib_enc(e);
        let s1 = le.encode_strict(&c1.to_string());
        let l1 = le.encode(&c1.to_string());
        let mut oh = 0u64;
        let mut nbad = 0;
        let mut first = String::new();
        for &c2 in &chars {
            let pair: String = [c1, c2].iter().collect();
            let s2 = le.encode_strict(&c2.to_string());
            let l2 = le.encode(&c2.to_string());
            let want_strict: Result<Vec<u8>, char> = match (&s1, &s2) {
                (Err(ch), _) => Err(*ch),
                (Ok(_), Err(ch)) => Err(*ch),
                (Ok(a), Ok(b)) => Ok([a.as_slice(), b.as_slice()].concat()),
            };
            let want_lossy = [l1.as_slice(), l2.as_slice()].concat();
            let gs = le.encode_strict(&pair);
            let gl = le.encode(&pair);
            oh = vx::hmix(oh, vx::h64(&(&gs, &gl)));
            if gs != want_strict || gl != want_lossy {
                nbad += 1;
                if first.is_empty() {
                    first = format!("U+{:04X} U+{:04X}: strict {gs:02X?} want {want_strict:02X?}; lossy {gl:02X?} want {want_lossy:02X?}", c1 as u32, c2 as u32);
                }
            }
        }
        c.add_evaluations(chars.len() as u64);
        c.outcome(oh);
        c.sample(json!({"encoding": e.name(), "first_char": format!("U+{:04X}", c1 as u32), "second_chars": chars.len(), "not_characterwise": nbad}));
        if nbad > 0 {
            c.fail(format!("C25/textencoding-{}-encode-not-characterwise", short(e)), format!("{}: {nbad} pairs; first {first}", e.name()));
        }
    });
}

/// One byte shown with a simple (Type1, non-embedded Helvetica) font whose /Encoding names a
/// predefined encoding, extracted with the library's TextExtractor.
mod extract {
    use super::*;
    use oxidize_pdf::parser::{PdfDocument, PdfReader};
    use oxidize_pdf::text::TextExtractor;
    use refpdf::builder::{FileBuilder, Revision, XrefForm};
    use refpdf::syntax::Obj;
    use std::io::Cursor;

    pub const MODELS: [&str; 3] = ["windows-1252-with-ascii-double-quotes-at-93-94", "mac-table-ends-at-9F-then-latin-1", "latin-1"];
    pub fn model(i: usize, b: u8) -> char {
        match i {
            0 => match b {
                0x93 | 0x94 => '"',
                _ => cp1252_c1(b),
            },
            1 => match b {
                0x80..=0x9F => re::macos_roman(b),
                _ => b as char,
            },
            _ => b as char,
        }
    }

    fn build(e: Enc, as_dict: bool, b: u8) -> Vec<u8> {
        let enc_name = Obj::name(e.name());
        let encoding = if as_dict { Obj::dict(vec![("Type", Obj::name("Encoding")), ("BaseEncoding", enc_name)]) } else { enc_name };
        let mut r = Revision::new(XrefForm::Table);
        r.add(1, Obj::dict(vec![("Type", Obj::name("Catalog")), ("Pages", Obj::Ref(2, 0))]));
        r.add(2, Obj::dict(vec![("Type", Obj::name("Pages")), ("Kids", Obj::Array(vec![Obj::Ref(3, 0)])), ("Count", Obj::Int(1))]));
        r.add(
            3,
            Obj::dict(vec![
                ("Type", Obj::name("Page")),
                ("Parent", Obj::Ref(2, 0)),
                ("MediaBox", Obj::Array(vec![Obj::Int(0), Obj::Int(0), Obj::Int(612), Obj::Int(792)])),
                ("Resources", Obj::dict(vec![("Font", Obj::dict(vec![("F1", Obj::Ref(4, 0))]))])),
                ("Contents", Obj::Ref(5, 0)),
            ]),
        );
        r.add(4, Obj::dict(vec![("Type", Obj::name("Font")), ("Subtype", Obj::name("Type1")), ("BaseFont", Obj::name("Helvetica")), ("Encoding", encoding)]));
        r.add(5, Obj::stream(vec![], format!("BT /F1 12 Tf 72 720 Td <41{b:02X}42> Tj ET").into_bytes()));
        let mut fb = FileBuilder::new(1);
        fb.revisions.push(r);
        fb.build().bytes
    }

    /// Ok(Some(text between A and B)), Ok(None) when the extracted text is not `A..B`.
    pub fn shown_byte(e: Enc, as_dict: bool, b: u8) -> Result<Option<String>, String> {
        let bytes = build(e, as_dict, b);
        let text = vx::guard(|| -> Result<String, String> {
            let doc = PdfReader::new(Cursor::new(bytes)).map(PdfDocument::new).map_err(|e| format!("open: {e}"))?;
            let mut ex = TextExtractor::new();
            ex.extract_from_page(&doc, 0).map(|t| t.text).map_err(|e| format!("extract: {e}"))
        })
        .map_err(|p| format!("panic: {p}"))??;
        let t = text.trim_matches(|ch: char| ch == '\n' || ch == '\r' || ch == ' ');
        Ok(t.strip_prefix('A').and_then(|x| x.strip_suffix('B')).map(|x| x.to_string()))
    }
}
