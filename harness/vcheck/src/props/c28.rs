//! C28 — outlines and destinations written are navigable as authored.
//!
//! Space (all enumerated, nothing sampled):
//!  * `forest`: every ordered forest with ≤ N items (N = 5 quick / 7 thorough; 6 is the
//!    DESIGN bound: 197 shapes incl. the empty one) × every open/closed assignment ×
//!    destination scheme × title scheme × authoring route (OutlineItem/OutlineTree directly
//!    or OutlineBuilder push/add/pop) × named-destination set present or not.
//!  * `dests`: forests with ≤ 2 items × every per-item destination from the menu
//!    (3 pages × {page number, page reference} × 11 fit forms, or no destination).
//!  * `names`: every ordered selection of ≤ 2 (quick) / ≤ 3 (thorough) names out of 6
//!    (incl. `(`, a space and a non-ASCII character) × every destination of a reduced menu.
//!  * `configs`: forests with ≤ 3 items × open/closed × those of the 8 unencrypted writer
//!    configurations whose outline-less output the reference reader can read (the others are
//!    listed in the evidence as excluded).
//! Oracle (refpdf on the written bytes; ISO 32000-1 §12.3.3 Tables 152/153, §12.3.2.2
//! Table 151, §7.9.6): item objects are identified by their (unique) titles, independently of
//! the links; then /Parent /Prev /Next /First /Last of every item and /First /Last of the root
//! must be indirect references forming exactly the authored forest; /Count is the number of
//! descendants visible when the item is open, negated for a closed item, absent (or 0) for a
//! leaf; the root /Count is the total number of visible items; every /Dest (and every name in
//! /Names /Dests or the catalog /Dests dictionary) is `[page-object-reference /Kind args…]`
//! with the authored page, kind and arguments.
use oxidize_pdf::objects::ObjectId;
use oxidize_pdf::structure::{
    Destination, NamedDestinations, OutlineBuilder, OutlineItem, OutlineTree, PageDestination,
};
use oxidize_pdf::writer::{PdfWriter, WriterConfig};
use oxidize_pdf::{Document, Page, Point, Rectangle};
use refpdf::file::PdfFile;
use refpdf::syntax::Obj;
use serde_json::json;
use std::collections::BTreeMap;
use std::sync::OnceLock;
use vx::{Ctx, Explore, Report};

pub const BUILT: bool = true;

const NPAGES: usize = 3;

// ------------------------------------------------------------------ authored model

/// Fit forms of Table 151. `None` argument = PDF null.
#[derive(Clone, Copy, Debug, PartialEq, Hash)]
enum Fit {
    Xyz(Option<i32>, Option<i32>, Option<i32>), // values in 1/2 units so that .5 is representable
    Fit,
    FitH(Option<i32>),
    FitV(Option<i32>),
    FitR(i32, i32, i32, i32),
    FitB,
    FitBH(Option<i32>),
    FitBV(Option<i32>),
}
fn half(v: i32) -> f64 {
    v as f64 / 2.0
}
const FIT_MENU: [Fit; 11] = [
    Fit::Fit,
    Fit::Xyz(None, None, None),
    Fit::Xyz(Some(20), Some(1401), Some(3)), // 10, 700.5, 1.5
    Fit::Xyz(Some(0), None, Some(0)),
    Fit::FitH(Some(1600)),
    Fit::FitH(None),
    Fit::FitV(Some(0)),
    Fit::FitR(20, 40, 400, 600),
    Fit::FitB,
    Fit::FitBH(Some(-10)),
    Fit::FitBV(None),
];

#[derive(Clone, Copy, Debug, PartialEq, Hash)]
struct DestSpec {
    page: usize,
    by_ref: bool,
    fit: Fit,
}

impl DestSpec {
    fn to_lib(&self, page_ids: &[u32]) -> Destination {
        let p = if self.by_ref {
            PageDestination::PageRef(ObjectId::new(page_ids[self.page], 0))
        } else {
            PageDestination::PageNumber(self.page as u32)
        };
        let o = |v: Option<i32>| v.map(half);
        match self.fit {
            Fit::Xyz(l, t, z) => Destination::xyz(p, o(l), o(t), o(z)),
            Fit::Fit => Destination::fit(p),
            Fit::FitH(t) => Destination::fit_h(p, o(t)),
            Fit::FitV(l) => Destination::fit_v(p, o(l)),
            Fit::FitR(a, b, c, d) => Destination::fit_r(
                p,
                Rectangle::new(Point::new(half(a), half(b)), Point::new(half(c), half(d))),
            ),
            Fit::FitB => Destination::fit_b(p),
            Fit::FitBH(t) => Destination::fit_bh(p, o(t)),
            Fit::FitBV(l) => Destination::fit_bv(p, o(l)),
        }
    }
    /// (kind name, arguments) of Table 151.
    fn expected_tail(&self) -> (&'static str, Vec<Option<f64>>) {
        let o = |v: Option<i32>| v.map(half);
        match self.fit {
            Fit::Xyz(l, t, z) => ("XYZ", vec![o(l), o(t), o(z)]),
            Fit::Fit => ("Fit", vec![]),
            Fit::FitH(t) => ("FitH", vec![o(t)]),
            Fit::FitV(l) => ("FitV", vec![o(l)]),
            Fit::FitR(a, b, c, d) => ("FitR", vec![Some(half(a)), Some(half(b)), Some(half(c)), Some(half(d))]),
            Fit::FitB => ("FitB", vec![]),
            Fit::FitBH(t) => ("FitBH", vec![o(t)]),
            Fit::FitBV(l) => ("FitBV", vec![o(l)]),
        }
    }
}

#[derive(Clone, Debug)]
struct Node {
    parent: Option<usize>,
    children: Vec<usize>,
    open: bool,
    title: String,
    dest: Option<DestSpec>,
}

/// Forest in pre-order (= document order): node i's parent has a smaller index.
#[derive(Clone, Debug)]
struct Forest {
    nodes: Vec<Node>,
    roots: Vec<usize>,
}

impl Forest {
    fn from_depths(depths: &[usize]) -> Forest {
        let mut nodes: Vec<Node> = Vec::new();
        let mut roots = Vec::new();
        let mut stack: Vec<usize> = Vec::new(); // stack[d] = last node at depth d
        for (i, &d) in depths.iter().enumerate() {
            stack.truncate(d);
            let parent = stack.last().copied();
            nodes.push(Node { parent, children: vec![], open: true, title: String::new(), dest: None });
            match parent {
                Some(p) => nodes[p].children.push(i),
                None => roots.push(i),
            }
            stack.push(i);
        }
        Forest { nodes, roots }
    }
    fn siblings(&self, i: usize) -> &[usize] {
        match self.nodes[i].parent {
            Some(p) => &self.nodes[p].children,
            None => &self.roots,
        }
    }
    /// Descendants that appear when node i is (re)opened — Table 153.
    fn vis(&self, i: usize) -> i64 {
        self.nodes[i]
            .children
            .iter()
            .map(|&c| 1 + if self.nodes[c].open { self.vis(c) } else { 0 })
            .sum()
    }
    fn all_desc(&self, i: usize) -> i64 {
        self.nodes[i].children.iter().map(|&c| 1 + self.all_desc(c)).sum()
    }
    fn root_visible(&self) -> i64 {
        self.roots.iter().map(|&r| 1 + if self.nodes[r].open { self.vis(r) } else { 0 }).sum()
    }
    fn any_open_with_children(&self) -> bool {
        self.nodes.iter().any(|n| n.open && !n.children.is_empty())
    }
    fn describe(&self) -> String {
        fn rec(f: &Forest, i: usize, out: &mut String) {
            let n = &f.nodes[i];
            out.push_str(&format!("{}{}", i, if n.open { "" } else { "-" }));
            if !n.children.is_empty() {
                out.push('[');
                for (k, &c) in n.children.iter().enumerate() {
                    if k > 0 {
                        out.push(' ');
                    }
                    rec(f, c, out);
                }
                out.push(']');
            }
        }
        let mut s = String::new();
        for (k, &r) in self.roots.iter().enumerate() {
            if k > 0 {
                s.push(' ');
            }
            rec(self, r, &mut s);
        }
        if s.is_empty() {
            s.push_str("(empty)");
        }
        s
    }
}

const TITLE_ALPHA: [&str; 6] = ["A", "(", ")", "\\", "é", "€"];

fn title_for(scheme: usize, i: usize) -> String {
    match scheme {
        0 => format!("n{i}"),
        // every alphabet element appears within the first six items; the index keeps titles unique
        _ => format!("{}{}{}", TITLE_ALPHA[i % TITLE_ALPHA.len()], i, TITLE_ALPHA[(i + 2) % TITLE_ALPHA.len()]),
    }
}

fn dest_for(scheme: usize, i: usize) -> Option<DestSpec> {
    match scheme {
        // 0: every item, page by number, rotating pages, /Fit
        0 => Some(DestSpec { page: i % NPAGES, by_ref: false, fit: Fit::Fit }),
        // 1: rotating fit forms, pages in reverse, by number
        1 => Some(DestSpec { page: (NPAGES - 1) - (i % NPAGES), by_ref: false, fit: FIT_MENU[i % FIT_MENU.len()] }),
        // 2: page references (two-pass authoring), every second item without destination
        2 => {
            if i % 2 == 1 {
                None
            } else {
                Some(DestSpec { page: (i / 2) % NPAGES, by_ref: true, fit: FIT_MENU[(i + 3) % FIT_MENU.len()] })
            }
        }
        // 3: no destinations at all
        _ => None,
    }
}

fn mk_item(n: &Node, page_ids: &[u32]) -> OutlineItem {
    let mut it = OutlineItem::new(n.title.clone());
    if let Some(d) = &n.dest {
        it = it.with_destination(d.to_lib(page_ids));
    }
    if !n.open {
        it = it.closed();
    }
    it
}

fn build_direct(f: &Forest, page_ids: &[u32]) -> OutlineTree {
    fn rec(f: &Forest, i: usize, page_ids: &[u32]) -> OutlineItem {
        let mut it = mk_item(&f.nodes[i], page_ids);
        for &c in &f.nodes[i].children {
            it.add_child(rec(f, c, page_ids));
        }
        it
    }
    let mut t = OutlineTree::new();
    for &r in &f.roots {
        t.add_item(rec(f, r, page_ids));
    }
    t
}

fn build_with_builder(f: &Forest, page_ids: &[u32]) -> OutlineTree {
    fn rec(b: &mut OutlineBuilder, f: &Forest, i: usize, page_ids: &[u32]) {
        let it = mk_item(&f.nodes[i], page_ids);
        if f.nodes[i].children.is_empty() {
            b.add_item(it);
        } else {
            b.push_item(it);
            for &c in &f.nodes[i].children {
                rec(b, f, c, page_ids);
            }
            b.pop_item();
        }
    }
    let mut b = OutlineBuilder::new();
    for &r in &f.roots {
        rec(&mut b, f, r, page_ids);
    }
    b.build()
}

const NAME_MENU: [&str; 6] = ["a", "Z", "(", "a b", "é", "chapter.10"];

fn config_of(i: usize) -> WriterConfig {
    WriterConfig {
        use_xref_streams: i & 1 != 0,
        use_object_streams: i & 2 != 0,
        pdf_version: if i & 3 != 0 { "1.5" } else { "1.7" }.to_string(),
        compress_streams: i & 4 == 0,
        incremental_update: false,
    }
}
fn config_name(i: usize) -> String {
    format!(
        "xref={} objstm={} compress={}",
        if i & 1 != 0 { "stream" } else { "table" },
        i & 2 != 0,
        i & 4 == 0
    )
}

/// Object numbers of the page objects of an outline-less document with NPAGES pages: what a
/// caller of `PageDestination::PageRef` can learn from a first writing pass.
fn first_pass_page_ids() -> &'static Vec<u32> {
    static IDS: OnceLock<Vec<u32>> = OnceLock::new();
    IDS.get_or_init(|| {
        let mut doc = Document::new();
        for _ in 0..NPAGES {
            doc.add_page(Page::a4());
        }
        let bytes = doc.to_bytes().expect("first pass write");
        let f = PdfFile::parse(&bytes).expect("first pass parse");
        f.pages().expect("first pass pages").iter().map(|p| p.obj.expect("indirect page")).collect()
    })
}

fn write_doc(tree: Option<OutlineTree>, named: Option<NamedDestinations>, cfg: Option<usize>) -> Result<Vec<u8>, String> {
    let r = vx::guard(move || {
        let mut doc = Document::new();
        for _ in 0..NPAGES {
            doc.add_page(Page::a4());
        }
        if let Some(t) = tree {
            doc.set_outline(t);
        }
        if let Some(n) = named {
            doc.set_named_destinations(n);
        }
        match cfg {
            // stream compression is irrelevant to outlines and costs ~3 ms per page; the
            // `configs` section covers it
            None => {
                doc.set_compress(false);
                doc.to_bytes().map_err(|e| e.to_string())
            }
            Some(i) => {
                let mut buf = Vec::new();
                let mut w = PdfWriter::with_config(&mut buf, config_of(i));
                w.write_document(&mut doc).map_err(|e| e.to_string())?;
                drop(w);
                Ok(buf)
            }
        }
    });
    match r {
        Ok(Ok(b)) => Ok(b),
        Ok(Err(e)) => Err(format!("error: {e}")),
        Err(p) => Err(format!("panic: {p}")),
    }
}

// ------------------------------------------------------------------ reading back

#[derive(Clone, Debug, PartialEq, Eq, Hash)]
enum Tgt {
    Absent,
    Root,
    Node(usize),
    /// an indirect reference to something that is neither the root nor an item
    Stray(u32),
    /// not an indirect reference at all
    Direct(String),
}

const FIELDS: [&str; 5] = ["Parent", "Prev", "Next", "First", "Last"];

struct ReadBack {
    page_objs: Vec<u32>,
    /// per authored node: object number
    item_obj: Vec<u32>,
    root_obj: u32,
    /// per node, the five link fields; then the root's First/Last
    links: Vec<[Tgt; 5]>,
    root_links: [Tgt; 2],
    title_defect: Vec<Option<&'static str>>,
}

fn tgt_of(o: Option<&Obj>, root_obj: u32, obj_to_node: &BTreeMap<u32, usize>) -> Tgt {
    match o {
        None => Tgt::Absent,
        Some(Obj::Ref(n, 0)) if *n == root_obj => Tgt::Root,
        Some(Obj::Ref(n, 0)) => match obj_to_node.get(n) {
            Some(&i) => Tgt::Node(i),
            None => Tgt::Stray(*n),
        },
        Some(Obj::Ref(n, _)) => Tgt::Stray(*n),
        Some(other) => Tgt::Direct(other.type_name().to_string()),
    }
}

/// Why a title is or is not the authored one.
fn title_status(bytes: &[u8], want: &str) -> Result<Option<&'static str>, ()> {
    if refpdf::textstr::decode_text_string(bytes) == want {
        return Ok(None);
    }
    if bytes == want.as_bytes() {
        // the known defect of the string serializer: raw UTF-8 without a byte-order mark
        return Ok(Some("C28/title-written-as-raw-utf8-not-a-text-string"));
    }
    Err(())
}

fn read_back(c: &mut Ctx, f: &Forest, file: &PdfFile, ctx: &str) -> Option<ReadBack> {
    let pages = match file.pages() {
        Ok(p) => p,
        Err(e) => {
            c.fail("C28/page-tree-unreadable", format!("{ctx}: {e}"));
            return None;
        }
    };
    let page_objs: Vec<u32> = pages.iter().filter_map(|p| p.obj).collect();
    if page_objs.len() != NPAGES {
        c.fail("C28/page-tree-wrong", format!("{ctx}: {} indirect pages, expected {NPAGES}", page_objs.len()));
        return None;
    }
    let cat = match file.catalog() {
        Ok(c) => c,
        Err(e) => {
            c.fail("C28/catalog-unreadable", format!("{ctx}: {e}"));
            return None;
        }
    };
    let n = f.nodes.len();
    let root_obj = match cat.dict_get("Outlines") {
        None => {
            if n > 0 {
                c.fail("C28/outlines-entry-missing", format!("{ctx}: catalog has no /Outlines"));
            }
            return None;
        }
        Some(Obj::Ref(r, 0)) => *r,
        Some(other) => {
            c.fail("C28/outlines-not-indirect", format!("{ctx}: /Outlines is {other:?} (Table 28: indirect reference)"));
            return None;
        }
    };
    let root = file.get(root_obj);
    if root.as_dict().is_none() {
        c.fail("C28/outlines-root-not-a-dictionary", format!("{ctx}: object {root_obj} is {}", root.type_name()));
        return None;
    }
    // item objects, found without following any link: dictionaries with /Title and /Parent
    let mut found: Vec<(u32, Vec<u8>)> = Vec::new();
    for num in file.live_objects() {
        let o = file.get(num);
        if let Some(d) = o.as_dict() {
            if let (Some(t), Some(_)) = (d.get("Title"), d.get("Parent")) {
                match file.resolve(t) {
                    Obj::Str(s) => found.push((num, s)),
                    other => {
                        c.fail("C28/title-not-a-string", format!("{ctx}: object {num} /Title is {}", other.type_name()));
                        return None;
                    }
                }
            }
        }
    }
    let mut item_obj = vec![0u32; n];
    let mut title_defect = vec![None; n];
    let mut used = vec![false; found.len()];
    for (i, node) in f.nodes.iter().enumerate() {
        let mut hits = Vec::new();
        for (k, (num, bytes)) in found.iter().enumerate() {
            if let Ok(st) = title_status(bytes, &node.title) {
                hits.push((k, *num, st));
            }
        }
        if hits.len() != 1 {
            c.fail(
                "C28/item-object-missing-or-duplicated",
                format!(
                    "{ctx}: authored item {i} title {:?} matches {} written objects; written titles: {:?}",
                    node.title,
                    hits.len(),
                    found.iter().map(|(n, b)| format!("{n}:{}", vx::show_bytes(b, 24))).collect::<Vec<_>>()
                ),
            );
            return None;
        }
        used[hits[0].0] = true;
        item_obj[i] = hits[0].1;
        title_defect[i] = hits[0].2;
    }
    if used.iter().any(|u| !u) {
        c.fail(
            "C28/extra-item-objects",
            format!("{ctx}: {} outline item objects written for {n} authored items", found.len()),
        );
        return None;
    }
    let obj_to_node: BTreeMap<u32, usize> = item_obj.iter().enumerate().map(|(i, &o)| (o, i)).collect();
    let mut links = Vec::with_capacity(n);
    for i in 0..n {
        let o = file.get(item_obj[i]);
        let d = o.as_dict().unwrap();
        let l: [Tgt; 5] = std::array::from_fn(|k| tgt_of(d.get(FIELDS[k]), root_obj, &obj_to_node));
        links.push(l);
    }
    let rd = root.as_dict().unwrap();
    let root_links = [tgt_of(rd.get("First"), root_obj, &obj_to_node), tgt_of(rd.get("Last"), root_obj, &obj_to_node)];
    Some(ReadBack { page_objs, item_obj, root_obj, links, root_links, title_defect })
}

fn opt(o: Option<usize>) -> Tgt {
    o.map(Tgt::Node).unwrap_or(Tgt::Absent)
}

/// The authored link structure.
fn correct_links(f: &Forest) -> (Vec<[Tgt; 5]>, [Tgt; 2]) {
    let mut v = Vec::new();
    for (i, n) in f.nodes.iter().enumerate() {
        let sib = f.siblings(i);
        let k = sib.iter().position(|&x| x == i).unwrap();
        v.push([
            n.parent.map(Tgt::Node).unwrap_or(Tgt::Root),
            opt(if k > 0 { Some(sib[k - 1]) } else { None }),
            opt(sib.get(k + 1).copied()),
            opt(n.children.first().copied()),
            opt(n.children.last().copied()),
        ]);
    }
    (v, [opt(f.roots.first().copied()), opt(f.roots.last().copied())])
}

/// What `write_outline_tree`/`write_outline_item` are known to produce (KF-C28-1): object ids
/// are reserved as one flat run and handed out in pre-order, but /Prev, /Next and /Last are
/// computed as `ids[first_idx + k ± 1]` / `ids[first_idx + len - 1]` as if the siblings were
/// adjacent in that run. In pre-order numbering "ids[j]" simply is node j.
fn flat_index_links(f: &Forest) -> (Vec<[Tgt; 5]>, [Tgt; 2]) {
    let mut v = Vec::new();
    for (i, n) in f.nodes.iter().enumerate() {
        let sib = f.siblings(i);
        let k = sib.iter().position(|&x| x == i).unwrap();
        let first_idx = sib[0];
        v.push([
            n.parent.map(Tgt::Node).unwrap_or(Tgt::Root),
            opt(if k > 0 { Some(first_idx + k - 1) } else { None }),
            opt(if k + 1 < sib.len() { Some(first_idx + k + 1) } else { None }),
            opt(n.children.first().copied()),
            opt(n.children.first().map(|&fc| fc + n.children.len() - 1)),
        ]);
    }
    let r = [opt(f.roots.first().copied()), opt(f.roots.first().map(|&r0| r0 + f.roots.len() - 1))];
    (v, r)
}

/// Order in which a reader walking /First and /Next meets the items (cut at 3n steps).
fn reader_order(rb: &ReadBack, n: usize) -> Vec<String> {
    let mut out = Vec::new();
    fn walk(rb: &ReadBack, start: &Tgt, out: &mut Vec<String>, budget: &mut usize) {
        let mut cur = start.clone();
        loop {
            if *budget == 0 {
                out.push("…".into());
                return;
            }
            *budget -= 1;
            match cur {
                Tgt::Node(i) => {
                    out.push(i.to_string());
                    if rb.links[i][3] != Tgt::Absent {
                        out.push("[".into());
                        let first = rb.links[i][3].clone();
                        walk(rb, &first, out, budget);
                        out.push("]".into());
                    }
                    cur = rb.links[i][2].clone();
                }
                Tgt::Absent => return,
                other => {
                    out.push(format!("{other:?}"));
                    return;
                }
            }
        }
    }
    let mut budget = 3 * n + 3;
    walk(rb, &rb.root_links[0], &mut out, &mut budget);
    out
}

fn check_links(c: &mut Ctx, f: &Forest, rb: &ReadBack, ctx: &str) -> u64 {
    let (want, want_root) = correct_links(f);
    if rb.links == want && rb.root_links == want_root {
        return 1;
    }
    let (flat, flat_root) = flat_index_links(f);
    let order = reader_order(rb, f.nodes.len()).join(" ");
    if rb.links == flat && rb.root_links == flat_root {
        // exact signature of the known defect; anything else gets its own key below
        let (i, k) = (0..f.nodes.len())
            .flat_map(|i| (0..5).map(move |k| (i, k)))
            .find(|&(i, k)| rb.links[i][k] != want[i][k])
            .unwrap_or((usize::MAX, 0));
        let first = if i == usize::MAX {
            format!("root /Last = {:?}, authored {:?}", rb.root_links[1], want_root[1])
        } else {
            format!("item {i} /{} = {:?}, authored {:?}", FIELDS[k], rb.links[i][k], want[i][k])
        };
        c.fail(
            "C28/sibling-links-indexed-flat-while-ids-are-handed-out-depth-first",
            format!("{ctx}: {first}; a reader walking /First,/Next sees: {order}"),
        );
        return 2;
    }
    for k in 0..2 {
        if rb.root_links[k] != want_root[k] {
            c.fail(
                format!("C28/root-{}-wrong", ["first", "last"][k]),
                format!("{ctx}: root /{} = {:?}, authored {:?}; reader order: {order}", ["First", "Last"][k], rb.root_links[k], want_root[k]),
            );
        }
    }
    for i in 0..f.nodes.len() {
        for k in 0..5 {
            if rb.links[i][k] != want[i][k] {
                let kind = match &rb.links[i][k] {
                    Tgt::Direct(_) => "not-an-indirect-reference",
                    Tgt::Stray(_) => "points-outside-the-outline",
                    Tgt::Absent => "missing",
                    _ if want[i][k] == Tgt::Absent => "present-but-should-be-absent",
                    _ => "wrong",
                };
                c.fail(
                    format!("C28/{}-{kind}", FIELDS[k].to_lowercase()),
                    format!(
                        "{ctx}: item {i} (object {}) /{} = {:?}, authored {:?}; reader order: {order}",
                        rb.item_obj[i], FIELDS[k], rb.links[i][k], want[i][k]
                    ),
                );
            }
        }
    }
    3
}

fn check_counts(c: &mut Ctx, f: &Forest, rb: &ReadBack, file: &PdfFile, ctx: &str) -> u64 {
    let mut oh = 0u64;
    for (i, n) in f.nodes.iter().enumerate() {
        let o = file.get(rb.item_obj[i]);
        let got = o.dict_get("Count").map(|x| file.resolve(x));
        let got_i = got.as_ref().and_then(|g| g.as_int());
        if got.is_some() && got_i.is_none() {
            c.fail("C28/count-not-an-integer", format!("{ctx}: item {i} /Count = {got:?}"));
            continue;
        }
        if n.children.is_empty() {
            if !matches!(got_i, None | Some(0)) {
                c.fail("C28/count-on-leaf", format!("{ctx}: leaf item {i} has /Count {got_i:?}"));
            }
            continue;
        }
        let vis = f.vis(i);
        let want = if n.open { vis } else { -vis };
        oh = vx::hmix(oh, vx::h64(&(i, got_i == Some(want))));
        if got_i == Some(want) {
            continue;
        }
        let all = f.all_desc(i);
        let key = match got_i {
            None => "C28/count-missing-on-item-with-children",
            // known defect KF-C28-2: a closed item counts all descendants, also those that stay
            // hidden inside closed children when it is reopened
            Some(g) if !n.open && g == -all && all != vis => "C28/closed-item-count-includes-descendants-hidden-in-closed-children",
            Some(g) if g == -want => "C28/count-sign-wrong",
            Some(_) => "C28/count-wrong",
        };
        c.fail(
            key,
            format!(
                "{ctx}: item {i} ({}) /Count = {got_i:?}, Table 153 gives {want} ({vis} descendants appear when it is open; {all} descendants in total)",
                if n.open { "open" } else { "closed" }
            ),
        );
    }
    // root
    let root = file.get(rb.root_obj);
    let got = root.dict_get("Count").map(|x| file.resolve(x));
    let got_i = got.as_ref().and_then(|g| g.as_int());
    let want = f.root_visible();
    let ok = match (&got, got_i) {
        (None, _) => !f.any_open_with_children(), // Table 152: omitted when there are no open items
        (Some(_), Some(g)) => g == want,
        (Some(_), None) => false,
    };
    if !ok {
        c.fail(
            if got_i.map(|g| g < 0).unwrap_or(false) { "C28/root-count-negative" } else { "C28/root-count-wrong" },
            format!("{ctx}: root /Count = {got:?}, Table 152 gives {want} visible items"),
        );
    }
    vx::hmix(oh, ok as u64)
}

/// Compare one written destination with the authored one. Returns the violation (key, detail).
fn check_dest_value(file: &PdfFile, page_objs: &[u32], got: &Obj, want: &DestSpec) -> Result<(), (String, String)> {
    let mut v = file.resolve(got);
    // a destination may be wrapped in a dictionary with /D (§12.3.2.3)
    if let Some(d) = v.as_dict() {
        match d.get("D") {
            Some(x) => v = file.resolve(x),
            None => return Err(("C28/dest-dictionary-without-D".into(), format!("{v:?}"))),
        }
    }
    let Some(arr) = v.as_array() else {
        return Err(("C28/dest-not-an-array".into(), format!("{v:?}")));
    };
    let (kind, args) = want.expected_tail();
    let render = || format!("written {arr:?}, authored page {} (object {}) /{kind} {args:?}", want.page, page_objs[want.page]);
    if arr.is_empty() {
        return Err(("C28/dest-array-empty".into(), render()));
    }
    let mut page_problem = None;
    match &arr[0] {
        Obj::Ref(n, 0) if *n == page_objs[want.page] => {}
        Obj::Ref(n, _) => {
            let which = page_objs.iter().position(|p| p == n);
            page_problem = Some((
                if which.is_some() { "C28/dest-points-at-another-page" } else { "C28/dest-reference-is-not-a-page" }.to_string(),
                render(),
            ));
        }
        // known defect KF-C28-3: the zero-based page *index* of PageDestination::PageNumber is
        // written where Table 151 requires an indirect reference to the page object
        Obj::Int(k) if !want.by_ref && *k == want.page as i64 => {
            page_problem = Some(("C28/dest-page-written-as-integer-index-not-page-reference".to_string(), render()));
        }
        _ => page_problem = Some(("C28/dest-page-element-wrong".to_string(), render())),
    }
    // kind and arguments
    if arr.len() < 2 || arr[1].as_name() != Some(kind.as_bytes()) {
        return Err(("C28/dest-kind-wrong".into(), render()));
    }
    if arr.len() != 2 + args.len() {
        return Err(("C28/dest-argument-count-wrong".into(), render()));
    }
    for (a, w) in arr[2..].iter().zip(args.iter()) {
        let ok = match (a, w) {
            (Obj::Null, None) => true,
            (x, Some(w)) => x.as_num().map(|g| (g - w).abs() < 1e-6).unwrap_or(false),
            _ => false,
        };
        if !ok {
            return Err(("C28/dest-argument-wrong".into(), render()));
        }
    }
    match page_problem {
        Some(p) => Err(p),
        None => Ok(()),
    }
}

fn check_dests(c: &mut Ctx, f: &Forest, rb: &ReadBack, file: &PdfFile, ctx: &str) -> u64 {
    let mut oh = 0u64;
    for (i, n) in f.nodes.iter().enumerate() {
        let o = file.get(rb.item_obj[i]);
        let d = o.as_dict().unwrap();
        let got: Option<Obj> = match (d.get("Dest"), d.get("A")) {
            (Some(x), _) => Some(x.clone()),
            (None, Some(a)) => {
                let a = file.resolve(a);
                if a.dict_get("S").and_then(|s| s.as_name()) == Some(b"GoTo") {
                    a.dict_get("D").cloned()
                } else {
                    None
                }
            }
            _ => None,
        };
        let r = match (&got, &n.dest) {
            (None, None) => Ok(()),
            (Some(g), None) => Err(("C28/dest-on-item-authored-without-one".to_string(), format!("{g:?}"))),
            (None, Some(_)) => Err(("C28/dest-missing".to_string(), String::new())),
            (Some(g), Some(w)) => {
                // a named destination (name or string) is looked up first
                match file.resolve(g) {
                    Obj::Str(s) | Obj::Name(s) => match lookup_named(file, &s) {
                        Ok(Some(v)) => check_dest_value(file, &rb.page_objs, &v, w),
                        Ok(None) => Err(("C28/dest-name-unresolvable".to_string(), vx::show_bytes(&s, 40))),
                        Err(e) => Err(("C28/name-tree-unreadable".to_string(), e)),
                    },
                    _ => check_dest_value(file, &rb.page_objs, g, w),
                }
            }
        };
        oh = vx::hmix(oh, vx::h64(&(i, r.as_ref().err().map(|e| e.0.clone()))));
        if let Err((key, detail)) = r {
            c.fail(key, format!("{ctx}: item {i}: {detail}"));
        }
    }
    oh
}

// ------------------------------------------------------------------ named destinations

/// All (key, value) pairs of a name tree in file order, with the structural rules a reader's
/// binary search depends on (§7.9.6): keys ascending, every key within its node's /Limits.
fn name_tree_pairs(file: &PdfFile, node: &Obj, depth: usize, out: &mut Vec<(Vec<u8>, Obj)>, problems: &mut Vec<String>) -> Result<(), String> {
    if depth > 32 {
        return Err("name tree deeper than 32".into());
    }
    let n = file.resolve(node);
    let Some(d) = n.as_dict() else { return Err(format!("name tree node is {}", n.type_name())) };
    let start = out.len();
    if let Some(names) = d.get("Names") {
        let a = file.resolve(names);
        let a = a.as_array().ok_or("/Names is not an array")?;
        if a.len() % 2 != 0 {
            return Err("/Names has odd length".into());
        }
        for p in a.chunks(2) {
            match file.resolve(&p[0]) {
                Obj::Str(k) => out.push((k, p[1].clone())),
                other => return Err(format!("name tree key is {}", other.type_name())),
            }
        }
    }
    if let Some(kids) = d.get("Kids") {
        let a = file.resolve(kids);
        for k in a.as_array().ok_or("/Kids is not an array")? {
            name_tree_pairs(file, k, depth + 1, out, problems)?;
        }
    }
    if let Some(l) = d.get("Limits") {
        let l = file.resolve(l);
        let l = l.as_array().ok_or("/Limits is not an array")?;
        if l.len() != 2 {
            return Err("/Limits does not have 2 elements".into());
        }
        let lo = file.resolve(&l[0]);
        let hi = file.resolve(&l[1]);
        let (Some(lo), Some(hi)) = (lo.as_str_bytes(), hi.as_str_bytes()) else { return Err("/Limits elements are not strings".into()) };
        for (k, _) in &out[start..] {
            if k.as_slice() < lo || k.as_slice() > hi {
                problems.push(format!("key {:?} outside /Limits [{:?} {:?}]", vx::show_bytes(k, 24), vx::show_bytes(lo, 24), vx::show_bytes(hi, 24)));
            }
        }
        if out.len() > start && (out[start].0.as_slice() != lo || out[out.len() - 1].0.as_slice() != hi) {
            problems.push("/Limits are not the least and greatest key of the node".into());
        }
    }
    Ok(())
}

/// Named destinations of the document: name tree under /Names /Dests and the PDF 1.1 /Dests
/// dictionary of the catalog.
fn named_dests(file: &PdfFile) -> Result<(Vec<(Vec<u8>, Obj)>, Vec<String>), String> {
    let cat = file.catalog()?;
    let mut out = Vec::new();
    let mut problems = Vec::new();
    if let Some(names) = cat.dict_get("Names") {
        let names = file.resolve(names);
        if let Some(d) = names.dict_get("Dests") {
            name_tree_pairs(file, d, 0, &mut out, &mut problems)?;
            for w in out.windows(2) {
                if w[0].0 >= w[1].0 {
                    problems.push(format!("keys not strictly ascending: {:?} then {:?}", vx::show_bytes(&w[0].0, 24), vx::show_bytes(&w[1].0, 24)));
                }
            }
        }
    }
    if let Some(d) = cat.dict_get("Dests") {
        let d = file.resolve(d);
        if let Some(d) = d.as_dict() {
            for (k, v) in d.iter() {
                out.push((k.clone(), v.clone()));
            }
        }
    }
    Ok((out, problems))
}

fn lookup_named(file: &PdfFile, name: &[u8]) -> Result<Option<Obj>, String> {
    let (pairs, _) = named_dests(file)?;
    Ok(pairs.into_iter().find(|(k, _)| k == name).map(|(_, v)| v))
}

/// Accepted byte forms of an authored name: name-tree keys are byte strings without a
/// prescribed encoding in ISO 32000-1, so for a non-ASCII name both its UTF-8 bytes and its
/// text-string encoding are accepted.
fn name_forms(name: &str) -> Vec<Vec<u8>> {
    let mut v = vec![name.as_bytes().to_vec()];
    let t = refpdf::textstr::encode_text_string(name);
    if !v.contains(&t) {
        v.push(t);
    }
    v
}

fn check_named(c: &mut Ctx, file: &PdfFile, page_objs: &[u32], authored: &[(String, DestSpec)], ctx: &str) -> u64 {
    let (pairs, problems) = match named_dests(file) {
        Ok(x) => x,
        Err(e) => {
            c.fail("C28/name-tree-unreadable", format!("{ctx}: {e}"));
            return 0;
        }
    };
    for p in &problems {
        c.fail("C28/name-tree-order-or-limits-wrong", format!("{ctx}: {p}"));
    }
    let mut oh = 0u64;
    let mut matched = vec![false; pairs.len()];
    for (name, want) in authored {
        let forms = name_forms(name);
        let hit = pairs.iter().position(|(k, _)| forms.contains(k));
        let r = match hit {
            None => Err(("C28/named-destination-missing".to_string(), format!("written keys: {:?}", pairs.iter().map(|(k, _)| vx::show_bytes(k, 24)).collect::<Vec<_>>()))),
            Some(k) => {
                matched[k] = true;
                check_dest_value(file, page_objs, &pairs[k].1, want)
            }
        };
        oh = vx::hmix(oh, vx::h64(&(name, r.as_ref().err().map(|e| e.0.clone()))));
        if let Err((key, detail)) = r {
            c.fail(key, format!("{ctx}: name {name:?}: {detail}"));
        }
    }
    if matched.iter().any(|m| !m) {
        c.fail("C28/named-destination-not-authored", format!("{ctx}: written keys {:?}", pairs.iter().map(|(k, _)| vx::show_bytes(k, 24)).collect::<Vec<_>>()));
    }
    oh
}

// ------------------------------------------------------------------ one case

struct Case<'a> {
    forest: &'a Forest,
    builder_route: bool,
    named: &'a [(String, DestSpec)],
    named_present: bool,
    cfg: Option<usize>,
}

fn run_case(c: &mut Ctx, case: &Case) {
    let f = case.forest;
    let ids = first_pass_page_ids();
    let mut ctx = format!("forest {}", f.describe());
    if case.builder_route {
        ctx.push_str(" via OutlineBuilder");
    }
    if let Some(i) = case.cfg {
        ctx.push_str(&format!(" [{}]", config_name(i)));
    }
    let tree = if case.builder_route { build_with_builder(f, ids) } else { build_direct(f, ids) };
    let named = if case.named_present {
        let mut nd = NamedDestinations::new();
        for (name, d) in case.named {
            nd.add_destination(name.clone(), d.to_lib(ids).to_array());
        }
        Some(nd)
    } else {
        None
    };
    let bytes = match write_doc(Some(tree), named, case.cfg) {
        Ok(b) => b,
        Err(e) => {
            let key = if e.starts_with("panic") { format!("C28/write-panics@{}", vx::panic_site(&e)) } else { "C28/write-fails".to_string() };
            c.fail(key, format!("{ctx}: {e}"));
            return;
        }
    };
    let file = match PdfFile::parse(&bytes) {
        Ok(f) => f,
        Err(e) => {
            c.fail("C28/written-file-unreadable-by-reference-reader", format!("{ctx}: {e}"));
            return;
        }
    };
    let mut oh = 0u64;
    if let Some(rb) = read_back(c, f, &file, &ctx) {
        if &rb.page_objs != ids && f.nodes.iter().any(|n| n.dest.map(|d| d.by_ref).unwrap_or(false)) {
            // the two-pass authoring assumption of this check, not a library property
            c.fail("C28/CHECK-ASSUMPTION-page-object-numbers-changed-between-passes", format!("{ctx}: {ids:?} then {:?}", rb.page_objs));
        }
        for (i, d) in rb.title_defect.iter().enumerate() {
            if let Some(key) = d {
                c.fail(*key, format!("{ctx}: item {i} title {:?} is written as its UTF-8 bytes without byte-order mark; a reader decodes it as {:?}",
                    f.nodes[i].title,
                    refpdf::textstr::decode_text_string(f.nodes[i].title.as_bytes())));
            }
        }
        oh = vx::hmix(oh, check_links(c, f, &rb, &ctx));
        oh = vx::hmix(oh, check_counts(c, f, &rb, &file, &ctx));
        oh = vx::hmix(oh, check_dests(c, f, &rb, &file, &ctx));
        oh = vx::hmix(oh, vx::h64(&rb.links));
        if case.named_present {
            oh = vx::hmix(oh, check_named(c, &file, &rb.page_objs, case.named, &ctx));
        }
    } else if case.named_present && !c.failed() {
        // empty forest: still check the names
        if let Ok(pages) = file.pages() {
            let po: Vec<u32> = pages.iter().filter_map(|p| p.obj).collect();
            if po.len() == NPAGES {
                oh = vx::hmix(oh, check_named(c, &file, &po, case.named, &ctx));
            }
        }
    }
    c.outcome(oh);
    if c.want_sample() {
        c.sample(json!({
            "forest (pre-order index, '-' = closed)": f.describe(),
            "titles": f.nodes.iter().map(|n| n.title.clone()).collect::<Vec<_>>(),
            "dests": f.nodes.iter().map(|n| n.dest.map(|d| format!("{d:?}"))).collect::<Vec<_>>(),
            "route": if case.builder_route { "OutlineBuilder" } else { "OutlineItem::add_child" },
            "named": if case.named_present { json!(case.named.iter().map(|(n, d)| format!("{n:?} -> {d:?}")).collect::<Vec<_>>()) } else { json!(null) },
            "config": case.cfg.map(config_name),
            "file_len": bytes.len(),
        }));
    }
}

/// Choose a forest shape with at most `max_n` items: the depth of each item in pre-order.
fn choose_shape(c: &mut Ctx, max_n: usize) -> Vec<usize> {
    let n = c.choose("n_items", max_n + 1);
    let mut depths = Vec::with_capacity(n);
    for i in 0..n {
        let d = if i == 0 { 0 } else { c.choose("depth", depths[i - 1] + 2) };
        depths.push(d);
    }
    depths
}

pub fn run(rep: &mut Report) {
    let thorough = rep.tier.is_thorough();
    rep.rule("case = (forest shape as pre-order depth sequence, open/closed flag per item, destination scheme or per-item \
              destination, title scheme, authoring route, named-destination set, writer configuration); every case is \
              written by the library and re-read by refpdf; non-trivial = the forest has at least 2 items (a link \
              between items exists) or at least one named destination; distinct = distinct case hash");
    rep.assume("refpdf::file::PdfFile (xref, object streams, page tree) and refpdf::textstr decode the written bytes correctly");
    rep.assume("outline item objects are recognised as the dictionaries having /Title and /Parent, matched to authored items by \
                unique titles (decoded as text strings, or byte-equal to the title's UTF-8 for the known raw-UTF-8 defect)");
    rep.assume("PageDestination::PageRef is exercised by two-pass authoring: page object numbers are learned from an \
                outline-less first pass; the check flags its own assumption if the numbers move");
    rep.assume("root /Count omitted is accepted only when no item with children is open (Table 152); a leaf may carry no /Count or 0");
    rep.assume("name-tree keys of a non-ASCII name are accepted as UTF-8 bytes or as a text string (ISO 32000-1 does not prescribe an encoding)");
    let _ = first_pass_page_ids();

    // ---- forest
    let max_n = if thorough { 7 } else { 5 };
    rep.note("forest_bound", json!({"max_items": max_n, "design_bound": 6}));
    rep.explore("forest", Explore::full(), |c: &mut Ctx| {
        let depths = choose_shape(c, max_n);
        let mut f = Forest::from_depths(&depths);
        for i in 0..f.nodes.len() {
            f.nodes[i].open = !c.flag("closed");
        }
        let ds = c.choose("dest_scheme", 4);
        let ts = c.choose("title_scheme", 2);
        let route = c.flag("builder_route");
        let named_present = c.flag("named_set");
        for i in 0..f.nodes.len() {
            f.nodes[i].title = title_for(ts, i);
            f.nodes[i].dest = dest_for(ds, i);
        }
        let named = vec![
            ("intro".to_string(), DestSpec { page: 0, by_ref: false, fit: Fit::Fit }),
            ("end(1)".to_string(), DestSpec { page: NPAGES - 1, by_ref: true, fit: Fit::FitH(Some(1600)) }),
        ];
        c.input(vx::h64(&(&depths, f.nodes.iter().map(|n| n.open).collect::<Vec<_>>(), ds, ts, route, named_present)));
        if f.nodes.len() >= 2 {
            c.nontrivial();
        }
        run_case(c, &Case { forest: &f, builder_route: route, named: &named, named_present, cfg: None });
    });

    // ---- dests
    rep.explore("dests", Explore::full(), |c: &mut Ctx| {
        let depths = choose_shape(c, 2);
        let mut f = Forest::from_depths(&depths);
        for i in 0..f.nodes.len() {
            let has = !c.flag("no_dest");
            f.nodes[i].dest = if has {
                let page = c.choose("page", NPAGES);
                let by_ref = c.flag("by_ref");
                let fit = *c.pick_from("fit", &FIT_MENU);
                Some(DestSpec { page, by_ref, fit })
            } else {
                None
            };
            f.nodes[i].title = title_for(0, i);
        }
        c.input(vx::h64(&(&depths, f.nodes.iter().map(|n| n.dest).collect::<Vec<_>>())));
        if f.nodes.iter().any(|n| n.dest.is_some()) {
            c.nontrivial();
        }
        run_case(c, &Case { forest: &f, builder_route: false, named: &[], named_present: false, cfg: None });
    });

    // ---- names
    let max_names = if thorough { 3 } else { 2 };
    let name_fits = [Fit::Fit, Fit::Xyz(Some(20), Some(1401), None), Fit::FitR(20, 40, 400, 600)];
    rep.explore("names", Explore::full(), |c: &mut Ctx| {
        let k = c.choose("n_names", max_names + 1);
        let mut avail: Vec<&str> = NAME_MENU.to_vec();
        let mut named: Vec<(String, DestSpec)> = Vec::new();
        for _ in 0..k {
            let i = c.choose("name", avail.len());
            let name = avail.remove(i);
            let page = c.choose("page", NPAGES);
            let by_ref = c.flag("by_ref");
            let fit = *c.pick_from("fit", &name_fits);
            named.push((name.to_string(), DestSpec { page, by_ref, fit }));
        }
        let with_outline = c.flag("with_outline");
        let f = if with_outline {
            let mut f = Forest::from_depths(&[0, 1]);
            for i in 0..2 {
                f.nodes[i].title = title_for(0, i);
                f.nodes[i].dest = dest_for(2, i);
            }
            f
        } else {
            Forest::from_depths(&[])
        };
        c.input(vx::h64(&(&named, with_outline)));
        if k > 0 {
            c.nontrivial();
        }
        run_case(c, &Case { forest: &f, builder_route: false, named: &named, named_present: true, cfg: None });
    });

    // ---- configs
    // Only configurations whose output the reference reader can read at all are used: whether an
    // outline-less document survives a configuration is the business of C02/C03, not of C28.
    let mut usable: Vec<usize> = Vec::new();
    let mut excluded = Vec::new();
    for cfg in 0..8 {
        let r = write_doc(None, None, Some(cfg)).and_then(|b| {
            let f = PdfFile::parse(&b)?;
            let n = f.pages()?.len();
            f.catalog()?;
            if n == NPAGES { Ok(()) } else { Err(format!("{n} pages read, {NPAGES} written")) }
        });
        match r {
            Ok(()) => usable.push(cfg),
            Err(e) => excluded.push(json!({"config": config_name(cfg), "outline-less document unreadable by refpdf": vx::one_line(&e, 200)})),
        }
    }
    rep.note("configs_usable", json!(usable.iter().map(|&c| config_name(c)).collect::<Vec<_>>()));
    rep.note("configs_excluded", json!(excluded));
    if usable.is_empty() {
        rep.machinery_error("C28: no writer configuration produces a readable outline-less document".into());
        return;
    }
    rep.explore("configs", Explore::full(), |c: &mut Ctx| {
        let depths = choose_shape(c, 3);
        let mut f = Forest::from_depths(&depths);
        for i in 0..f.nodes.len() {
            f.nodes[i].open = !c.flag("closed");
            f.nodes[i].title = title_for(1, i);
            f.nodes[i].dest = dest_for(1, i);
        }
        let cfg = *c.pick_from("config", &usable);
        let named = vec![("k".to_string(), DestSpec { page: 1, by_ref: false, fit: Fit::FitB })];
        c.input(vx::h64(&(&depths, f.nodes.iter().map(|n| n.open).collect::<Vec<_>>(), cfg)));
        if f.nodes.len() >= 2 {
            c.nontrivial();
        }
        run_case(c, &Case { forest: &f, builder_route: false, named: &named, named_present: true, cfg: Some(cfg) });
    });
}
