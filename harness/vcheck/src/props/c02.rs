//! C02 — documents written by the library read back with the same content.
//!
//! Space (enumerated, nothing sampled): authoring programs over the public API
//!   page size ∈ {A4, Letter, 200×300} × /Rotate ∈ {0,90,180,270} × metadata on/off
//!   × page body = sequence of calls from a 10-call alphabet (Helvetica text, Courier text at a
//!   position, filled rectangle, stroked line with colour + width, Bézier, q/cm/Q, gray 2×2
//!   image, RGB 2×1 image, text annotation, outline entry)
//!   * `single-page`: every body of length ≤ 3 (quick) / ≤ 4 (thorough), DEV(1) over size,
//!     rotation, metadata (thorough adds `single-page-dev2`: bodies ≤ 2 under DEV(2))
//!   * `two-pages`  : every 2-page document with bodies of length ≤ 1, DEV(1) over the per-page
//!     size / rotation and metadata (thorough adds bodies ≤ 2)
//!   * `three-pages`: every 3-page document with bodies of length ≤ 1 (thorough: DEV(1))
//!   * `image-pairs`: two raw images of identical geometry ({2x2 gray, 2x1 RGB, 65x64 gray,
//!     40x35 RGB}) that differ in exactly one sample (first / middle / last), on one page or on
//!     two, drawn in both orders — each name must read back with its own pixels
//!   × the writer configurations (xref stream × object streams × compression × version): the 8
//!   without object streams for every program; the 8 with object streams for the sub-family
//!   described at `configs_for` (each such file carries a 1 000 001-entry xref section).
//!   All configurations of one execution are compared with each other.
//!
//! Oracles
//!   (i)   library reader under default options: page count, MediaBox, /Rotate, operator list
//!         from `ContentParser` = reference operator list of the program (per-call model;
//!         coordinates rounded to 2 decimals, colours to 3, as the writer documents), image
//!         XObject pixels = supplied;
//!   (ii)  configuration independence: the observation is identical under all configurations;
//!   (iii) the reference reader (refpdf) finds the same page list, boxes, rotation, operators,
//!         images, and the same decoded content bytes as the library reader.
//!
//! The program generator, builder, model and observers are shared with C03 (`prog`).
use serde_json::json;
use vx::{Ctx, Explore, Report};

pub const BUILT: bool = true;

pub(crate) mod prog {
    use oxidize_pdf::annotations::TextAnnotation;
    use oxidize_pdf::geometry::Point;
    use oxidize_pdf::graphics::{Color, ColorSpace, Image};
    use oxidize_pdf::parser::{ContentOperation, ContentParser, PdfDocument, PdfObject, PdfReader};
    use oxidize_pdf::structure::{Destination, OutlineItem, OutlineTree, PageDestination};
    use oxidize_pdf::text::Font;
    use oxidize_pdf::writer::WriterConfig;
    use oxidize_pdf::{Document, Page};
    use std::collections::BTreeMap;
    use std::io::Cursor;
    use vx::Ctx;

    // ------------------------------------------------------------------ configurations

    #[derive(Clone, Copy, Debug, PartialEq, Eq, Hash)]
    pub struct Cfg {
        pub xref_stream: bool,
        pub obj_streams: bool,
        pub compress: bool,
        pub v14: bool,
    }
    impl Cfg {
        /// index 0 is the writer's default (classic table, no object streams, compressed, 1.7)
        pub fn from_index(i: usize) -> Cfg {
            Cfg { xref_stream: i & 1 != 0, obj_streams: i & 2 != 0, compress: i & 4 == 0, v14: i & 8 != 0 }
        }
        pub fn all() -> Vec<Cfg> {
            (0..16).map(Cfg::from_index).collect()
        }
        pub fn writer(&self) -> WriterConfig {
            WriterConfig {
                use_xref_streams: self.xref_stream,
                use_object_streams: self.obj_streams,
                pdf_version: if self.v14 { "1.4" } else { "1.7" }.to_string(),
                compress_streams: self.compress,
                incremental_update: false,
            }
        }
        pub fn version(&self) -> &'static str {
            if self.v14 { "1.4" } else { "1.7" }
        }
        pub fn label(&self) -> String {
            format!(
                "xref={} objstm={} compress={} v={}",
                if self.xref_stream { "stream" } else { "table" },
                if self.obj_streams { "on" } else { "off" },
                if self.compress { "on" } else { "off" },
                self.version()
            )
        }
    }

    // ------------------------------------------------------------------ programs

    pub const SIZES: [(f64, f64); 3] = [(595.0, 842.0), (612.0, 792.0), (200.0, 300.0)];
    pub const SIZE_NAMES: [&str; 3] = ["A4", "Letter", "200x300"];
    pub const ROTS: [i32; 4] = [0, 90, 180, 270];

    #[derive(Clone, Copy, Debug, PartialEq, Eq, Hash)]
    pub enum Call {
        HelvText,
        CourierAt,
        FillRect,
        StrokeLine,
        Bezier,
        SaveCmRestore,
        GrayImage,
        RgbImage,
        TextAnnot,
        OutlineEntry,
    }
    pub const ALPHABET: [Call; 10] = [
        Call::HelvText,
        Call::CourierAt,
        Call::FillRect,
        Call::StrokeLine,
        Call::Bezier,
        Call::SaveCmRestore,
        Call::GrayImage,
        Call::RgbImage,
        Call::TextAnnot,
        Call::OutlineEntry,
    ];
    impl Call {
        pub fn produces_content(self) -> bool {
            !matches!(self, Call::TextAnnot | Call::OutlineEntry)
        }
    }

    #[derive(Clone, Debug, PartialEq, Eq, Hash)]
    pub struct PageProg {
        pub size: usize,
        pub rot: usize,
        pub body: Vec<Call>,
    }
    #[derive(Clone, Debug, PartialEq, Eq, Hash)]
    pub struct Program {
        pub pages: Vec<PageProg>,
        pub metadata: bool,
    }
    impl Program {
        pub fn json(&self) -> serde_json::Value {
            serde_json::json!({
                "metadata": self.metadata,
                "pages": self.pages.iter().map(|p| serde_json::json!({
                    "size": SIZE_NAMES[p.size], "rotate": ROTS[p.rot],
                    "body": p.body.iter().map(|c| format!("{c:?}")).collect::<Vec<_>>()})).collect::<Vec<_>>()
            })
        }
        pub fn short(&self) -> String {
            self.json().to_string()
        }
        pub fn content_calls(&self) -> usize {
            self.pages.iter().map(|p| p.body.iter().filter(|c| c.produces_content()).count()).sum()
        }
        pub fn max_body(&self) -> usize {
            self.pages.iter().map(|p| p.body.len()).max().unwrap_or(0)
        }
    }

    /// One page with every body of length ≤ `max_len`; size / rotation / metadata are deviation
    /// dimensions.
    pub fn choose_single_page(c: &mut Ctx, max_len: usize) -> Program {
        let len = c.choose("body_len", max_len + 1);
        let mut body = Vec::new();
        for _ in 0..len {
            body.push(*c.pick_from("call", &ALPHABET));
        }
        let size = c.choose_dev("size", 3);
        let rot = c.choose_dev("rotate", 4);
        let metadata = c.choose_dev("metadata", 2) == 1;
        Program { pages: vec![PageProg { size, rot, body }], metadata }
    }

    /// min_pages..=max_pages pages, each with a body of length ≤ `max_len`.
    pub fn choose_multi_page(c: &mut Ctx, min_pages: usize, max_pages: usize, max_len: usize) -> Program {
        let n = min_pages + c.choose("extra_pages", max_pages - min_pages + 1);
        let mut pages = Vec::new();
        for _ in 0..n {
            let len = c.choose("body_len", max_len + 1);
            let mut body = Vec::new();
            for _ in 0..len {
                body.push(*c.pick_from("call", &ALPHABET));
            }
            let size = c.choose_dev("size", 3);
            let rot = c.choose_dev("rotate", 4);
            pages.push(PageProg { size, rot, body });
        }
        let metadata = c.choose_dev("metadata", 2) == 1;
        Program { pages, metadata }
    }

    // fixed arguments of the calls; coordinates carry three decimals (no rounding ties) so that
    // the writer's 2-decimal rounding is visible in the read-back value
    pub const HELV_TEXT: &str = "Hi (x) \\ \u{e9}";
    pub const HELV_BYTES: &[u8] = b"Hi (x) \\ \xe9"; // WinAnsi
    pub const COUR_TEXT: &str = "a)b(";
    pub const COUR_POS: (f64, f64) = (72.126, 300.456);
    pub const GRAY_PIXELS: [u8; 4] = [0, 85, 170, 255];
    pub const RGB_PIXELS: [u8; 6] = [255, 0, 0, 0, 0, 255];
    pub const TITLE: &str = "Title (C02)";

    pub fn build(p: &Program) -> Result<Document, String> {
        let mut doc = Document::new();
        if p.metadata {
            doc.set_title(TITLE);
            doc.set_author("verif");
        }
        let mut outline = OutlineTree::new();
        let mut n_out = 0;
        for (pi, pg) in p.pages.iter().enumerate() {
            let (w, h) = SIZES[pg.size];
            let mut page = match pg.size {
                0 => Page::a4(),
                1 => Page::letter(),
                _ => Page::new(w, h),
            };
            if pg.rot != 0 {
                page.set_rotation(ROTS[pg.rot]);
            }
            for call in &pg.body {
                match call {
                    Call::HelvText => {
                        page.text().set_font(Font::Helvetica, 12.0).write(HELV_TEXT).map_err(|e| format!("text: {e}"))?;
                    }
                    Call::CourierAt => {
                        page.text()
                            .set_font(Font::Courier, 10.5)
                            .at(COUR_POS.0, COUR_POS.1)
                            .write(COUR_TEXT)
                            .map_err(|e| format!("text: {e}"))?;
                    }
                    Call::FillRect => {
                        page.graphics().set_fill_color(Color::rgb(0.2, 0.4, 0.6)).rect(10.5, 20.254, 100.456, 50.0).fill();
                    }
                    Call::StrokeLine => {
                        page.graphics()
                            .set_stroke_color(Color::rgb(1.0, 0.0, 0.5))
                            .set_line_width(2.5)
                            .move_to(10.0, 10.5)
                            .line_to(200.126, 300.874)
                            .stroke();
                    }
                    Call::Bezier => {
                        page.graphics().move_to(50.0, 50.0).curve_to(60.111, 80.222, 90.333, 80.444, 100.556, 50.667).stroke();
                    }
                    Call::SaveCmRestore => {
                        page.graphics().save_state().transform(0.5, 0.0, 0.0, 0.5, 10.123, 20.987).restore_state();
                    }
                    Call::GrayImage => {
                        let img = Image::from_gray_data(GRAY_PIXELS.to_vec(), 2, 2).map_err(|e| format!("image: {e}"))?;
                        page.add_image("ImG", img);
                        page.draw_image("ImG", 100.0, 400.126, 64.0, 32.5).map_err(|e| format!("draw_image: {e}"))?;
                    }
                    Call::RgbImage => {
                        let img = Image::from_raw_data(RGB_PIXELS.to_vec(), 2, 1, ColorSpace::DeviceRGB, 8);
                        page.add_image("ImC", img);
                        page.draw_image("ImC", 30.0, 50.0, 20.0, 10.0).map_err(|e| format!("draw_image: {e}"))?;
                    }
                    Call::TextAnnot => {
                        page.add_annotation(TextAnnotation::new(Point::new(100.5, 200.25)).with_contents("Note (1)").to_annotation());
                    }
                    Call::OutlineEntry => {
                        n_out += 1;
                        outline.add_item(
                            OutlineItem::new(format!("Sec {n_out}")).with_destination(Destination::fit(PageDestination::PageNumber(pi as u32))),
                        );
                    }
                }
            }
            doc.add_page(page);
        }
        if n_out > 0 {
            doc.set_outline(outline);
        }
        Ok(doc)
    }

    /// Build the document afresh and write it under `cfg`. Err = the writer refused or panicked.
    pub fn write(p: &Program, cfg: Cfg) -> Result<Vec<u8>, String> {
        match vx::guard(|| {
            let mut doc = build(p)?;
            doc.to_bytes_with_config(cfg.writer()).map_err(|e| format!("writer error: {e}"))
        }) {
            Ok(r) => r,
            Err(p) => Err(format!("writer panic: {p}")),
        }
    }

    // ------------------------------------------------------------------ image pairs

    /// Two raw images of identical geometry that differ in exactly one sample.
    #[derive(Clone, Copy, Debug, PartialEq, Eq, Hash)]
    pub struct ImagePair {
        /// 0: 2x2 gray, 1: 2x1 RGB, 2: 65x64 gray (4160 bytes), 3: 40x35 RGB (4200 bytes)
        pub geometry: usize,
        /// 0: first sample differs, 1: middle, 2: last
        pub diff_at: usize,
        pub two_pages: bool,
        /// draw ImB before ImA
        pub swapped: bool,
    }
    pub const GEOMETRIES: [(u32, u32, bool, &str); 4] = [(2, 2, false, "2x2 gray"), (2, 1, true, "2x1 RGB"), (65, 64, false, "65x64 gray"), (40, 35, true, "40x35 RGB")];
    impl ImagePair {
        /// (pixels of ImA, pixels of ImB)
        pub fn pixels(&self) -> (Vec<u8>, Vec<u8>) {
            let (w, h, rgb, _) = GEOMETRIES[self.geometry];
            let len = (w * h * if rgb { 3 } else { 1 }) as usize;
            let a: Vec<u8> = (0..len).map(|i| ((i * 7 + 3) % 251) as u8).collect();
            let mut b = a.clone();
            let at = [0, len / 2, len - 1][self.diff_at];
            b[at] ^= 0xff;
            (a, b)
        }
        pub fn json(&self) -> serde_json::Value {
            let at = ["first", "middle", "last"][self.diff_at];
            serde_json::json!({"geometry": GEOMETRIES[self.geometry].3, "differing_sample": at,
                               "placement": if self.two_pages { "two pages" } else { "one page" }, "order": if self.swapped { "ImB, ImA" } else { "ImA, ImB" }})
        }
        fn order(&self) -> [(&'static str, f64, f64); 2] {
            let a = ("ImA", 100.0, 400.0);
            let b = ("ImB", 300.0, 200.0);
            if self.swapped { [b, a] } else { [a, b] }
        }
    }

    pub fn build_image_pair(ip: &ImagePair) -> Result<Document, String> {
        let (w, h, rgb, _) = GEOMETRIES[ip.geometry];
        let (pa, pb) = ip.pixels();
        let mk = |px: Vec<u8>| Image::from_raw_data(px, w, h, if rgb { ColorSpace::DeviceRGB } else { ColorSpace::DeviceGray }, 8);
        let mut doc = Document::new();
        let mut page = Page::a4();
        for (k, (name, x, y)) in ip.order().iter().enumerate() {
            if ip.two_pages && k == 1 {
                doc.add_page(std::mem::replace(&mut page, Page::a4()));
            }
            page.add_image(*name, mk(if *name == "ImA" { pa.clone() } else { pb.clone() }));
            page.draw_image(name, *x, *y, 64.0, 32.0).map_err(|e| format!("draw_image: {e}"))?;
        }
        doc.add_page(page);
        Ok(doc)
    }

    pub fn write_image_pair(ip: &ImagePair, cfg: Cfg) -> Result<Vec<u8>, String> {
        match vx::guard(|| {
            let mut doc = build_image_pair(ip)?;
            doc.to_bytes_with_config(cfg.writer()).map_err(|e| format!("writer error: {e}"))
        }) {
            Ok(r) => r,
            Err(p) => Err(format!("writer panic: {p}")),
        }
    }

    /// Each page shows its images in call order; each image XObject holds the pixels supplied
    /// under that name.
    pub fn model_image_pair(ip: &ImagePair) -> DocObs {
        let (w, h, rgb, _) = GEOMETRIES[ip.geometry];
        let (pa, pb) = ip.pixels();
        let mut pages = vec![PageObs { media: [0.0, 0.0, 595.0, 842.0], rot: 0, ops: Vec::new(), images: BTreeMap::new(), content: Vec::new() }];
        for (k, (name, x, y)) in ip.order().iter().enumerate() {
            if ip.two_pages && k == 1 {
                pages.push(PageObs { media: [0.0, 0.0, 595.0, 842.0], rot: 0, ops: Vec::new(), images: BTreeMap::new(), content: Vec::new() });
            }
            let pg = pages.last_mut().unwrap();
            pg.ops.push(MOp::n("q", &[]));
            pg.ops.push(MOp::n("cm", &[64.0, 0.0, 0.0, 32.0, *x, *y]));
            pg.ops.push(MOp { op: "Do".into(), args: vec![Arg::Name(name.to_string())] });
            pg.ops.push(MOp::n("Q", &[]));
            pg.images.insert(
                name.to_string(),
                ImageObs { width: w as i64, height: h as i64, color_space: if rgb { "DeviceRGB" } else { "DeviceGray" }.into(), bpc: 8, pixels: if *name == "ImA" { pa.clone() } else { pb.clone() } },
            );
        }
        DocObs { pages }
    }

    // ------------------------------------------------------------------ observations and model

    #[derive(Clone, Debug, PartialEq)]
    pub enum Arg {
        Num(f64),
        Name(String),
        Str(Vec<u8>),
    }
    #[derive(Clone, Debug, PartialEq)]
    pub struct MOp {
        pub op: String,
        pub args: Vec<Arg>,
    }
    impl MOp {
        fn n(op: &str, nums: &[f64]) -> MOp {
            MOp { op: op.to_string(), args: nums.iter().map(|v| Arg::Num(*v)).collect() }
        }
        pub fn show(&self) -> String {
            let mut s = String::new();
            for a in &self.args {
                match a {
                    Arg::Num(v) => s.push_str(&format!("{v} ")),
                    Arg::Name(n) => s.push_str(&format!("/{n} ")),
                    Arg::Str(b) => s.push_str(&format!("({}) ", vx::show_bytes(b, 40))),
                }
            }
            s.push_str(&self.op);
            s
        }
    }
    pub fn show_ops(ops: &[MOp]) -> String {
        ops.iter().map(|o| o.show()).collect::<Vec<_>>().join(" | ")
    }

    #[derive(Clone, Debug, PartialEq)]
    pub struct ImageObs {
        pub width: i64,
        pub height: i64,
        pub color_space: String,
        pub bpc: i64,
        pub pixels: Vec<u8>,
    }
    #[derive(Clone, Debug, PartialEq)]
    pub struct PageObs {
        pub media: [f64; 4],
        pub rot: i64,
        pub ops: Vec<MOp>,
        pub images: BTreeMap<String, ImageObs>,
        /// decoded content bytes (not part of the model)
        pub content: Vec<u8>,
    }
    #[derive(Clone, Debug, PartialEq)]
    pub struct DocObs {
        pub pages: Vec<PageObs>,
    }

    fn r2(v: f64) -> f64 {
        (v * 100.0).round() / 100.0
    }
    fn r3(v: f64) -> f64 {
        (v * 1000.0).round() / 1000.0
    }

    #[derive(Clone, Copy, PartialEq)]
    enum Col {
        Gray(f64),
        Rgb(f64, f64, f64),
    }
    fn fill_op(c: Col) -> MOp {
        match c {
            Col::Gray(g) => MOp::n("g", &[r3(g)]),
            Col::Rgb(r, g, b) => MOp::n("rg", &[r3(r), r3(g), r3(b)]),
        }
    }
    fn stroke_op(c: Col) -> MOp {
        match c {
            Col::Gray(g) => MOp::n("G", &[r3(g)]),
            Col::Rgb(r, g, b) => MOp::n("RG", &[r3(r), r3(g), r3(b)]),
        }
    }

    /// Reference observation of the program. Operators are in call order; colours follow the
    /// documented graphics-state semantics of the API (fill colour is emitted when a path is
    /// filled / text is shown, stroke colour when a path is stroked; the text context takes
    /// over the graphics fill colour the first time it is used).
    ///
    /// `draw_image_unflushed` = emulate the page buffering in which `Page::draw_image` appends to
    /// the graphics buffer without first flushing pending text operators (used only to
    /// recognise that exact defect).
    pub fn model(p: &Program, draw_image_unflushed: bool) -> DocObs {
        let mut pages = Vec::new();
        for pg in &p.pages {
            let (w, h) = SIZES[pg.size];
            let mut flushed: Vec<MOp> = Vec::new();
            let mut gfx: Vec<MOp> = Vec::new();
            let mut txt: Vec<MOp> = Vec::new();
            let mut images = BTreeMap::new();
            let mut gfx_fill = Col::Gray(0.0);
            let mut gfx_stroke = Col::Gray(0.0);
            let mut text_fill: Option<Col> = None;
            let mut text_pos = (0.0, 0.0);
            for call in &pg.body {
                match call {
                    Call::HelvText | Call::CourierAt => {
                        flushed.append(&mut gfx);
                        if text_fill.is_none() {
                            text_fill = Some(gfx_fill);
                        }
                        let (font, size, bytes): (&str, f64, &[u8]) = if *call == Call::HelvText {
                            ("Helvetica", 12.0, HELV_BYTES)
                        } else {
                            text_pos = COUR_POS;
                            ("Courier", 10.5, COUR_TEXT.as_bytes())
                        };
                        txt.push(MOp::n("BT", &[]));
                        txt.push(MOp { op: "Tf".into(), args: vec![Arg::Name(font.into()), Arg::Num(size)] });
                        txt.push(fill_op(text_fill.unwrap()));
                        txt.push(MOp::n("Td", &[r2(text_pos.0), r2(text_pos.1)]));
                        txt.push(MOp { op: "Tj".into(), args: vec![Arg::Str(bytes.to_vec())] });
                        txt.push(MOp::n("ET", &[]));
                    }
                    Call::FillRect => {
                        flushed.append(&mut txt);
                        gfx_fill = Col::Rgb(0.2, 0.4, 0.6);
                        gfx.push(MOp::n("re", &[r2(10.5), r2(20.254), r2(100.456), r2(50.0)]));
                        gfx.push(fill_op(gfx_fill));
                        gfx.push(MOp::n("f", &[]));
                    }
                    Call::StrokeLine => {
                        flushed.append(&mut txt);
                        gfx_stroke = Col::Rgb(1.0, 0.0, 0.5);
                        gfx.push(MOp::n("w", &[r2(2.5)]));
                        gfx.push(MOp::n("m", &[r2(10.0), r2(10.5)]));
                        gfx.push(MOp::n("l", &[r2(200.126), r2(300.874)]));
                        gfx.push(stroke_op(gfx_stroke));
                        gfx.push(MOp::n("S", &[]));
                    }
                    Call::Bezier => {
                        flushed.append(&mut txt);
                        gfx.push(MOp::n("m", &[50.0, 50.0]));
                        gfx.push(MOp::n("c", &[r2(60.111), r2(80.222), r2(90.333), r2(80.444), r2(100.556), r2(50.667)]));
                        gfx.push(stroke_op(gfx_stroke));
                        gfx.push(MOp::n("S", &[]));
                    }
                    Call::SaveCmRestore => {
                        flushed.append(&mut txt);
                        gfx.push(MOp::n("q", &[]));
                        gfx.push(MOp::n("cm", &[0.5, 0.0, 0.0, 0.5, r2(10.123), r2(20.987)]));
                        gfx.push(MOp::n("Q", &[]));
                    }
                    Call::GrayImage | Call::RgbImage => {
                        if !draw_image_unflushed {
                            flushed.append(&mut txt);
                        }
                        let (name, m, obs) = if *call == Call::GrayImage {
                            (
                                "ImG",
                                [64.0, 0.0, 0.0, 32.5, 100.0, r2(400.126)],
                                ImageObs { width: 2, height: 2, color_space: "DeviceGray".into(), bpc: 8, pixels: GRAY_PIXELS.to_vec() },
                            )
                        } else {
                            (
                                "ImC",
                                [20.0, 0.0, 0.0, 10.0, 30.0, 50.0],
                                ImageObs { width: 2, height: 1, color_space: "DeviceRGB".into(), bpc: 8, pixels: RGB_PIXELS.to_vec() },
                            )
                        };
                        images.insert(name.to_string(), obs);
                        gfx.push(MOp::n("q", &[]));
                        gfx.push(MOp::n("cm", &m));
                        gfx.push(MOp { op: "Do".into(), args: vec![Arg::Name(name.into())] });
                        gfx.push(MOp::n("Q", &[]));
                    }
                    Call::TextAnnot | Call::OutlineEntry => {}
                }
            }
            // at most one of the two tails is non-empty unless draw_image_unflushed
            flushed.append(&mut gfx);
            flushed.append(&mut txt);
            pages.push(PageObs { media: [0.0, 0.0, w, h], rot: ROTS[pg.rot] as i64, ops: flushed, images, content: Vec::new() });
        }
        DocObs { pages }
    }

    fn f(v: f32) -> Arg {
        Arg::Num(v as f64)
    }
    fn lib_op(op: &ContentOperation) -> MOp {
        use ContentOperation as C;
        let (name, args): (&str, Vec<Arg>) = match op {
            C::BeginText => ("BT", vec![]),
            C::EndText => ("ET", vec![]),
            C::SetFont(n, s) => ("Tf", vec![Arg::Name(n.clone()), f(*s)]),
            C::MoveText(x, y) => ("Td", vec![f(*x), f(*y)]),
            C::ShowText(b) => ("Tj", vec![Arg::Str(b.clone())]),
            C::SaveGraphicsState => ("q", vec![]),
            C::RestoreGraphicsState => ("Q", vec![]),
            C::SetTransformMatrix(a, b, c, d, e, ff) => ("cm", vec![f(*a), f(*b), f(*c), f(*d), f(*e), f(*ff)]),
            C::SetLineWidth(w) => ("w", vec![f(*w)]),
            C::MoveTo(x, y) => ("m", vec![f(*x), f(*y)]),
            C::LineTo(x, y) => ("l", vec![f(*x), f(*y)]),
            C::CurveTo(a, b, c, d, e, ff) => ("c", vec![f(*a), f(*b), f(*c), f(*d), f(*e), f(*ff)]),
            C::Rectangle(x, y, w, h) => ("re", vec![f(*x), f(*y), f(*w), f(*h)]),
            C::Stroke => ("S", vec![]),
            C::Fill => ("f", vec![]),
            C::SetStrokingGray(g) => ("G", vec![f(*g)]),
            C::SetNonStrokingGray(g) => ("g", vec![f(*g)]),
            C::SetStrokingRGB(r, g, b) => ("RG", vec![f(*r), f(*g), f(*b)]),
            C::SetNonStrokingRGB(r, g, b) => ("rg", vec![f(*r), f(*g), f(*b)]),
            C::PaintXObject(n) => ("Do", vec![Arg::Name(n.clone())]),
            other => return MOp { op: format!("?{other:?}"), args: vec![] },
        };
        MOp { op: name.to_string(), args }
    }

    fn ref_op(op: &refpdf::content::Op) -> MOp {
        use refpdf::syntax::Obj;
        let args = op
            .operands
            .iter()
            .map(|o| match o {
                Obj::Int(i) => Arg::Num(*i as f64),
                Obj::Real(r) => Arg::Num(*r),
                Obj::Name(n) => Arg::Name(String::from_utf8_lossy(n).into_owned()),
                Obj::Str(s) => Arg::Str(s.clone()),
                other => Arg::Name(format!("?{other:?}")),
            })
            .collect();
        MOp { op: op.name(), args }
    }

    fn err<E: std::fmt::Display>(what: &str) -> impl Fn(E) -> String + '_ {
        move |e| format!("{what}: {e}")
    }

    /// What the library's own reader (default options) sees.
    pub fn observe_lib(bytes: &[u8]) -> Result<DocObs, String> {
        match vx::guard(|| observe_lib_inner(bytes)) {
            Ok(r) => r,
            Err(p) => Err(format!("reader panic: {p}")),
        }
    }
    fn observe_lib_inner(bytes: &[u8]) -> Result<DocObs, String> {
        let reader = PdfReader::new(Cursor::new(bytes)).map_err(err("open"))?;
        let doc = PdfDocument::new(reader);
        let n = doc.page_count().map_err(err("page_count"))?;
        let mut pages = Vec::new();
        for i in 0..n {
            let page = doc.get_page(i).map_err(err("get_page"))?;
            let streams = doc.get_page_content_streams(&page).map_err(err("content streams"))?;
            let mut content = Vec::new();
            for (k, s) in streams.iter().enumerate() {
                if k > 0 {
                    content.push(b'\n');
                }
                content.extend_from_slice(s);
            }
            let ops = ContentParser::parse_content(&content).map_err(err("ContentParser"))?;
            let mut images = BTreeMap::new();
            if let Some(res) = page.get_resources() {
                if let Some(x) = res.get("XObject") {
                    let xd = doc.resolve(x).map_err(err("resolve XObject"))?;
                    let xd = xd.as_dict().ok_or("XObject resources are not a dictionary")?;
                    for (name, v) in xd.0.iter() {
                        let o = doc.resolve(v).map_err(err("resolve image"))?;
                        let PdfObject::Stream(s) = &o else { return Err(format!("XObject /{} is not a stream", name.0)) };
                        if s.dict.get("Subtype").and_then(|t| t.as_name()).map(|n| n.0.as_str()) != Some("Image") {
                            continue;
                        }
                        let int = |k: &str| s.dict.get(k).and_then(|v| v.as_integer()).unwrap_or(-1);
                        let cs = s.dict.get("ColorSpace").and_then(|v| v.as_name()).map(|n| n.0.clone()).unwrap_or_default();
                        let pixels = doc.decode_stream(s).map_err(err("decode image"))?;
                        images.insert(name.0.clone(), ImageObs { width: int("Width"), height: int("Height"), color_space: cs, bpc: int("BitsPerComponent"), pixels });
                    }
                }
            }
            pages.push(PageObs { media: page.media_box, rot: page.rotation as i64, ops: ops.iter().map(lib_op).collect(), images, content });
        }
        Ok(DocObs { pages })
    }

    /// What the independent reference reader sees.
    pub fn observe_ref(bytes: &[u8]) -> Result<DocObs, String> {
        let file = refpdf::file::PdfFile::parse(bytes)?;
        observe_ref_file(&file)
    }
    pub fn observe_ref_file(file: &refpdf::file::PdfFile) -> Result<DocObs, String> {
        let mut pages = Vec::new();
        for pg in file.pages()? {
            let media = pg.media_box().ok_or("page without a usable /MediaBox")?;
            let content = file.page_content(&pg)?;
            let ops = refpdf::content::parse_content(&content)?;
            let mut images = BTreeMap::new();
            if let Some(res) = pg.resources() {
                let xd = file.dget(res, "XObject");
                if let Some(d) = xd.as_dict() {
                    for (name, v) in d.iter() {
                        let o = file.resolve(v);
                        let Some(s) = o.as_stream() else { return Err(format!("XObject /{} is not a stream", String::from_utf8_lossy(name))) };
                        if file.resolve_opt(s.dict.get("Subtype")).as_name() != Some(b"Image") {
                            continue;
                        }
                        let int = |k: &str| file.resolve_opt(s.dict.get(k)).as_int().unwrap_or(-1);
                        let cs = file.resolve_opt(s.dict.get("ColorSpace")).as_name().map(|n| String::from_utf8_lossy(n).into_owned()).unwrap_or_default();
                        let pixels = file.stream_data(s)?;
                        images.insert(
                            String::from_utf8_lossy(name).into_owned(),
                            ImageObs { width: int("Width"), height: int("Height"), color_space: cs, bpc: int("BitsPerComponent"), pixels },
                        );
                    }
                }
            }
            pages.push(PageObs { media, rot: pg.rotate(), ops: ops.iter().map(ref_op).collect(), images, content });
        }
        let issues = file.issues.borrow();
        if let Some(i) = issues.iter().find(|i| i.contains("object") || i.contains("xref")) {
            // damage met while reading (Null substituted for an unreadable object, …)
            return Err(format!("reference reader met damage: {i}"));
        }
        Ok(DocObs { pages })
    }

    fn num_eq(want: f64, got: f64) -> bool {
        (want - got).abs() <= 1e-6 * want.abs().max(1.0)
    }
    pub fn ops_match(want: &[MOp], got: &[MOp]) -> bool {
        want.len() == got.len()
            && want.iter().zip(got).all(|(w, g)| {
                w.op == g.op
                    && w.args.len() == g.args.len()
                    && w.args.iter().zip(&g.args).all(|(a, b)| match (a, b) {
                        (Arg::Num(x), Arg::Num(y)) => num_eq(*x, *y),
                        (a, b) => a == b,
                    })
            })
    }

    /// First difference between a reference observation and an actual one: (aspect, detail).
    /// Aspects: page-count, mediabox, rotate, operators, images.
    pub fn diff(want: &DocObs, got: &DocObs) -> Option<(&'static str, String)> {
        if want.pages.len() != got.pages.len() {
            return Some(("page-count", format!("want {} pages, got {}", want.pages.len(), got.pages.len())));
        }
        for (i, (w, g)) in want.pages.iter().zip(&got.pages).enumerate() {
            if !(0..4).all(|k| num_eq(w.media[k], g.media[k])) {
                return Some(("mediabox", format!("page {i}: want {:?}, got {:?}", w.media, g.media)));
            }
            if w.rot != g.rot {
                return Some(("rotate", format!("page {i}: want {}, got {}", w.rot, g.rot)));
            }
            if !ops_match(&w.ops, &g.ops) {
                return Some(("operators", format!("page {i}: want [{}] got [{}]", show_ops(&w.ops), show_ops(&g.ops))));
            }
            if w.images != g.images {
                return Some(("images", format!("page {i}: want {:?}, got {:?}", w.images, g.images)));
            }
        }
        None
    }

    // ------------------------------------------------------------------ known-defect signatures

    /// The cross-reference stream object the file's `startxref` points at, parsed without
    /// decoding: (offset of the object, dictionary, raw data).
    pub fn raw_xref_stream(bytes: &[u8]) -> Option<(usize, refpdf::syntax::Dict, Vec<u8>)> {
        let sx = bytes.windows(9).rposition(|w| w == b"startxref")?;
        let mut p = refpdf::syntax::Parser::new(bytes, sx + 9);
        let off = p.parse_object().ok()?.as_int()? as usize;
        if off >= bytes.len() {
            return None;
        }
        let mut p = refpdf::syntax::Parser::new(bytes, off);
        let (_, _, o) = p.indirect_object(&|l| l.as_int()).ok()?;
        let s = o.as_stream()?;
        Some((off, s.dict.clone(), s.data.clone()))
    }

    /// KF signature "uncompressed cross-reference stream declares /FlateDecode": the xref stream
    /// dictionary names /Filter /FlateDecode while the data is exactly Size × ΣW raw bytes.
    /// Returns the file with the wrong /Filter entry blanked out (same length, no offset moves),
    /// so that every other oracle can still be applied to the rest of the file.
    pub fn repair_undeclared_raw_xref_stream(bytes: &[u8]) -> Option<Vec<u8>> {
        let (off, dict, data) = raw_xref_stream(bytes)?;
        if dict.get("Type").and_then(|t| t.as_name()) != Some(b"XRef") || dict.get("Filter").and_then(|t| t.as_name()) != Some(b"FlateDecode") {
            return None;
        }
        let w: usize = dict.get("W")?.as_array()?.iter().filter_map(|x| x.as_int()).sum::<i64>() as usize;
        let size = dict.get("Size")?.as_int()? as usize;
        if w == 0 || data.len() != w * size {
            return None;
        }
        let pat = b"/Filter /FlateDecode";
        let rel = bytes[off..].windows(pat.len()).position(|x| x == pat)?;
        let stream_kw = bytes[off..].windows(6).position(|x| x == b"stream")?;
        if rel > stream_kw {
            return None;
        }
        let mut out = bytes.to_vec();
        for b in &mut out[off + rel..off + rel + pat.len()] {
            *b = b' ';
        }
        Some(out)
    }

    /// KF signature "object streams with a classic cross-reference table": the newest section is a
    /// table, the file contains /Type /ObjStm streams, and the objects packed into them are
    /// exactly the ones the table lists as free (a table cannot express type-2 entries).
    /// Returns the set of member object numbers when the signature holds.
    pub fn objstm_with_classic_xref_signature(file: &refpdf::file::PdfFile) -> Option<Vec<u32>> {
        use refpdf::file::{XEntry, XKind};
        if file.sections.len() != 1 || file.sections[0].kind != XKind::Table {
            return None;
        }
        let mut members = Vec::new();
        for (&num, e) in &file.xref {
            if let XEntry::InUse { offset, .. } = e {
                // only look at objects that announce themselves as object streams (cheap check first)
                let head = &file.bytes[*offset..(*offset + 200).min(file.bytes.len())];
                if !head.windows(7).any(|w| w == b"/ObjStm") {
                    continue;
                }
                let m = file.objstm_members(num).ok()?;
                members.extend(m.iter().map(|(n, _)| *n));
            }
        }
        if members.is_empty() {
            return None;
        }
        if members.iter().all(|n| matches!(file.xref.get(n), Some(XEntry::Free { .. }))) {
            members.sort();
            Some(members)
        } else {
            None
        }
    }
}

use prog::{Cfg, DocObs, Program};

/// Keep error texts free of case-specific numbers so that they can be used as key suffixes.
pub(crate) fn slug(msg: &str) -> String {
    let mut out = String::new();
    let mut last_hash = false;
    for ch in msg.chars().take(160) {
        if ch.is_ascii_digit() {
            if !last_hash {
                out.push('N');
            }
            last_hash = true;
        } else {
            last_hash = false;
            out.push(if ch.is_ascii_alphanumeric() || "/-_.:'".contains(ch) { ch } else { '-' });
        }
    }
    let mut s = String::new();
    for ch in out.chars() {
        if ch == '-' && s.ends_with('-') {
            continue;
        }
        s.push(ch);
    }
    s.trim_matches('-').chars().take(90).collect()
}

/// One document family member: how to write it, what to expect.
struct Case<'a> {
    input: u64,
    nontrivial: bool,
    label: String,
    json: serde_json::Value,
    want: DocObs,
    want_unflushed: DocObs,
    /// ask the (slow) library reader about the known-unreadable 20 MB file of this case
    ask_lib_on_broken: bool,
    write: &'a dyn Fn(Cfg) -> Result<Vec<u8>, String>,
}

fn run_program(c: &mut Ctx, p: &Program, cfgs: &[Cfg]) {
    let case = Case {
        input: vx::h64(&(p, cfgs)),
        nontrivial: p.content_calls() > 0,
        label: format!("program={}", p.short()),
        json: p.json(),
        want: prog::model(p, false),
        want_unflushed: prog::model(p, true),
        ask_lib_on_broken: p.max_body() == 0 && p.pages.len() == 1,
        write: &|cfg| prog::write(p, cfg),
    };
    run_case(c, &case, cfgs);
}

fn run_case(c: &mut Ctx, case: &Case, cfgs: &[Cfg]) {
    c.input(case.input);
    if case.nontrivial {
        c.nontrivial();
    }
    let (want, want_unflushed) = (&case.want, &case.want_unflushed);
    let mut first_lib: Option<(Cfg, DocObs)> = None;
    let mut first_ref: Option<(Cfg, DocObs)> = None;
    let mut oh = 0u64;
    for cfg in cfgs {
        let tag = format!("{} {}", cfg.label(), case.label);
        let bytes = match (case.write)(*cfg) {
            Ok(b) => b,
            Err(e) => {
                c.fail(format!("C02/write-failed:{}", slug(&e)), format!("{tag}: {e}"));
                oh = vx::hmix(oh, 1);
                continue;
            }
        };
        // ---- known defect: raw xref stream that declares /FlateDecode — recognise by its exact
        // signature, then go on with the repaired file so that nothing else hides behind it
        let mut bytes = bytes;
        if cfg.xref_stream && !cfg.compress {
            if let Some(fixed) = prog::repair_undeclared_raw_xref_stream(&bytes) {
                let lib_err = prog::observe_lib(&bytes).err().unwrap_or_default();
                let ref_err = prog::observe_ref(&bytes).err().unwrap_or_default();
                if !lib_err.is_empty() || !ref_err.is_empty() {
                    c.fail(
                        "C02/uncompressed-xref-stream-declares-flatedecode",
                        format!("{tag}: library reader: {lib_err:?}; reference reader: {ref_err:?}; the xref stream dictionary has /Filter /FlateDecode but its data is the raw table"),
                    );
                    oh = vx::hmix(oh, 2);
                }
                bytes = fixed;
            }
        }
        // ---- reference reader
        let robs = match refpdf::file::PdfFile::parse(&bytes) {
            Ok(file) => {
                if cfg.obj_streams && !cfg.xref_stream {
                    if let Some(members) = prog::objstm_with_classic_xref_signature(&file) {
                        // (the library reader needs seconds for the 20 MB table; it is asked once, in the probe of the first program)
                        let lib = if case.ask_lib_on_broken { format!("{:?}", prog::observe_lib(&bytes).err()) } else { "not asked".to_string() };
                        c.fail(
                            "C02/objstm-with-classic-xref-unreadable",
                            format!("{tag}: objects {members:?} live in an object stream but the classic xref table lists them as free; reference reader: {:?}; library reader: {lib}", prog::observe_ref_file(&file).err()),
                        );
                        oh = vx::hmix(oh, 3);
                        continue;
                    }
                }
                prog::observe_ref_file(&file)
            }
            Err(e) => Err(e),
        };
        match &robs {
            Ok(o) => {
                if let Some((aspect, d)) = prog::diff(want, o) {
                    let key = if aspect == "operators" && prog::diff(want_unflushed, o).is_none() {
                        "C02/draw-image-emitted-before-pending-text".to_string()
                    } else {
                        format!("C02/reference-reader-sees-different-{aspect}")
                    };
                    c.fail(key, format!("{tag}: {d}"));
                }
                match &first_ref {
                    None => first_ref = Some((*cfg, o.clone())),
                    Some((c0, o0)) => {
                        if o0 != o {
                            c.fail(
                                "C02/configuration-dependent-content-in-reference-reader",
                                format!("{tag}: differs from [{}]: {:?}", c0.label(), prog::diff(o0, o)),
                            );
                        }
                    }
                }
            }
            Err(e) => c.fail(format!("C02/unreadable-by-reference-reader:{}", slug(e)), format!("{tag}: {e}")),
        }
        // ---- library reader
        let lobs = prog::observe_lib(&bytes);
        match &lobs {
            Ok(o) => {
                if let Some((aspect, d)) = prog::diff(want, o) {
                    let key = if aspect == "operators" && prog::diff(want_unflushed, o).is_none() {
                        "C02/draw-image-emitted-before-pending-text".to_string()
                    } else {
                        format!("C02/library-reader-sees-different-{aspect}")
                    };
                    c.fail(key, format!("{tag}: {d}"));
                }
                match &first_lib {
                    None => first_lib = Some((*cfg, o.clone())),
                    Some((c0, o0)) => {
                        if o0 != o {
                            c.fail(
                                "C02/configuration-dependent-content-in-library-reader",
                                format!("{tag}: differs from [{}]: {:?}", c0.label(), prog::diff(o0, o)),
                            );
                        }
                    }
                }
                if let Ok(r) = &robs {
                    for (i, (lp, rp)) in o.pages.iter().zip(&r.pages).enumerate() {
                        if lp.content != rp.content {
                            c.fail(
                                "C02/decoded-content-bytes-differ-between-readers",
                                format!("{tag}: page {i}: library {:?} reference {:?}", vx::show_bytes(&lp.content, 200), vx::show_bytes(&rp.content, 200)),
                            );
                        }
                    }
                }
            }
            Err(e) => c.fail(format!("C02/unreadable-by-library-reader:{}", slug(e)), format!("{tag}: {e}")),
        }
        oh = vx::hmix(oh, vx::h64(&(lobs.is_ok(), robs.is_ok())));
    }
    if let Some((_, o)) = &first_lib {
        oh = vx::hmix(oh, vx::h64(&format!("{:?}", o.pages.iter().map(|p| (&p.ops, &p.images, p.rot)).collect::<Vec<_>>())));
    }
    c.outcome(oh);
    c.sample(json!({"case": case.json, "configurations": cfgs.len()}));
}

/// Configurations with object streams produce a 1 000 001-entry cross-reference section (the
/// writer numbers its object stream 1000000), which costs the library reader 0.3–3 s per file,
/// so they are run for a sub-family of the programs only (stated in the evidence):
///   quick:    no deviation in size/rotation/metadata, and either one page whose body is empty or
///             one of {Helvetica text, gray image, text annotation, outline entry}, or two pages
///             with one Helvetica text each;
///   thorough: no deviation, and one page with a body of ≤ 2 calls, or two pages with bodies of
///             ≤ 1 call, or three pages with the same body of ≤ 1 call.
/// The 8 configurations without object streams are run for every program.
/// An eligible program is run in five separate executions (choice point `config_block`): the 8
/// plain configurations, and four pairs of object-stream configurations (xref form ×
/// compression; both header versions in the thorough tier, 1.7 only in the quick tier), each together with the default configuration so that the
/// comparison between configurations is chained through it.
pub(crate) fn configs_for(c: &mut Ctx, p: &Program, thorough: bool) -> Vec<Cfg> {
    let all = Cfg::all();
    let plain = !p.metadata && p.pages.iter().all(|pg| pg.size == 0 && pg.rot == 0);
    let same = p.pages.windows(2).all(|w| w[0].body == w[1].body);
    // quick tier: a handful of representative programs only (one per kind of object the calls add)
    let quick_body = |b: &[prog::Call]| b.is_empty() || (b.len() == 1 && matches!(b[0], prog::Call::HelvText | prog::Call::GrayImage | prog::Call::TextAnnot | prog::Call::OutlineEntry));
    let eligible = plain
        && match (p.pages.len(), p.max_body()) {
            (1, l) => {
                if thorough {
                    l <= 2
                } else {
                    quick_body(&p.pages[0].body)
                }
            }
            (2, l) => l <= 1 && (thorough || (same && p.pages[0].body == [prog::Call::HelvText])),
            (3, l) => l <= 1 && thorough && same,
            _ => false,
        };
    let plain8: Vec<Cfg> = all.iter().copied().filter(|c| !c.obj_streams).collect();
    if !eligible {
        return plain8;
    }
    let b = c.choose("config_block", 5);
    if b == 0 {
        return plain8;
    }
    let (xs, comp) = ((b - 1) & 1 != 0, (b - 1) & 2 == 0);
    let mut v = vec![Cfg::from_index(0)];
    // quick: header version 1.7 only (the version changes nothing but the header line)
    v.extend(all.iter().copied().filter(|c| c.obj_streams && c.xref_stream == xs && c.compress == comp && (thorough || !c.v14)));
    v
}

/// The writer allocates and frees a deflate state (hundreds of KB) per compressed stream; with
/// glibc's default trim threshold every such cycle returns the pages to the kernel and faults
/// them in again. Keeping freed memory in the arenas makes a write ~10× cheaper.
pub(crate) fn tune_allocator() {
    unsafe {
        libc::mallopt(libc::M_TRIM_THRESHOLD, 1 << 30);
        libc::mallopt(libc::M_MMAP_THRESHOLD, 32 << 20);
        libc::mallopt(libc::M_TOP_PAD, 64 << 20);
    }
}

pub fn run(rep: &mut Report) {
    tune_allocator();
    let thorough = rep.tier.is_thorough();
    rep.rule(
        "one execution = one authoring program written under the 8 writer configurations without object streams \
         and, for the sub-family stated in `objstm_family`, also under the 8 with object streams, each file read back \
         by the library reader and by the reference reader; non-trivial = the program draws at least one content-producing call; \
         distinct = distinct program",
    );
    rep.assume("reference operator list: call order; coordinates rounded to 2 decimals, colours to 3, font size unrounded (graphics/ops.rs serialize_ops); numeric operands compared with relative tolerance 1e-6 (the library reader holds f32)");
    rep.assume("colour operators follow the API's documented graphics-state model: fill colour emitted at fill/show-text, stroke colour at stroke, the text context inherits the graphics fill colour at its first use");
    rep.assume("refpdf (reference reader, content parser) is correct; it is validated against qpdf/pypdf fixtures and spec examples in its unit tests");
    rep.assume("annotations, outline entries and metadata are part of the programs (they add objects) but their own read-back is not compared: the property lists page count, boxes, rotation, operators and images");
    let dev = 1;
    let single_len = if thorough { 4 } else { 3 };
    rep.note("objstm_family", json!("object-stream configurations (quick: header version 1.7 only) are run for programs without size/rotation/metadata deviation: quick = one page with an empty body or one of {Helvetica text, gray image, text annotation, outline entry}, or two pages with one Helvetica text each; thorough = one page with a body ≤ 2, two pages with bodies ≤ 1, three pages with equal bodies ≤ 1; reason: the writer numbers its object stream 1000000, every such file carries a 1 000 001-entry cross-reference section (20 MB as a table) and costs the library reader 0.3–3 s"));
    rep.note("writer_configurations", json!(Cfg::all().iter().map(|c| c.label()).collect::<Vec<_>>()));

    // development aid: C02_SECTIONS=single-page,two runs only the sections with these prefixes
    let on = |s: &str| std::env::var("C02_SECTIONS").map(|v| v.split(',').any(|x| s.starts_with(x))).unwrap_or(true);
    if on("single-page") {
        rep.explore("single-page", Explore::dev(dev), |c: &mut Ctx| {
            let p = prog::choose_single_page(c, single_len);
            let cfgs = configs_for(c, &p, thorough);
            run_program(c, &p, &cfgs);
        });
    }
    if on("image-pairs") {
        // two images of identical geometry that differ in one sample: each name must keep its own pixels
        rep.explore("image-pairs", Explore::full(), |c: &mut Ctx| {
            let ip = prog::ImagePair {
                geometry: c.choose("geometry", prog::GEOMETRIES.len()),
                diff_at: c.choose("differing_sample", 3),
                two_pages: c.flag("two_pages"),
                swapped: c.flag("swapped"),
            };
            // the 8 configurations without object streams; the default object-stream pair for the
            // first differing position of each geometry / placement (drawn in call order)
            let mut cfgs: Vec<Cfg> = Cfg::all().into_iter().filter(|cf| !cf.obj_streams).collect();
            if ip.diff_at == 0 && !ip.swapped {
                cfgs.extend(Cfg::all().into_iter().filter(|cf| cf.obj_streams && cf.compress && !cf.v14));
            }
            let want = prog::model_image_pair(&ip);
            let case = Case {
                input: vx::h64(&(ip, &cfgs)),
                nontrivial: true,
                label: format!("image-pair={}", ip.json()),
                json: ip.json(),
                want_unflushed: want.clone(),
                want,
                ask_lib_on_broken: false,
                write: &|cfg| prog::write_image_pair(&ip, cfg),
            };
            run_case(c, &case, &cfgs);
        });
    }
    if !on("multi") {
        return;
    }
    if thorough {
        rep.explore("single-page-dev2", Explore::dev(2), |c: &mut Ctx| {
            let p = prog::choose_single_page(c, 2);
            let cfgs = configs_for(c, &p, thorough);
            run_program(c, &p, &cfgs);
        });
    }
    rep.explore("two-pages", Explore::dev(dev), |c: &mut Ctx| {
        let p = prog::choose_multi_page(c, 2, 2, 1);
        let cfgs = configs_for(c, &p, thorough);
        run_program(c, &p, &cfgs);
    });
    rep.explore("three-pages", Explore::dev(if thorough { 1 } else { 0 }), |c: &mut Ctx| {
        let p = prog::choose_multi_page(c, 3, 3, 1);
        let cfgs = configs_for(c, &p, thorough);
        run_program(c, &p, &cfgs);
    });
    if thorough {
        rep.explore("two-pages-bodies-2", Explore::dev(1), |c: &mut Ctx| {
            let p = prog::choose_multi_page(c, 2, 2, 2);
            let cfgs = configs_for(c, &p, true);
            run_program(c, &p, &cfgs);
        });
    }
}
