//! C18 — page-tree navigation follows document order and inheritance (ISO 32000-1 §7.7.3).
//!
//! Space (fully enumerated; attribute placement under a deviation bound):
//!  * `wellformed`: every ordered tree with ≤ N nodes (N = 5 quick / 7 thorough) whose root is a
//!    /Pages node and whose other nodes are pages or /Pages nodes (a childless /Pages node is an
//!    empty subtree) × kids arrays {direct with per-node deviations to indirect, all indirect}
//!    × DEV(2) placement of /MediaBox /CropBox /Rotate /Resources on any node (root always carries
//!    a base /MediaBox and /Resources so that every file is valid) × presets inside.
//!  * `malformed`: the same trees × kids {direct, indirect} × every single malformation from
//!    {wrong /Count on one /Pages node: +1, −1, 0, 9999999999; one node listed as a kid of a second
//!    parent; one /Pages node listed among the kids of itself or of a descendant (cycle)}.
//! Oracle: own model of the generated tree (document-order leaves; nearest ancestor-or-self
//! that sets an attribute); refpdf::file::PdfFile::pages() must agree with the model on every
//! well-formed file first. Malformed trees: every call returns (Ok or Err) within the deadline
//! and does not panic — nothing more is demanded.
use crate::util::objcmp;
use oxidize_pdf::parser::{ParseOptions, PdfDocument, PdfReader};
use refpdf::builder::{FileBuilder, Revision, XrefForm};
use refpdf::file::PdfFile;
use refpdf::syntax::Obj;
use serde_json::json;
use std::io::Cursor;
use std::time::Duration;
use vx::{Ctx, Explore, Report};

pub const BUILT: bool = true;

const ATTRS: [&str; 4] = ["MediaBox", "CropBox", "Rotate", "Resources"];
const DEADLINE: Duration = Duration::from_secs(30);

#[derive(Clone, Debug)]
struct Node {
    is_pages: bool,
    parent: Option<usize>,
    kids: Vec<usize>,
    /// extra kid references appended by a malformation (node indices)
    extra_kids: Vec<usize>,
    set: [bool; 4],
    kids_indirect: bool,
    count_override: Option<i64>,
}

fn num(i: usize) -> u32 {
    2 + i as u32
}
fn kids_obj_num(i: usize) -> u32 {
    30 + i as u32
}

fn int_arr(v: [i64; 4]) -> Obj {
    Obj::Array(v.iter().map(|x| Obj::Int(*x)).collect())
}
fn attr_value(a: usize, i: usize) -> Obj {
    let k = i as i64;
    match a {
        0 => int_arr([0, 0, 100 + k, 200 + k]),
        1 => int_arr([1, 1, 50 + k, 60 + k]),
        2 => Obj::Int(90 * (k + 1)),
        _ => Obj::dict(vec![
            ("ProcSet", Obj::Array(vec![Obj::name("PDF"), Obj::name("Text")])),
            ("ExtGState", Obj::dict(vec![("GS0", Obj::dict(vec![("LW", Obj::Int(k + 1))]))])),
        ]),
    }
}

/// Every ordered tree once: pre-order degree sequence, children typed when they are created.
fn choose_tree(c: &mut Ctx, max_nodes: usize) -> Vec<Node> {
    let blank = |is_pages: bool, parent: Option<usize>| Node { is_pages, parent, kids: vec![], extra_kids: vec![], set: [false; 4], kids_indirect: false, count_override: None };
    let mut nodes = vec![blank(true, None)];
    fn expand(c: &mut Ctx, nodes: &mut Vec<Node>, i: usize, max_nodes: usize, blank: &dyn Fn(bool, Option<usize>) -> Node) {
        let rem = max_nodes - nodes.len();
        let d = c.choose("n_kids", rem + 1);
        let mut mine = Vec::new();
        for _ in 0..d {
            let is_pages = c.choose("kid_kind", 2) == 1;
            nodes.push(blank(is_pages, Some(i)));
            mine.push(nodes.len() - 1);
        }
        nodes[i].kids = mine.clone();
        for k in mine {
            if nodes[k].is_pages {
                expand(c, nodes, k, max_nodes, blank);
            }
        }
    }
    expand(c, &mut nodes, 0, max_nodes, &blank);
    nodes
}

fn leaves_under(nodes: &[Node], i: usize, out: &mut Vec<usize>) {
    if !nodes[i].is_pages {
        out.push(i);
        return;
    }
    for &k in &nodes[i].kids {
        leaves_under(nodes, k, out);
    }
}

fn in_subtree(nodes: &[Node], root: usize, x: usize) -> bool {
    let mut cur = Some(x);
    while let Some(i) = cur {
        if i == root {
            return true;
        }
        cur = nodes[i].parent;
    }
    false
}

fn shape(nodes: &[Node], i: usize) -> String {
    if !nodes[i].is_pages {
        return format!("p{}", num(i));
    }
    format!("{}({})", num(i), nodes[i].kids.iter().map(|&k| shape(nodes, k)).collect::<Vec<_>>().join(" "))
}

fn build_file(nodes: &[Node]) -> Vec<u8> {
    let mut r = Revision::new(XrefForm::Table);
    r.add(1, Obj::dict(vec![("Type", Obj::name("Catalog")), ("Pages", Obj::Ref(num(0), 0))]));
    for (i, n) in nodes.iter().enumerate() {
        let mut d: Vec<(&str, Obj)> = Vec::new();
        d.push(("Type", Obj::name(if n.is_pages { "Pages" } else { "Page" })));
        if let Some(p) = n.parent {
            d.push(("Parent", Obj::Ref(num(p), 0)));
        }
        if n.is_pages {
            let kids: Vec<Obj> = n.kids.iter().chain(n.extra_kids.iter()).map(|&k| Obj::Ref(num(k), 0)).collect();
            if n.kids_indirect {
                r.add(kids_obj_num(i), Obj::Array(kids));
                d.push(("Kids", Obj::Ref(kids_obj_num(i), 0)));
            } else {
                d.push(("Kids", Obj::Array(kids)));
            }
            let mut lv = Vec::new();
            leaves_under(nodes, i, &mut lv);
            d.push(("Count", Obj::Int(n.count_override.unwrap_or(lv.len() as i64))));
        }
        if i == 0 {
            // base values at the root keep every file valid (both are required, inheritable)
            if !n.set[0] {
                d.push(("MediaBox", int_arr([0, 0, 222, 333])));
            }
            if !n.set[3] {
                d.push(("Resources", Obj::dict(vec![("ProcSet", Obj::Array(vec![Obj::name("PDF")]))])));
            }
        }
        for a in 0..4 {
            if n.set[a] {
                d.push((ATTRS[a], attr_value(a, i)));
            }
        }
        r.add(num(i), Obj::dict(d));
    }
    let mut fb = FileBuilder::new(1);
    fb.revisions.push(r);
    fb.build().bytes
}

#[derive(Clone, Debug, PartialEq)]
struct PageView {
    obj: u32,
    media_box: Option<[f64; 4]>,
    crop_box: Option<[f64; 4]>,
    rotate: i64,
    resources: Option<Vec<u8>>,
}

fn rect_of(o: &Obj) -> Option<[f64; 4]> {
    refpdf::file::rect(o)
}

/// The model: document-order pages with the nearest ancestor-or-self value of each attribute.
fn model_pages(nodes: &[Node]) -> Vec<PageView> {
    let mut lv = Vec::new();
    leaves_under(nodes, 0, &mut lv);
    lv.iter()
        .map(|&l| {
            let nearest = |a: usize| -> Option<Obj> {
                let mut cur = Some(l);
                while let Some(i) = cur {
                    if nodes[i].set[a] {
                        return Some(attr_value(a, i));
                    }
                    cur = nodes[i].parent;
                }
                match a {
                    0 => Some(int_arr([0, 0, 222, 333])),
                    3 => Some(Obj::dict(vec![("ProcSet", Obj::Array(vec![Obj::name("PDF")]))])),
                    _ => None,
                }
            };
            PageView {
                obj: num(l),
                media_box: nearest(0).and_then(|o| rect_of(&o)),
                crop_box: nearest(1).and_then(|o| rect_of(&o)),
                rotate: nearest(2).and_then(|o| o.as_int()).unwrap_or(0),
                resources: nearest(3).map(|o| objcmp::canon(&o)),
            }
        })
        .collect()
}

fn reference_pages(bytes: &[u8]) -> Result<Vec<PageView>, String> {
    let f = PdfFile::parse(bytes)?;
    let issues = refpdf::file::validate_file(&f);
    if !issues.is_empty() {
        return Err(format!("strict validator: {issues:?}"));
    }
    Ok(f.pages()?
        .iter()
        .map(|p| PageView {
            obj: p.obj.unwrap_or(0),
            media_box: p.media_box(),
            crop_box: p.crop_box(),
            rotate: p.rotate(),
            resources: p.resources().map(objcmp::canon),
        })
        .collect())
}

/// What the library reports for one file under one preset.
#[derive(Clone, Debug)]
struct LibView {
    open: Result<(), String>,
    reader_count: Option<Result<u32, String>>,
    doc_count: Option<Result<u32, String>>,
    pages: Vec<Result<PageView, String>>,
    /// get_page(page_count) — must not succeed on a well-formed tree
    past_end: Option<Result<u32, String>>,
    panic: Option<String>,
}

fn observe(bytes: Vec<u8>, opts: Option<ParseOptions>, cap: u32) -> LibView {
    let mut v = LibView { open: Ok(()), reader_count: None, doc_count: None, pages: vec![], past_end: None, panic: None };
    let r = vx::guard(|| {
        let opened = match opts {
            None => PdfReader::new(Cursor::new(bytes)),
            Some(o) => PdfReader::new_with_options(Cursor::new(bytes), o),
        };
        let mut reader = match opened {
            Ok(r) => r,
            Err(e) => {
                v.open = Err(e.to_string());
                return;
            }
        };
        v.reader_count = Some(reader.page_count().map_err(|e| e.to_string()));
        let doc = PdfDocument::new(reader);
        let dc = doc.page_count().map_err(|e| e.to_string());
        v.doc_count = Some(dc.clone());
        let n = dc.unwrap_or(0).min(cap);
        for i in 0..n {
            v.pages.push(doc.get_page(i).map_err(|e| e.to_string()).map(|p| PageView {
                obj: p.obj_ref.0,
                media_box: Some(p.media_box),
                crop_box: p.crop_box,
                rotate: p.rotation as i64,
                resources: p.get_resources().map(|d| objcmp::canon_lib(&oxidize_pdf::parser::objects::PdfObject::Dictionary(d.clone()))),
            }));
        }
        v.past_end = Some(doc.get_page(n).map(|p| p.obj_ref.0).map_err(|e| e.to_string()));
    });
    if let Err(p) = r {
        v.panic = Some(p);
    }
    v
}

/// Machinery guard: run `f` on a helper thread owned by the calling explorer thread; None = it
/// did not return within the deadline (the stuck helper is abandoned and replaced).
type Job = Box<dyn FnOnce() + Send + 'static>;
thread_local! {
    static HELPER: std::cell::RefCell<Option<std::sync::mpsc::Sender<Job>>> = const { std::cell::RefCell::new(None) };
}
fn spawn_helper() -> std::sync::mpsc::Sender<Job> {
    let (tx, rx) = std::sync::mpsc::channel::<Job>();
    std::thread::Builder::new()
        .stack_size(16 << 20)
        .spawn(move || {
            for job in rx {
                job();
            }
        })
        .expect("spawn watchdog helper thread");
    tx
}
fn with_deadline<T: Send + 'static>(f: impl FnOnce() -> T + Send + 'static) -> Option<T> {
    let (rtx, rrx) = std::sync::mpsc::channel::<T>();
    let mut job: Option<Job> = Some(Box::new(move || {
        let _ = rtx.send(f());
    }));
    HELPER.with(|h| {
        let mut h = h.borrow_mut();
        for _ in 0..2 {
            if h.is_none() {
                *h = Some(spawn_helper());
            }
            match h.as_ref().unwrap().send(job.take().unwrap()) {
                Ok(()) => break,
                Err(e) => {
                    // helper gone: take the job back and start a new one
                    job = Some(e.0);
                    *h = None;
                }
            }
        }
    });
    match rrx.recv_timeout(DEADLINE) {
        Ok(v) => Some(v),
        Err(_) => {
            HELPER.with(|h| *h.borrow_mut() = None);
            None
        }
    }
}

fn presets() -> [(&'static str, Option<ParseOptions>); 3] {
    [("default", None), ("strict", Some(ParseOptions::strict())), ("lenient", Some(ParseOptions::lenient()))]
}

fn first_diff(want: &PageView, got: &PageView) -> Option<&'static str> {
    if want.obj != got.obj {
        return Some("page-object");
    }
    if want.media_box != got.media_box {
        return Some("MediaBox");
    }
    if want.crop_box != got.crop_box {
        return Some("CropBox");
    }
    if want.rotate != got.rotate {
        return Some("Rotate");
    }
    if want.resources != got.resources {
        return Some("Resources");
    }
    None
}

fn pv_json(p: &PageView) -> serde_json::Value {
    json!({"obj": p.obj, "MediaBox": p.media_box, "CropBox": p.crop_box, "Rotate": p.rotate,
           "Resources": p.resources.as_ref().map(|r| vx::show_bytes(r, 120))})
}

pub fn run(rep: &mut Report) {
    crate::util::tune_malloc();
    let thorough = rep.tier.is_thorough();
    let max_nodes = if thorough { 7 } else { 5 };
    rep.rule("case = one page tree (shape, node kinds, kids-array form, attribute placement or one malformation) opened under each preset; \
              non-trivial = the tree has at least one page below a non-root /Pages node or an attribute placed off the page itself; distinct = distinct file bytes");
    rep.assume("model: document order = depth-first order of /Kids; attribute = nearest ancestor-or-self that sets it (ISO 32000-1 7.7.3.4); \
                refpdf::file::PdfFile::pages() and the strict validator must agree with the model on every well-formed file first");
    rep.assume("malformed trees (wrong /Count, shared kid, cycle): only termination within the deadline without panic is demanded");
    rep.assume("attribute values are direct objects; only /Kids is varied between direct and indirect");
    rep.note("max_nodes", json!(max_nodes));
    rep.note("deadline_s", json!(DEADLINE.as_secs()));

    rep.explore("wellformed", Explore::dev(2), |c: &mut Ctx| {
        let mut nodes = choose_tree(c, max_nodes);
        let all_indirect = c.choose("kids_mode", 2) == 1;
        for i in 0..nodes.len() {
            if nodes[i].is_pages {
                nodes[i].kids_indirect = if all_indirect { true } else { c.choose_dev("kids_indirect", 2) == 1 };
            }
            for a in 0..4 {
                nodes[i].set[a] = c.choose_dev("attr", 2) == 1;
            }
        }
        let bytes = build_file(&nodes);
        c.input(vx::hbytes(&bytes));
        let want = model_pages(&nodes);
        let deep = want.iter().any(|p| nodes[(p.obj - 2) as usize].parent != Some(0));
        let inherited = nodes.iter().any(|n| n.is_pages && n.set.iter().any(|s| *s));
        if deep || inherited {
            c.nontrivial();
        }
        let desc = format!(
            "tree={} kids={} placed=[{}]",
            shape(&nodes, 0),
            if all_indirect { "all-indirect".to_string() } else { format!("indirect-at{:?}", nodes.iter().enumerate().filter(|(_, n)| n.kids_indirect).map(|(i, _)| num(i)).collect::<Vec<_>>()) },
            nodes.iter().enumerate().flat_map(|(i, n)| (0..4).filter(move |a| n.set[*a]).map(move |a| format!("{}@{}", ATTRS[a], num(i)))).collect::<Vec<_>>().join(",")
        );
        match reference_pages(&bytes) {
            Ok(rp) if rp == want => {}
            other => {
                c.fail("C18/harness-reference-reader-disagrees-with-model", format!("{desc}: model={want:?} reference={other:?}"));
                return;
            }
        }
        let mut oh = 0u64;
        for (pname, opts) in presets() {
            let b = bytes.clone();
            let cap = want.len() as u32 + 2;
            let Some(v) = with_deadline(move || observe(b, opts, cap)) else {
                c.fail("C18/hang-on-wellformed-tree", format!("{desc} preset={pname}: no answer within {DEADLINE:?}"));
                continue;
            };
            let ctx = format!("{desc} preset={pname}");
            if let Some(p) = &v.panic {
                c.fail(format!("C18/panic@{}", vx::panic_site(p)), format!("{ctx}: {p}"));
                continue;
            }
            if let Err(e) = &v.open {
                c.fail("C18/open-fails-on-wellformed-tree", format!("{ctx}: {e}"));
                continue;
            }
            if v.reader_count != Some(Ok(want.len() as u32)) {
                c.fail("C18/reader-page-count-wrong", format!("{ctx}: PdfReader::page_count want {} got {:?}", want.len(), v.reader_count));
            }
            if v.doc_count != Some(Ok(want.len() as u32)) {
                c.fail("C18/document-page-count-wrong", format!("{ctx}: PdfDocument::page_count want {} got {:?}", want.len(), v.doc_count));
            }
            for (i, w) in want.iter().enumerate() {
                match v.pages.get(i) {
                    Some(Ok(g)) => {
                        if let Some(what) = first_diff(w, g) {
                            c.fail(format!("C18/get-page-wrong-{what}"), format!("{ctx}: page {i} want {} got {}", pv_json(w), pv_json(g)));
                        }
                    }
                    Some(Err(e)) => c.fail("C18/get-page-fails-on-wellformed-tree", format!("{ctx}: page {i}: {e}")),
                    None => {}
                }
            }
            if v.doc_count == Some(Ok(want.len() as u32)) {
                if let Some(Ok(o)) = &v.past_end {
                    c.fail("C18/get-page-past-the-end-succeeds", format!("{ctx}: get_page({}) returned object {o}", want.len()));
                }
            }
            oh = vx::hmix(oh, vx::h64(&format!("{:?}{:?}{:?}", v.doc_count, v.pages.iter().map(|p| p.as_ref().map(|p| p.obj).map_err(|_| 0)).collect::<Vec<_>>(), v.past_end.as_ref().map(|r| r.is_ok()))));
        }
        c.add_evaluations(2);
        c.outcome(oh);
        c.sample(json!({"case": desc, "pages": want.iter().map(pv_json).collect::<Vec<_>>(), "file_len": bytes.len()}));
    });

    rep.explore("malformed", Explore::full(), |c: &mut Ctx| {
        let mut nodes = choose_tree(c, max_nodes);
        let indirect = c.choose("kids_mode", 2) == 1;
        for n in nodes.iter_mut() {
            n.kids_indirect = indirect && n.is_pages;
        }
        // catalogue of single malformations of this tree
        #[derive(Clone, Debug)]
        enum M {
            Count(usize, &'static str, i64),
            Shared(usize, usize),
            Cycle(usize, usize),
        }
        let mut menu: Vec<M> = Vec::new();
        for i in 0..nodes.len() {
            if nodes[i].is_pages {
                let mut lv = Vec::new();
                leaves_under(&nodes, i, &mut lv);
                let right = lv.len() as i64;
                for (name, v) in [("+1", right + 1), ("-1", right - 1), ("0", 0), ("huge", 9_999_999_999)] {
                    if v != right {
                        menu.push(M::Count(i, name, v));
                    }
                }
            }
        }
        for x in 1..nodes.len() {
            for q in 0..nodes.len() {
                if nodes[q].is_pages && Some(q) != nodes[x].parent && !in_subtree(&nodes, x, q) {
                    menu.push(M::Shared(x, q));
                }
            }
        }
        for x in 0..nodes.len() {
            if nodes[x].is_pages {
                for q in 0..nodes.len() {
                    if nodes[q].is_pages && in_subtree(&nodes, x, q) {
                        menu.push(M::Cycle(x, q));
                    }
                }
            }
        }
        let m = menu[c.choose("malformation", menu.len())].clone();
        let mdesc = match &m {
            M::Count(i, name, v) => {
                nodes[*i].count_override = Some(*v);
                format!("/Count of {} is {name} ({v})", num(*i))
            }
            M::Shared(x, q) => {
                nodes[*q].extra_kids.push(*x);
                format!("{} also listed as kid of {}", num(*x), num(*q))
            }
            M::Cycle(x, q) => {
                nodes[*q].extra_kids.push(*x);
                format!("cycle: {} listed among the kids of {}", num(*x), num(*q))
            }
        };
        let bytes = build_file(&nodes);
        c.input(vx::hbytes(&bytes));
        c.nontrivial();
        let desc = format!("tree={} kids={} malformation: {mdesc}", shape(&nodes, 0), if indirect { "indirect" } else { "direct" });
        // the file itself must be a structurally sound PDF (only the page tree is malformed)
        match PdfFile::parse(&bytes) {
            Ok(f) => {
                let issues = refpdf::file::validate_file(&f);
                if !issues.is_empty() {
                    c.fail("C18/harness-file-not-structurally-valid", format!("{desc}: {issues:?}"));
                    return;
                }
            }
            Err(e) => {
                c.fail("C18/harness-file-not-structurally-valid", format!("{desc}: {e}"));
                return;
            }
        }
        let mut oh = 0u64;
        for (pname, opts) in presets() {
            let b = bytes.clone();
            let Some(v) = with_deadline(move || observe(b, opts, 16)) else {
                c.fail("C18/hang-on-malformed-tree", format!("{desc} preset={pname}: no answer within {DEADLINE:?}"));
                continue;
            };
            if let Some(p) = &v.panic {
                c.fail(format!("C18/panic@{}", vx::panic_site(p)), format!("{desc} preset={pname}: {p}"));
                continue;
            }
            oh = vx::hmix(
                oh,
                vx::h64(&format!(
                    "{:?}|{:?}|{:?}|{:?}",
                    v.open.is_ok(),
                    v.reader_count.as_ref().map(|r| r.as_ref().ok()),
                    v.doc_count.as_ref().map(|r| r.as_ref().ok()),
                    v.pages.iter().map(|p| p.as_ref().map(|p| p.obj).map_err(|_| 0)).collect::<Vec<_>>()
                )),
            );
        }
        c.add_evaluations(2);
        c.outcome(oh);
        c.sample(json!({"case": desc, "file_len": bytes.len()}));
    });
}
