//! C23 — cryptographic building blocks match their reference definitions.
//!
//! The library's public functions in `oxidize_pdf::encryption` (and, for the reader-side use
//! of Algorithm 2 with /EncryptMetadata, `oxidize_pdf::parser::EncryptionHandler`) are compared
//! with `refpdf::crypto`, which is written from FIPS-197 / RFC 6229 / ISO 32000-1 §7.6 /
//! ISO 32000-2 §7.6 and bound to qpdf and pypdf through their fixtures.
//!
//! Sections (everything enumerated, nothing sampled):
//!  * `rc4`           key length × byte pattern, every data length inside: keystream equality,
//!                    decrypt∘encrypt = id, in-place and split processing.
//!  * `aes-cbc`       key size × key pattern × IV pattern, every data length 0..=64 and
//!                    {255,256,257,4096} × 2 data patterns: CBC+PKCS#7, raw CBC, ECB.
//!  * `permissions`   all 256 flag sets against ISO 32000-1 Table 22.
//!  * `handler-rc4`   R2,R3,R4 × password family × owner mode × P × file id, every password
//!                    length 0..=127: Algorithms 1–7 through the handler API.
//!  * `reader-rc4`    the same algorithms as the reader uses them (with /EncryptMetadata),
//!                    on encryption dictionaries produced by the reference.
//!  * `handler-aes256` R5,R6 × family × owner mode × seed, every password length 0..=127:
//!                    Algorithms 2.A, 2.B, 8, 9, 11, 12 (library entries verified by the
//!                    reference, reference entries opened by the library).
//!  * `perms-entry`   Algorithms 10 and 13: P × EncryptMetadata × key pattern × seed.
//!  * `saslprep`      three passwords whose SASLprep form is pinned by RFC 3454/4013.
//!  * `object-cipher` per-object string/stream encryption of each handler (Algorithm 1, 1.A).
use oxidize_pdf::encryption::{
    compute_hash_r6_algorithm_2b, Aes, AesKey, EncryptionKey, OwnerPassword, PermissionFlags, Permissions, Rc4, Rc4Key, StandardSecurityHandler, UserPassword,
};
use oxidize_pdf::objects::ObjectId;
use oxidize_pdf::parser::{EncryptionHandler, PdfDictionary, PdfName, PdfObject, PdfString};
use refpdf::crypto as rc;
use serde_json::json;
use vx::{Ctx, Explore, Report};

pub const BUILT: bool = true;

// ---------------------------------------------------------------- byte patterns

const PATTERN_NAMES: [&str; 4] = ["zeros", "ones", "counter", "scrambled"];
fn pattern(kind: usize, n: usize, salt: usize) -> Vec<u8> {
    match kind {
        0 => vec![0u8; n],
        1 => vec![0xFFu8; n],
        2 => (0..n).map(|i| ((i + salt) % 256) as u8).collect(),
        _ => (0..n).map(|i| (((i + salt) * 167 + 13 + (i * i) / 3) % 256) as u8).collect(),
    }
}

// ---------------------------------------------------------------- passwords

const FAMILIES: [&str; 4] = ["ascii-alnum", "ascii-printable", "latin1-letters", "mixed"];
const ALNUM: &[u8] = b"abcdefghijklmnopqrstuvwxyzABCDEFGHIJKLMNOPQRSTUVWXYZ0123456789";
const LATIN: [char; 8] = ['é', 'ñ', 'ü', 'ß', 'É', 'Ø', 'å', 'ç'];
const MIXED: [char; 7] = ['a', 'é', 'Z', '€', '9', 'ñ', '('];

/// A password whose UTF-8 form has exactly `nbytes` bytes. All characters are SASLprep-stable
/// (NFKC-invariant, not in any RFC 3454 mapping or prohibition table) and exist in
/// PDFDocEncoding.
pub fn pw_string(family: usize, nbytes: usize, salt: usize) -> String {
    let mut s = String::new();
    let mut i = salt;
    while s.len() < nbytes {
        let left = nbytes - s.len();
        let c: char = match family {
            0 => ALNUM[i % ALNUM.len()] as char,
            1 => (0x20 + (i % 95) as u8) as char,
            2 => {
                if left >= 2 {
                    LATIN[i % LATIN.len()]
                } else {
                    'x'
                }
            }
            _ => {
                let c = MIXED[i % MIXED.len()];
                if c.len_utf8() <= left {
                    c
                } else {
                    'x'
                }
            }
        };
        s.push(c);
        i += 1;
    }
    debug_assert_eq!(s.len(), nbytes);
    s
}

/// ISO 32000-1 §7.6.3.3: the password is converted to PDFDocEncoding (Annex D.2: U+0020..7E
/// and U+00A1..FF map to themselves, the euro sign to 0xA0). None when a character is not in
/// the encoding.
fn pdfdoc_bytes(s: &str) -> Option<Vec<u8>> {
    s.chars()
        .map(|c| match c as u32 {
            0x20..=0x7E => Some(c as u8),
            0xA1..=0xAC | 0xAE..=0xFF => Some(c as u32 as u8),
            0x20AC => Some(0xA0),
            _ => None,
        })
        .collect()
}

fn owner_for(mode: usize, family: usize, len: usize, user: &str) -> String {
    match mode {
        0 => pw_string(family, (len * 3 + 5) % 128, 11),
        1 => user.to_string(),
        _ => String::new(),
    }
}
const OWNER_MODES: [&str; 3] = ["distinct", "same-as-user", "empty"];

const P_QUICK: [u32; 6] = [0xFFFF_FFFC, 0xFFFF_F0C0, 0xFFFF_F0C4, 0x0000_0000, 0x7FFF_FFFF, 0x8000_0004];
const P_MORE: [u32; 8] = [0xFFFF_F0C8, 0xFFFF_F0D0, 0xFFFF_F0E0, 0xFFFF_F1C0, 0xFFFF_F2C0, 0xFFFF_F4C0, 0xFFFF_F8C0, 0x0000_00FF];

fn file_id(k: usize) -> Vec<u8> {
    match k {
        0 => vec![0u8; 16],
        1 => (0..16u8).map(|i| i.wrapping_mul(37).wrapping_add(0xC8)).collect(),
        _ => (0..32u8).map(|i| 0xFF - i).collect(),
    }
}

fn handler_for(rev: usize) -> (StandardSecurityHandler, u8, usize, &'static str) {
    match rev {
        0 => (StandardSecurityHandler::rc4_40bit(), 2, 5, "R2/rc4_40bit"),
        1 => (StandardSecurityHandler::rc4_128bit(), 3, 16, "R3/rc4_128bit"),
        _ => (StandardSecurityHandler::aes_128_r4(), 4, 16, "R4/aes_128_r4"),
    }
}

fn lib<T>(f: impl FnOnce() -> oxidize_pdf::error::Result<T>) -> Result<T, String> {
    match vx::guard(f) {
        Ok(Ok(v)) => Ok(v),
        Ok(Err(e)) => Err(format!("error: {e}")),
        Err(p) => Err(format!("PANIC {p}")),
    }
}

pub fn run(rep: &mut Report) {
    let thorough = rep.tier.is_thorough();
    rep.rule(
        "one execution = one cell of the section's parameter grid with every length of the dense range evaluated inside \
         (counted as evaluations); non-trivial = the cell feeds at least one non-empty input to the library; \
         distinct = distinct parameter tuple",
    );
    rep.assume("refpdf::crypto is correct: FIPS-197/SP 800-38A/RFC 6229 vectors pass and it decrypts all 28 qpdf/pypdf fixtures with both passwords");
    rep.assume("MD5, SHA-256/384/512 of the md5 and sha2 crates are correct");
    rep.assume("Algorithm 2.B counts rounds as qpdf, pypdf and MuPDF do (test 'last byte <= rounds-32' after round 64 with the number of completed rounds)");
    rep.assume("R5/R6 passwords use SASLprep-stable characters except in section saslprep; R2-R4 passwords use characters present in PDFDocEncoding");
    rep.assume("an empty owner password may be hashed as such or replaced by the user password (Algorithm 3 step a) - both accepted");
    rep.note("out_of_scope", json!("key/data VALUES outside the pattern families; passwords longer than 127 bytes; AES IV uniqueness (IVs come from the seeded hook)"));

    rc4_section(rep, thorough);
    aes_section(rep, thorough);
    permissions_section(rep);
    handler_rc4_section(rep, thorough);
    reader_rc4_section(rep, thorough);
    handler_aes256_section(rep, thorough);
    perms_entry_section(rep, thorough);
    saslprep_section(rep);
    object_cipher_section(rep, thorough);
}

// ================================================================ RC4

fn rc4_section(rep: &mut Report, thorough: bool) {
    let max_key = if thorough { 256 } else { 32 };
    let mut lens: Vec<usize> = (0..=if thorough { 128 } else { 48 }).collect();
    if thorough {
        lens.extend([255, 256, 257, 1024]);
    }
    rep.explore("rc4", Explore::full(), |c: &mut Ctx| {
        let klen = 1 + c.choose("key_len-1", max_key);
        let kp = c.choose("key_pattern", 4);
        let dp = c.choose("data_pattern", 4);
        c.input(vx::h64(&(klen, kp, dp)));
        c.nontrivial();
        let key = pattern(kp, klen, 1);
        let mut oh = 0u64;
        for &n in &lens {
            let data = pattern(dp, n, 7);
            let want = rc::rc4(&key, &data);
            let got = vx::guard(|| Rc4::new(&Rc4Key::from_slice(&key)).process(&data));
            let ok = matches!(&got, Ok(g) if *g == want);
            if !ok {
                c.fail("C23/rc4-output-differs", format!("key={} data_len={n} pattern={} want={} got={:?}", vx::hex(&key), PATTERN_NAMES[dp], vx::hex(&want[..want.len().min(32)]), got.map(|g| vx::hex(&g[..g.len().min(32)]))));
                break;
            }
            let ct = got.unwrap();
            // decrypt(encrypt(x)) == x
            let back = vx::guard(|| Rc4::new(&Rc4Key::new(key.clone())).process(&ct));
            if !matches!(&back, Ok(b) if *b == data) {
                c.fail("C23/rc4-not-an-involution", format!("key={} data_len={n}", vx::hex(&key)));
            }
            // in place, and in two pieces (the cipher state carries over)
            let split = n / 3;
            let pieces = vx::guard(|| {
                let mut r = Rc4::new(&Rc4Key::from_slice(&key));
                let mut a = r.process(&data[..split]);
                let mut rest = data[split..].to_vec();
                r.process_in_place(&mut rest);
                a.extend(rest);
                a
            });
            if !matches!(&pieces, Ok(p) if *p == want) {
                c.fail("C23/rc4-split-or-in-place-differs", format!("key={} data_len={n} split={split}", vx::hex(&key)));
            }
            oh = vx::hmix(oh, ok as u64);
        }
        c.add_evaluations(lens.len() as u64);
        c.outcome(oh);
        c.sample(json!({"key_len": klen, "key_pattern": PATTERN_NAMES[kp], "data_pattern": PATTERN_NAMES[dp], "data_lengths": lens.len()}));
    });
}

// ================================================================ AES

fn mk_aes(key: &[u8]) -> Result<Aes, String> {
    let k = if key.len() == 16 { AesKey::new_128(key.to_vec()) } else { AesKey::new_256(key.to_vec()) };
    k.map(Aes::new).map_err(|e| e.to_string())
}

fn aes_section(rep: &mut Report, thorough: bool) {
    let mut lens: Vec<usize> = (0..=64).collect();
    lens.extend([255, 256, 257, 4096]);
    if thorough {
        lens.extend(65..=160);
        lens.extend([1023, 1024, 1025, 65536]);
    }
    rep.explore("aes-cbc", Explore::full(), |c: &mut Ctx| {
        let ksize = *c.pick_from("key_bytes", &[16usize, 32]);
        let kp = c.choose("key_pattern", 4);
        let ivp = 1 + c.choose("iv_pattern", 3);
        c.input(vx::h64(&(ksize, kp, ivp)));
        c.nontrivial();
        let key = pattern(kp, ksize, 3);
        let iv: [u8; 16] = pattern(ivp, 16, 5).try_into().unwrap();
        let aes = match mk_aes(&key) {
            Ok(a) => a,
            Err(e) => {
                c.fail("C23/aes-key-rejected", format!("{ksize}-byte key: {e}"));
                return;
            }
        };
        let mut oh = 0u64;
        for &n in &lens {
            for dp in [2usize, 3] {
                let data = pattern(dp, n, n);
                let tag = || format!("AES-{} key={} iv={} data_len={n} pattern={}", ksize * 8, vx::hex(&key), vx::hex(&iv), PATTERN_NAMES[dp]);
                let want = rc::aes_cbc_pkcs7_encrypt(&key, &iv, &data);
                let got = vx::guard(|| aes.encrypt_cbc(&data, &iv).map_err(|e| e.to_string()));
                match &got {
                    Ok(Ok(g)) if *g == want => {}
                    other => {
                        c.fail("C23/aes-cbc-pkcs7-ciphertext-differs", format!("{} want_len={} got={:?}", tag(), want.len(), other.as_ref().map(|r| r.as_ref().map(|g| g.len()))));
                        continue;
                    }
                }
                let back = vx::guard(|| aes.decrypt_cbc(&want, &iv).map_err(|e| e.to_string()));
                if !matches!(&back, Ok(Ok(b)) if *b == data) {
                    c.fail("C23/aes-cbc-pkcs7-decrypt-not-inverse", format!("{} got={:?}", tag(), back.map(|r| r.map(|b| b.len()))));
                }
                if n % 16 == 0 {
                    let want_raw = rc::aes_cbc_encrypt_nopad(&key, &iv, &data);
                    let got_raw = vx::guard(|| aes.encrypt_cbc_raw(&data, &iv).map_err(|e| e.to_string()));
                    if !matches!(&got_raw, Ok(Ok(g)) if *g == want_raw) {
                        c.fail("C23/aes-cbc-raw-ciphertext-differs", tag());
                    }
                    let back_raw = vx::guard(|| aes.decrypt_cbc_raw(&want_raw, &iv).map_err(|e| e.to_string()));
                    if !matches!(&back_raw, Ok(Ok(b)) if *b == data) {
                        c.fail("C23/aes-cbc-raw-decrypt-not-inverse", tag());
                    }
                    if n > 0 && n <= 256 {
                        // ECB = every block on its own
                        let a = rc::Aes::new(&key);
                        let mut want_ecb = Vec::new();
                        for ch in data.chunks(16) {
                            let mut b: [u8; 16] = ch.try_into().unwrap();
                            a.encrypt_block(&mut b);
                            want_ecb.extend_from_slice(&b);
                        }
                        let got_ecb = vx::guard(|| aes.encrypt_ecb(&data).map_err(|e| e.to_string()));
                        if !matches!(&got_ecb, Ok(Ok(g)) if *g == want_ecb) {
                            c.fail("C23/aes-ecb-ciphertext-differs", tag());
                        }
                        let back_ecb = vx::guard(|| aes.decrypt_ecb(&want_ecb).map_err(|e| e.to_string()));
                        if !matches!(&back_ecb, Ok(Ok(b)) if *b == data) {
                            c.fail("C23/aes-ecb-decrypt-not-inverse", tag());
                        }
                    }
                }
                oh = vx::hmix(oh, n as u64);
            }
        }
        c.add_evaluations(2 * lens.len() as u64);
        c.outcome(oh);
        c.sample(json!({"key_bits": ksize * 8, "key_pattern": PATTERN_NAMES[kp], "iv_pattern": PATTERN_NAMES[ivp], "data_lengths": lens.len(), "data_patterns": 2}));
    });
}

// ================================================================ permissions (Table 22)

fn permissions_section(rep: &mut Report) {
    rep.explore("permissions", Explore::full(), |c: &mut Ctx| {
        let m = c.choose("flag_set", 256);
        c.input(m as u64);
        if m != 0 {
            c.nontrivial();
        }
        let f = PermissionFlags {
            print: m & 1 != 0,
            modify_contents: m & 2 != 0,
            copy: m & 4 != 0,
            modify_annotations: m & 8 != 0,
            fill_forms: m & 16 != 0,
            accessibility: m & 32 != 0,
            assemble: m & 64 != 0,
            print_high_quality: m & 128 != 0,
        };
        // Table 22: bit positions (1-based) 3 print, 4 modify, 5 copy, 6 annotations, 9 fill forms,
        // 10 extract for accessibility, 11 assemble, 12 high-quality print; bits 1-2 zero,
        // 7-8 and 13-32 one
        let bitpos = [3u32, 4, 5, 6, 9, 10, 11, 12];
        let mut want: u32 = 0xFFFF_F0C0;
        for (i, b) in bitpos.iter().enumerate() {
            if m & (1 << i) != 0 {
                want |= 1 << (b - 1);
            }
        }
        let p = Permissions::from_flags(f);
        if p.bits() != want {
            c.fail("C23/permission-bits-differ-from-table-22", format!("flags={f:?} want={want:#010x} got={:#010x}", p.bits()));
        }
        let q = Permissions::from_bits(want);
        let back = q.flags();
        let got_m = [back.print, back.modify_contents, back.copy, back.modify_annotations, back.fill_forms, back.accessibility, back.assemble, back.print_high_quality]
            .iter()
            .enumerate()
            .fold(0usize, |a, (i, b)| a | ((*b as usize) << i));
        if got_m != m || q.bits() != want {
            c.fail("C23/permission-flags-do-not-read-back", format!("bits={want:#010x} want_flags={m:#010b} got={got_m:#010b}"));
        }
        if m == 255 && Permissions::all().bits() != want {
            c.fail("C23/permissions-all-differs", format!("{:#010x}", Permissions::all().bits()));
        }
        if m == 0 && Permissions::new().bits() != want {
            c.fail("C23/permissions-none-differs", format!("{:#010x}", Permissions::new().bits()));
        }
        c.outcome(p.bits() as u64);
        c.sample(json!({"flags": format!("{m:#010b}"), "bits": format!("{want:#010x}")}));
    });
}

// ================================================================ R2–R4 handler API

/// Which byte string the library hashed for this password, judged from one output.
fn classify_pw_bytes(c: &mut Ctx, what: &str, ok_spec: bool, ok_utf8: bool, detail: String) {
    if ok_spec {
        return;
    }
    if ok_utf8 {
        c.fail("C23/r2-r4-password-hashed-as-utf8-not-pdfdocencoding", format!("{what}: {detail}"));
    } else {
        c.fail(format!("C23/{what}-differs-from-algorithm"), detail);
    }
}

fn handler_rc4_section(rep: &mut Report, thorough: bool) {
    let ps: Vec<u32> = if thorough { P_QUICK.iter().chain(P_MORE.iter()).copied().collect() } else { P_QUICK.to_vec() };
    rep.explore("handler-rc4", Explore::full(), |c: &mut Ctx| {
        let rev = c.choose("revision", 3);
        let fam = c.choose("password_family", 4);
        let om = c.choose("owner_mode", 3);
        let p = *c.pick_from("P", &ps);
        let idk = c.choose("file_id", 3);
        c.input(vx::h64(&(rev, fam, om, p, idk)));
        c.nontrivial();
        let (h, r, klen, hname) = handler_for(rev);
        let id = file_id(idk);
        let perms = Permissions::from_bits(p);
        let mut oh = 0u64;
        for len in 0..=127usize {
            let user = pw_string(fam, len, 0);
            let owner = owner_for(om, fam, len, &user);
            let tag = || format!("{hname} user={user:?}({len} bytes) owner={owner:?} P={p:#010x} id={}", vx::hex(&id));
            let (up, op) = (UserPassword(user.clone()), OwnerPassword(owner.clone()));
            // the two candidate byte views of the passwords
            let views: Vec<(Vec<u8>, Vec<u8>)> = {
                let mut v = Vec::new();
                if let (Some(u), Some(o)) = (pdfdoc_bytes(&user), pdfdoc_bytes(&owner)) {
                    v.push((u, o));
                }
                v.push((user.as_bytes().to_vec(), owner.as_bytes().to_vec()));
                v
            };
            // ---- Algorithm 3
            let got_o = match vx::guard(|| h.compute_owner_hash(&op, &up)) {
                Ok(o) => o,
                Err(e) => {
                    c.fail("C23/compute-owner-hash-panics", format!("{}: {e}", tag()));
                    continue;
                }
            };
            let o_matches = |u: &[u8], o: &[u8]| {
                let a = rc::alg3_o(o, u, r, klen);
                // "no owner password": spec substitutes the user password; hashing the empty string is accepted too
                let b: [u8; 32] = {
                    let key = rc::alg3_owner_rc4_key(o, r, klen);
                    let mut v = rc::rc4(&key, &rc::pad_password(u));
                    if r >= 3 {
                        for i in 1..=19u8 {
                            let k: Vec<u8> = key.iter().map(|x| x ^ i).collect();
                            v = rc::rc4(&k, &v);
                        }
                    }
                    v.try_into().unwrap()
                };
                got_o[..] == a[..] || got_o[..] == b[..]
            };
            let ok_spec = o_matches(&views[0].0, &views[0].1);
            let ok_utf8 = o_matches(&views.last().unwrap().0, &views.last().unwrap().1);
            classify_pw_bytes(c, "O-entry", ok_spec, ok_utf8, format!("{} got O={}", tag(), vx::hex(&got_o)));
            // ---- Algorithm 2 and 4/5, computed on the library's own O so that one defect is reported once
            let got_key = lib(|| h.compute_encryption_key(&up, &got_o, perms, Some(&id)));
            let got_u = lib(|| h.compute_user_hash(&up, &got_o, perms, Some(&id)));
            let key_of = |u: &[u8]| rc::alg2_file_key(u, &got_o, p as i32, &id, r, klen, true);
            match &got_key {
                Ok(k) => {
                    let ok_spec = k.as_bytes() == &key_of(&views[0].0)[..];
                    let ok_utf8 = k.as_bytes() == &key_of(&views.last().unwrap().0)[..];
                    classify_pw_bytes(c, "file-key", ok_spec, ok_utf8, format!("{} got key={}", tag(), vx::hex(k.as_bytes())));
                }
                Err(e) => c.fail("C23/compute-encryption-key-fails", format!("{}: {e}", tag())),
            }
            match &got_u {
                Ok(u) => {
                    let u_ok = |pw: &[u8]| {
                        let k = key_of(pw);
                        if r == 2 {
                            u[..] == rc::alg4_u(&k)[..]
                        } else {
                            u.len() == 32 && u[..16] == rc::alg5_u16(&k, &id)[..]
                        }
                    };
                    let ok_spec = u_ok(&views[0].0);
                    let ok_utf8 = u_ok(&views.last().unwrap().0);
                    classify_pw_bytes(c, "U-entry", ok_spec, ok_utf8, format!("{} got U={}", tag(), vx::hex(u)));
                    // ---- Algorithm 6 through the API
                    match lib(|| h.validate_user_password(&up, u, &got_o, perms, Some(&id))) {
                        Ok(true) => {}
                        other => c.fail("C23/validate-user-password-rejects-the-user-password", format!("{}: {other:?}", tag())),
                    }
                    let wrong = UserPassword(format!("{user}~"));
                    if len < 32 {
                        match lib(|| h.validate_user_password(&wrong, u, &got_o, perms, Some(&id))) {
                            Ok(false) => {}
                            other => c.fail("C23/validate-user-password-accepts-another-password", format!("{} tried {:?}: {other:?}", tag(), wrong.0)),
                        }
                    }
                    // ---- Algorithm 7 through the API
                    let res = lib(|| h.validate_owner_password(&op, &got_o, &up, perms, Some(&id), None));
                    // what the reference says about this owner password on these entries
                    let q = rc::Rc4Params { r, key_len: klen, o: &got_o, u, p: p as i32, id0: &id, encrypt_metadata: true };
                    let ref_accepts = rc::alg7_owner(owner.as_bytes(), &q).is_some();
                    match (&res, ref_accepts) {
                        (Ok(true), true) | (Ok(false), false) => {}
                        (Ok(false), true) => {
                            // known defect signature: the API rebuilds the user password as *text* from the
                            // decrypted /O (cut at the first 0x28, lossy UTF-8) instead of using the 32 bytes
                            let first32 = &user.as_bytes()[..user.len().min(32)];
                            let text_rebuild_breaks = user.is_empty() || first32.contains(&0x28) || std::str::from_utf8(first32).is_err();
                            if text_rebuild_breaks {
                                c.fail("C23/validate-owner-password-rebuilds-user-password-as-text", format!("{}: owner password rejected", tag()));
                            } else {
                                c.fail("C23/validate-owner-password-rejects-the-owner-password", format!("{}: {res:?}", tag()));
                            }
                        }
                        (other, _) => c.fail("C23/validate-owner-password-wrong-answer", format!("{}: got {other:?}, Algorithm 7 says {ref_accepts}", tag())),
                    }
                }
                Err(e) => c.fail("C23/compute-user-hash-fails", format!("{}: {e}", tag())),
            }
            oh = vx::hmix(oh, vx::h64(&(got_key.is_ok(), got_u.is_ok())));
        }
        c.add_evaluations(127);
        c.outcome(oh);
        c.sample(json!({"handler": hname, "family": FAMILIES[fam], "owner": OWNER_MODES[om], "P": format!("{p:#010x}"), "file_id": vx::hex(&id), "password_lengths": "0..=127"}));
    });
}

// ================================================================ R2–R4 as the reader uses them

fn pdf_str(b: &[u8]) -> PdfObject {
    PdfObject::String(PdfString::new(b.to_vec()))
}
fn pdf_name(s: &str) -> PdfObject {
    PdfObject::Name(PdfName(s.to_string()))
}

fn std_cf(cfm: &str, len: i64) -> PdfObject {
    let mut f = PdfDictionary::new();
    f.insert("Type".into(), pdf_name("CryptFilter"));
    f.insert("CFM".into(), pdf_name(cfm));
    f.insert("AuthEvent".into(), pdf_name("DocOpen"));
    f.insert("Length".into(), PdfObject::Integer(len));
    let mut cf = PdfDictionary::new();
    cf.insert("StdCF".into(), PdfObject::Dictionary(f));
    PdfObject::Dictionary(cf)
}

fn reader_rc4_section(rep: &mut Report, thorough: bool) {
    let ps: Vec<u32> = if thorough { P_QUICK.to_vec() } else { vec![0xFFFF_FFFC, 0xFFFF_F0C4, 0x8000_0004] };
    const SCHEMES: [&str; 4] = ["R2", "R3", "R4-V2", "R4-AESV2"];
    rep.explore("reader-rc4", Explore::full(), |c: &mut Ctx| {
        let sch = c.choose("scheme", 4);
        let fam = c.choose("password_family", 4);
        let om = c.choose("owner_mode", 2);
        let p = *c.pick_from("P", &ps);
        let idk = c.choose("file_id", 2);
        let em = if sch >= 2 { !c.flag("cleartext_metadata") } else { true };
        c.input(vx::h64(&(sch, fam, om, p, idk, em)));
        c.nontrivial();
        let (r, klen): (u8, usize) = match sch {
            0 => (2, 5),
            1 => (3, 16),
            _ => (4, 16),
        };
        let id = file_id(idk);
        let mut oh = 0u64;
        for len in 0..=127usize {
            let user = pw_string(fam, len, 0);
            let mut owner = owner_for(om, fam, len, &user);
            if owner.is_empty() {
                // Algorithm 3 (a): without an owner password the user password takes its place
                owner = user.clone();
            }
            // byte-level: the reference hashes the bytes the library's String carries
            let (ub, ob) = (user.as_bytes(), owner.as_bytes());
            let o = rc::alg3_o(ob, ub, r, klen);
            let key = rc::alg2_file_key(ub, &o, p as i32, &id, r, klen, em);
            let u: Vec<u8> = if r == 2 {
                rc::alg4_u(&key).to_vec()
            } else {
                let mut u = rc::alg5_u16(&key, &id).to_vec();
                u.extend_from_slice(&[0x5A; 16]);
                u
            };
            let mut d = PdfDictionary::new();
            d.insert("Filter".into(), pdf_name("Standard"));
            d.insert("O".into(), pdf_str(&o));
            d.insert("U".into(), pdf_str(&u));
            d.insert("P".into(), PdfObject::Integer(p as i32 as i64));
            match sch {
                0 => {
                    d.insert("V".into(), PdfObject::Integer(1));
                    d.insert("R".into(), PdfObject::Integer(2));
                }
                1 => {
                    d.insert("V".into(), PdfObject::Integer(2));
                    d.insert("R".into(), PdfObject::Integer(3));
                    d.insert("Length".into(), PdfObject::Integer(128));
                }
                _ => {
                    d.insert("V".into(), PdfObject::Integer(4));
                    d.insert("R".into(), PdfObject::Integer(4));
                    d.insert("Length".into(), PdfObject::Integer(128));
                    d.insert("CF".into(), std_cf(if sch == 2 { "V2" } else { "AESV2" }, 16));
                    d.insert("StmF".into(), pdf_name("StdCF"));
                    d.insert("StrF".into(), pdf_name("StdCF"));
                    d.insert("EncryptMetadata".into(), PdfObject::Boolean(em));
                }
            }
            let tag = || format!("{} EncryptMetadata={em} user={user:?} owner={owner:?} P={p:#010x} id={}", SCHEMES[sch], vx::hex(&id));
            let try_pw = |pw: &str, as_owner: bool| -> Result<(bool, Option<Vec<u8>>), String> {
                match vx::guard(|| {
                    let mut h = EncryptionHandler::new(&d, Some(id.clone())).map_err(|e| e.to_string())?;
                    let ok = if as_owner { h.unlock_with_owner_password(pw) } else { h.unlock_with_user_password(pw) }.map_err(|e| e.to_string())?;
                    Ok::<_, String>((ok, h.encryption_key().map(|k| k.as_bytes().to_vec())))
                }) {
                    Ok(r) => r,
                    Err(p) => Err(format!("PANIC {p}")),
                }
            };
            match try_pw(&user, false) {
                Ok((true, Some(k))) if k == key => {}
                Ok((true, Some(k))) => c.fail("C23/reader-user-unlock-derives-wrong-file-key", format!("{} want={} got={}", tag(), vx::hex(&key), vx::hex(&k))),
                other => c.fail("C23/reader-rejects-user-password", format!("{}: {other:?}", tag())),
            }
            match try_pw(&owner, true) {
                Ok((true, Some(k))) if k == key => {}
                Ok((true, Some(k))) => c.fail("C23/reader-owner-unlock-derives-wrong-file-key", format!("{} want={} got={}", tag(), vx::hex(&key), vx::hex(&k))),
                other => c.fail("C23/reader-rejects-owner-password", format!("{}: {other:?}", tag())),
            }
            // a password that is neither (reference decides) must be refused in both roles
            let wrong = format!("{}#", &user);
            let q = rc::Rc4Params { r, key_len: klen, o: &o, u: &u, p: p as i32, id0: &id, encrypt_metadata: em };
            if rc::alg6_user(wrong.as_bytes(), &q).is_none() && rc::alg7_owner(wrong.as_bytes(), &q).is_none() {
                for as_owner in [false, true] {
                    match try_pw(&wrong, as_owner) {
                        Ok((false, None)) => {}
                        other => c.fail("C23/reader-accepts-a-wrong-password", format!("{} tried {wrong:?} as_owner={as_owner}: {other:?}", tag())),
                    }
                }
            }
            oh = vx::hmix(oh, len as u64);
        }
        c.add_evaluations(127);
        c.outcome(oh);
        c.sample(json!({"scheme": SCHEMES[sch], "family": FAMILIES[fam], "owner": OWNER_MODES[om], "P": format!("{p:#010x}"), "EncryptMetadata": em, "password_lengths": "0..=127"}));
    });
}

// ================================================================ R5 / R6

fn handler_aes256_section(rep: &mut Report, thorough: bool) {
    let seeds: Vec<u64> = if thorough { vec![1, 2, 0xFFFF_FFFF_FFFF_FFFF] } else { vec![1] };
    const BLOCK: usize = 16;
    rep.explore("handler-aes256", Explore::full(), |c: &mut Ctx| {
        let rev = *c.pick_from("revision", &[5u8, 6]);
        // family 1 (all printable ASCII) is SASLprep-stable as well: ASCII space maps to itself.
        // quick: the three families with punctuation / non-ASCII, owner distinct or equal to the user;
        // thorough adds the alphanumeric family and the empty owner password
        let fam = if thorough { c.choose("password_family", 4) } else { 1 + c.choose("password_family", 3) };
        let om = c.choose("owner_mode", if thorough { 3 } else { 2 });
        let seed = *c.pick_from("seed", &seeds);
        let block = c.choose("length_block", 128 / BLOCK);
        c.input(vx::h64(&(rev, fam, om, seed, block)));
        c.nontrivial();
        let h = if rev == 5 { StandardSecurityHandler::aes_256_r5() } else { StandardSecurityHandler::aes_256_r6() };
        let mut oh = 0u64;
        for len in block * BLOCK..(block + 1) * BLOCK {
            let user = pw_string(fam, len, 0);
            let owner = owner_for(om, fam, len, &user);
            let (up, op) = (UserPassword(user.clone()), OwnerPassword(owner.clone()));
            let (ub, ob) = (user.as_bytes(), owner.as_bytes());
            let tag = || format!("R{rev} seed={seed} user={user:?}({len} bytes) owner={owner:?}");
            oxidize_pdf::verif_hooks::seed_rng(Some(seed ^ (len as u64) << 8));
            let fkey: [u8; 32] = pattern(3, 32, len).try_into().unwrap();
            let ek = EncryptionKey::new(fkey.to_vec());

            // ---- library makes the entries (Algorithms 8, 9), the reference verifies them
            let u = lib(|| if rev == 5 { h.compute_r5_user_hash(&up) } else { h.compute_r6_user_hash(&up) });
            let Ok(u) = u else {
                c.fail("C23/r56-compute-user-hash-fails", format!("{}: {:?}", tag(), u.err()));
                continue;
            };
            if u.len() != 48 {
                c.fail("C23/r56-U-entry-not-48-bytes", format!("{}: {}", tag(), u.len()));
                continue;
            }
            if !rc::alg11_user_ok(rev, ub, &u) {
                c.fail("C23/r56-U-entry-differs-from-algorithm-8", format!("{} U={}", tag(), vx::hex(&u)));
            }
            let o = lib(|| if rev == 5 { h.compute_r5_owner_hash(&op, &u) } else { h.compute_r6_owner_hash(&op, &u) });
            let Ok(o) = o else {
                c.fail("C23/r56-compute-owner-hash-fails", format!("{}: {:?}", tag(), o.err()));
                continue;
            };
            if o.len() != 48 || !rc::alg12_owner_ok(rev, ob, &o, &u) {
                c.fail("C23/r56-O-entry-differs-from-algorithm-9", format!("{} O={}", tag(), vx::hex(&o)));
            }
            let ue = lib(|| if rev == 5 { h.compute_r5_ue_entry(&up, &u, &ek) } else { h.compute_r6_ue_entry(&up, &u, &ek) });
            let oe = lib(|| if rev == 5 { h.compute_r5_oe_entry(&op, &o, &u, &fkey) } else { h.compute_r6_oe_entry(&op, &o, &u, &fkey) });
            match (&ue, &oe) {
                (Ok(ue), Ok(oe)) => {
                    let u48: [u8; 48] = u.clone().try_into().unwrap();
                    let (vs, ks): ([u8; 8], [u8; 8]) = (u[32..40].try_into().unwrap(), u[40..48].try_into().unwrap());
                    let (_, want_ue) = rc::alg8_u_ue(rev, ub, &fkey, &vs, &ks);
                    if ue[..] != want_ue[..] {
                        c.fail("C23/r56-UE-differs-from-algorithm-8", format!("{} want={} got={}", tag(), vx::hex(&want_ue), vx::hex(ue)));
                    }
                    if o.len() == 48 {
                        let (ovs, oks): ([u8; 8], [u8; 8]) = (o[32..40].try_into().unwrap(), o[40..48].try_into().unwrap());
                        let (want_o, want_oe) = rc::alg9_o_oe(rev, ob, &fkey, &ovs, &oks, &u48);
                        if oe[..] != want_oe[..] || o[..] != want_o[..] {
                            c.fail("C23/r56-OE-differs-from-algorithm-9", format!("{} want={} got={}", tag(), vx::hex(&want_oe), vx::hex(oe)));
                        }
                        // Algorithm 2.A by the reference on the library's entries
                        for (pw, role) in [(ub, rc::Which::User), (ob, rc::Which::Owner)] {
                            match rc::alg2a_file_key(rev, pw, &o, &u, oe, ue) {
                                Some((w, k)) if k == fkey && (w == role || ub == ob) => {}
                                other => c.fail("C23/r56-entries-do-not-yield-the-file-key-by-algorithm-2A", format!("{} role={role:?}: {:?}", tag(), other.map(|x| (x.0, vx::hex(&x.1))))),
                            }
                        }
                    }
                }
                other => c.fail("C23/r56-UE-OE-computation-fails", format!("{}: {:?}", tag(), (other.0.as_ref().err(), other.1.as_ref().err()))),
            }

            // ---- reference makes the entries, the library validates and recovers (2.A, 11, 12)
            let (vs, ks, ovs, oks): ([u8; 8], [u8; 8], [u8; 8], [u8; 8]) = (pattern(3, 8, len + 1).try_into().unwrap(), pattern(3, 8, len + 2).try_into().unwrap(), pattern(3, 8, len + 3).try_into().unwrap(), pattern(2, 8, len + 4).try_into().unwrap());
            let (ru, rue) = rc::alg8_u_ue(rev, ub, &fkey, &vs, &ks);
            let (ro, roe) = rc::alg9_o_oe(rev, ob, &fkey, &ovs, &oks, &ru);
            let v_user = lib(|| if rev == 5 { h.validate_r5_user_password(&up, &ru) } else { h.validate_r6_user_password(&up, &ru) });
            if !matches!(v_user, Ok(true)) {
                c.fail("C23/r56-validate-user-rejects-reference-U", format!("{}: {v_user:?}", tag()));
            }
            let v_owner = lib(|| if rev == 5 { h.validate_r5_owner_password(&op, &ro, &ru) } else { h.validate_r6_owner_password(&op, &ro, &ru) });
            if !matches!(v_owner, Ok(true)) {
                c.fail("C23/r56-validate-owner-rejects-reference-O", format!("{}: {v_owner:?}", tag()));
            }
            let k_user = lib(|| if rev == 5 { h.recover_r5_encryption_key(&up, &ru, &rue) } else { h.recover_r6_encryption_key(&up, &ru, &rue) });
            if !matches!(&k_user, Ok(k) if k.as_bytes() == fkey) {
                c.fail("C23/r56-file-key-from-UE-differs", format!("{}: {:?}", tag(), k_user.map(|k| vx::hex(k.as_bytes()))));
            }
            let k_owner = lib(|| if rev == 5 { h.recover_r5_owner_encryption_key(&op, &ro, &ru, &roe) } else { h.recover_r6_owner_encryption_key(&op, &ro, &ru, &roe) });
            if !matches!(&k_owner, Ok(k) if k[..] == fkey) {
                c.fail("C23/r56-file-key-from-OE-differs", format!("{}: {:?}", tag(), k_owner.map(|k| vx::hex(&k))));
            }
            // wrong passwords (reference decides that they are wrong)
            let wrong = format!("{user}#");
            if wrong.len() <= 127 && !rc::alg11_user_ok(rev, wrong.as_bytes(), &ru) {
                let w = lib(|| if rev == 5 { h.validate_r5_user_password(&UserPassword(wrong.clone()), &ru) } else { h.validate_r6_user_password(&UserPassword(wrong.clone()), &ru) });
                if !matches!(w, Ok(false)) {
                    c.fail("C23/r56-validate-user-accepts-another-password", format!("{} tried {wrong:?}: {w:?}", tag()));
                }
                let w = lib(|| if rev == 5 { h.validate_r5_owner_password(&OwnerPassword(wrong.clone()), &ro, &ru) } else { h.validate_r6_owner_password(&OwnerPassword(wrong.clone()), &ro, &ru) });
                if !matches!(w, Ok(false)) && !rc::alg12_owner_ok(rev, wrong.as_bytes(), &ro, &ru) {
                    c.fail("C23/r56-validate-owner-accepts-another-password", format!("{} tried {wrong:?}: {w:?}", tag()));
                }
            }
            // the same through the reader's handler
            {
                let mut d = PdfDictionary::new();
                d.insert("Filter".into(), pdf_name("Standard"));
                d.insert("V".into(), PdfObject::Integer(5));
                d.insert("R".into(), PdfObject::Integer(rev as i64));
                d.insert("Length".into(), PdfObject::Integer(256));
                d.insert("CF".into(), std_cf("AESV3", 32));
                d.insert("StmF".into(), pdf_name("StdCF"));
                d.insert("StrF".into(), pdf_name("StdCF"));
                d.insert("O".into(), pdf_str(&ro));
                d.insert("U".into(), pdf_str(&ru));
                d.insert("OE".into(), pdf_str(&roe));
                d.insert("UE".into(), pdf_str(&rue));
                d.insert("P".into(), PdfObject::Integer(-4));
                d.insert("Perms".into(), pdf_str(&rc::alg10_perms(-4, true, &fkey, [1, 2, 3, 4])));
                for (pw, as_owner) in [(&user, false), (&owner, true)] {
                    let r = vx::guard(|| {
                        let mut eh = EncryptionHandler::new(&d, None).map_err(|e| e.to_string())?;
                        let ok = if as_owner { eh.unlock_with_owner_password(pw) } else { eh.unlock_with_user_password(pw) }.map_err(|e| e.to_string())?;
                        Ok::<_, String>((ok, eh.encryption_key().map(|k| k.as_bytes().to_vec())))
                    });
                    match r {
                        Ok(Ok((true, Some(k)))) if k == fkey => {}
                        other => c.fail("C23/r56-reader-handler-does-not-recover-the-file-key", format!("{} as_owner={as_owner}: {other:?}", tag())),
                    }
                }
            }
            // ---- Algorithm 2.B itself (R6), user form and owner form
            if rev == 6 {
                for udata in [&[][..], &ru[..]] {
                    let want = rc::alg2b_hash(ub, &vs, udata);
                    let got = lib(|| compute_hash_r6_algorithm_2b(ub, &vs, udata));
                    if !matches!(&got, Ok(g) if g[..] == want[..]) {
                        c.fail("C23/algorithm-2B-hash-differs", format!("{} salt={} udata_len={} want={} got={:?}", tag(), vx::hex(&vs), udata.len(), vx::hex(&want), got.map(|g| vx::hex(&g))));
                    }
                }
            }
            oh = vx::hmix(oh, len as u64);
        }
        oxidize_pdf::verif_hooks::seed_rng(None);
        c.add_evaluations(BLOCK as u64 - 1);
        c.outcome(oh);
        c.sample(json!({"revision": rev, "family": FAMILIES[fam], "owner": OWNER_MODES[om], "seed": seed, "password_lengths": format!("{}..{}", block * BLOCK, (block + 1) * BLOCK)}));
    });
}

fn perms_entry_section(rep: &mut Report, thorough: bool) {
    let ps: Vec<u32> = if thorough { P_QUICK.iter().chain(P_MORE.iter()).copied().collect() } else { P_QUICK.to_vec() };
    rep.explore("perms-entry", Explore::full(), |c: &mut Ctx| {
        let rev = *c.pick_from("revision", &[5u8, 6]);
        let p = *c.pick_from("P", &ps);
        let em = !c.flag("cleartext_metadata");
        let kp = c.choose("key_pattern", 4);
        let seed = *c.pick_from("seed", &[1u64, 2, 3]);
        c.input(vx::h64(&(rev, p, em, kp, seed)));
        c.nontrivial();
        let h = if rev == 5 { StandardSecurityHandler::aes_256_r5() } else { StandardSecurityHandler::aes_256_r6() };
        let fkey: [u8; 32] = pattern(kp, 32, 9).try_into().unwrap();
        let ek = EncryptionKey::new(fkey.to_vec());
        let perms = Permissions::from_bits(p);
        let tag = format!("R{rev} P={p:#010x} EncryptMetadata={em} key={} seed={seed}", PATTERN_NAMES[kp]);
        oxidize_pdf::verif_hooks::seed_rng(Some(seed));
        let got = lib(|| h.compute_perms_entry(perms, &ek, em));
        oxidize_pdf::verif_hooks::seed_rng(None);
        match &got {
            Ok(g) if g.len() == 16 => {
                let plain = rc::alg13_perms_plain(g, &fkey);
                let tail: [u8; 4] = plain[12..16].try_into().unwrap();
                let want = rc::alg10_perms(p as i32, em, &fkey, tail);
                if g[..] != want[..] {
                    c.fail("C23/perms-entry-differs-from-algorithm-10", format!("{tag}: decrypts to {} want {}", vx::hex(&plain), vx::hex(&rc::alg10_perms_plain(p as i32, em, tail))));
                }
                if let Err(e) = rc::alg13_perms_check(g, &fkey, p as i32, em) {
                    c.fail("C23/perms-entry-fails-algorithm-13", format!("{tag}: {e}"));
                }
            }
            other => c.fail("C23/perms-entry-computation-fails", format!("{tag}: {other:?}")),
        }
        // library validates a reference entry; other P refused; EncryptMetadata read back
        let rp = rc::alg10_perms(p as i32, em, &fkey, [0xDE, 0xAD, 0xBE, 0xEF]);
        match lib(|| h.validate_r6_perms(&rp, &ek, perms)) {
            Ok(true) => {}
            other => c.fail("C23/perms-validation-rejects-reference-entry", format!("{tag}: {other:?}")),
        }
        match lib(|| h.validate_r6_perms(&rp, &ek, Permissions::from_bits(p ^ 0x10))) {
            Ok(false) => {}
            other => c.fail("C23/perms-validation-accepts-other-permissions", format!("{tag}: {other:?}")),
        }
        match lib(|| h.extract_r6_encrypt_metadata(&rp, &ek)) {
            Ok(Some(b)) if b == em => {}
            other => c.fail("C23/perms-encrypt-metadata-flag-misread", format!("{tag}: {other:?}")),
        }
        c.outcome(vx::h64(&got.is_ok()));
        c.sample(json!({"case": tag}));
    });
}

fn saslprep_section(rep: &mut Report) {
    // RFC 4013 §2.1/2.2 with RFC 3454 tables B.1 (U+00AD maps to nothing), C.1.2 (U+00A0 maps to
    // U+0020) and NFKC (U+00AA FEMININE ORDINAL INDICATOR has the compatibility decomposition 'a')
    const CASES: [(&str, &str); 3] = [("pass\u{00AD}word", "password"), ("two\u{00A0}words", "two words"), ("\u{00AA}b", "ab")];
    rep.explore("saslprep", Explore::full(), |c: &mut Ctx| {
        let rev = *c.pick_from("revision", &[5u8, 6]);
        let (raw, prepped) = *c.pick_from("password", &CASES);
        c.input(vx::h64(&(rev, raw)));
        c.nontrivial();
        let h = if rev == 5 { StandardSecurityHandler::aes_256_r5() } else { StandardSecurityHandler::aes_256_r6() };
        let fkey = [7u8; 32];
        let (u, _ue) = rc::alg8_u_ue(rev, prepped.as_bytes(), &fkey, &[1; 8], &[2; 8]);
        let up = UserPassword(raw.to_string());
        let got = lib(|| if rev == 5 { h.validate_r5_user_password(&up, &u) } else { h.validate_r6_user_password(&up, &u) });
        c.outcome(vx::h64(&format!("{got:?}")));
        match got {
            Ok(true) => {}
            Ok(false) => {
                // known signature: the raw UTF-8 bytes are hashed
                let (u_raw, _) = rc::alg8_u_ue(rev, raw.as_bytes(), &fkey, &[1; 8], &[2; 8]);
                let raw_ok = lib(|| if rev == 5 { h.validate_r5_user_password(&up, &u_raw) } else { h.validate_r6_user_password(&up, &u_raw) });
                if matches!(raw_ok, Ok(true)) {
                    c.fail("C23/r5-r6-password-not-saslprepped", format!("R{rev} password {raw:?} (SASLprep form {prepped:?}) is hashed as its raw UTF-8"));
                } else {
                    c.fail("C23/r56-password-preparation-wrong", format!("R{rev} password {raw:?}: neither the SASLprep form nor the raw UTF-8 validates"));
                }
            }
            Err(e) => c.fail("C23/r56-password-preparation-fails", format!("R{rev} password {raw:?}: {e}")),
        }
        c.sample(json!({"revision": rev, "password": raw, "saslprep": prepped}));
    });
}

// ================================================================ per-object ciphers

fn object_cipher_section(rep: &mut Report, thorough: bool) {
    const IDS: [(u32, u16); 8] = [(1, 0), (255, 0), (256, 1), (65535, 65535), (65536, 0), (0x00FF_FFFF, 2), (0x0100_0001, 0), (12, 256)];
    let mut lens: Vec<usize> = (0..=48).collect();
    if thorough {
        lens.extend([63, 64, 65, 255, 256, 257, 4096]);
    }
    const HANDLERS: [&str; 5] = ["rc4_40bit", "rc4_128bit", "aes_128_r4", "aes_256_r5", "aes_256_r6"];
    rep.explore("object-cipher", Explore::full(), |c: &mut Ctx| {
        let hk = c.choose("handler", 5);
        let (num, gen) = *c.pick_from("object_id", &IDS);
        let kp = 2 + c.choose("key_pattern", 2);
        let seed = *c.pick_from("seed", &[1u64, 2]);
        c.input(vx::h64(&(hk, num, gen, kp, seed)));
        c.nontrivial();
        let (h, klen) = match hk {
            0 => (StandardSecurityHandler::rc4_40bit(), 5),
            1 => (StandardSecurityHandler::rc4_128bit(), 16),
            2 => (StandardSecurityHandler::aes_128_r4(), 16),
            3 => (StandardSecurityHandler::aes_256_r5(), 32),
            _ => (StandardSecurityHandler::aes_256_r6(), 32),
        };
        let fk = pattern(kp, klen, 4);
        let ek = EncryptionKey::new(fk.clone());
        let id = ObjectId::new(num, gen);
        let tag = format!("{} object {num} {gen} key={}", HANDLERS[hk], vx::hex(&fk));
        // Algorithm 1 key (the handler's public function is the RC4 form)
        if hk <= 1 {
            let want = rc::alg1_object_key(&fk, num, gen, false);
            let got = vx::guard(|| h.compute_object_key(&ek, &id));
            if !matches!(&got, Ok(g) if *g == want) {
                c.fail("C23/object-key-differs-from-algorithm-1", format!("{tag} want={} got={:?}", vx::hex(&want), got.map(|g| vx::hex(&g))));
            }
        }
        let mut oh = 0u64;
        oxidize_pdf::verif_hooks::seed_rng(Some(seed));
        for &n in &lens {
            let data = pattern(3, n, n + 1);
            for stream in [false, true] {
                let ct = vx::guard(|| if stream { h.encrypt_stream(&data, &ek, &id) } else { h.encrypt_string(&data, &ek, &id) });
                let Ok(ct) = ct else {
                    c.fail("C23/object-encryption-panics", format!("{tag} data_len={n}: {:?}", ct.err()));
                    continue;
                };
                let want_plain: Result<Vec<u8>, String> = match hk {
                    0 | 1 => Ok(rc::rc4(&rc::alg1_object_key(&fk, num, gen, false), &ct)),
                    2 => rc::pdf_aes_decrypt(&rc::alg1_object_key(&fk, num, gen, true), &ct),
                    _ => rc::pdf_aes_decrypt(&fk, &ct),
                };
                if !matches!(&want_plain, Ok(p) if *p == data) {
                    c.fail(
                        if hk <= 1 { "C23/rc4-object-encryption-differs-from-algorithm-1" } else { "C23/aes-object-encryption-not-decryptable-by-reference" },
                        format!("{tag} data_len={n} stream={stream} ciphertext_len={} reference says {:?}", ct.len(), want_plain.map(|p| p.len())),
                    );
                }
                if hk >= 2 && ct.len() != 16 + (n / 16 + 1) * 16 {
                    c.fail("C23/aes-object-ciphertext-length", format!("{tag} data_len={n}: {} bytes", ct.len()));
                }
                // the library decrypts reference ciphertext
                let ref_ct = match hk {
                    0 | 1 => rc::rc4(&rc::alg1_object_key(&fk, num, gen, false), &data),
                    2 => rc::pdf_aes_encrypt(&rc::alg1_object_key(&fk, num, gen, true), &[0xA5; 16], &data),
                    _ => rc::pdf_aes_encrypt(&fk, &[0x5A; 16], &data),
                };
                let back = vx::guard(|| if stream { h.decrypt_stream(&ref_ct, &ek, &id) } else { h.decrypt_string(&ref_ct, &ek, &id) });
                if !matches!(&back, Ok(b) if *b == data) {
                    c.fail("C23/object-decryption-of-reference-ciphertext-differs", format!("{tag} data_len={n} stream={stream}: {:?}", back.map(|b| b.len())));
                }
            }
            oh = vx::hmix(oh, n as u64);
        }
        oxidize_pdf::verif_hooks::seed_rng(None);
        c.add_evaluations(2 * lens.len() as u64);
        c.outcome(oh);
        c.sample(json!({"case": tag, "data_lengths": lens.len()}));
    });
}
