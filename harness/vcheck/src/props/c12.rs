//! C12 — font subsetting keeps every requested glyph intact.
//!
//! Space (all enumerated, nothing sampled):
//!  * `roboto-chars`, `sourcesans-chars`: the two bundled fonts × ALL 4096 subsets of a
//!    12-character set (plain Latin, U+2264 and U+2265 — Roboto composites whose transformed
//!    (x/y-scaled) component is FOLLOWED by another component —, two composite-accented letters
//!    sharing a base, space, ligature, Cyrillic, Greek, a second code
//!    point mapped to the same glyph, an unmapped CJK character, a mapped astral
//!    character) through `truetype_subsetter::subset_font` (and, for the CFF font, also
//!    `cff_subsetter::subset_cff_font` directly). Thorough adds two more 12-character sets.
//!  * `bundled-large-sets`: prefixes of each font's whole repertoire (all, 3/4, 1/2, 1/4,
//!    100 characters) — the "needs most glyphs, keep the full font" path.
//!  * `cff-index-boundaries`: SourceSans3 character sets constructed (per-glyph charstring
//!    sizes measured, subset-sum search) so that the rebuilt CharStrings INDEX holds exactly
//!    254 / 255 / 256 / 65534 / 65535 / 65536 data bytes — the offSize 1→2 and 2→3 limits.
//!  * `synthetic-gids`: synthetic TrueType fonts written by refpdf::ttf::synth (8 glyphs:
//!    simple, empty, composite with scaled component, nested composite with 2×2 /
//!    x-y-scale / scaled offset, point-matched composite; short|long loca;
//!    numberOfHMetrics = n | n-2; with|without instructions) × all 256 glyph-id sets
//!    through `subset_font_by_gids`.
//!  * `synthetic-chars`: the same fonts × all 256 subsets of their 8-character set through
//!    `subset_font`; padded past 100 kB (real subsetting and the >50 %-of-glyphs skip) and
//!    unpadded (small-font skip).
//!  * `legacy-create-subset`: `TrueTypeFont::create_subset` (used by `FontEmbedder` and
//!    `font_manager`) on the synthetic fonts × all 256 glyph-id sets, and on Roboto × all
//!    subsets of the distinct glyphs of the first character set (2^10).
//! Oracle (refpdf::ttf / refpdf::cff, written from the OpenType spec and TN 5176/5177):
//! the returned font parses; table directory, table checksums, head.checkSumAdjustment,
//! loca (length, monotone, inside glyf), maxp.numGlyphs, hmtx length are consistent; every
//! glyph of the subset decodes; for every requested character the ORIGINAL font maps, the
//! returned glyph mapping has an entry, that glyph exists, its flattened outline
//! (TrueType: contours of points after resolving composites under their transforms;
//! CFF: the moveto/lineto/curveto list of the Type 2 charstring, subroutines executed)
//! equals the original glyph's, and its advance width equals the original hmtx advance.
//! Out of scope: hinting (instructions may be dropped), post names, kerning/GSUB/GPOS.
use oxidize_pdf::text::fonts::cff_subsetter::subset_cff_font;
use oxidize_pdf::text::fonts::truetype::TrueTypeFont;
use oxidize_pdf::text::fonts::truetype_subsetter::{subset_font, subset_font_by_gids};
use refpdf::cff::{self, Cff, PathOp};
use refpdf::ttf::{self, synth, Font, Outline};
use serde_json::json;
use std::collections::{BTreeMap, HashSet};
use vx::{Ctx, Explore, Report};

pub const BUILT: bool = true;

/// The 12-character sets (same for both bundled fonts; see `describe_chars` output in samples).
const SET_A: [char; 12] = [
    'A', '\u{2264}', '\u{E9}', '\u{C5}', ' ', '\u{FB01}', '\u{416}', '\u{2265}', '\u{3A9}', '\u{2126}', '\u{4E2D}', '\u{1F16A}',
];
const SET_B: [char; 12] = [
    'g', '\u{2013}', '\u{FC}', '\u{1EA4}', '\u{A0}', '\u{FB02}', '\u{42F}', '\u{451}', '\u{394}', '\u{2206}', '\u{FFFF}', '\u{1F16B}',
];

/// Third set (thorough): scaled-composite ≤, ñ, thin space, ffi, Ґ, ї, the µ/μ pair (one glyph in
/// SourceSans3, simple + composite in Roboto), a private-use code, another astral code.
const SET_C: [char; 12] = [
    'Z', '\u{2014}', '\u{439}', '\u{2009}', '\u{FB03}', '\u{490}', '\u{457}', '\u{3BC}', '\u{B5}', '\u{E000}', '\u{1F16C}', '\u{2DEC}',
];

// ------------------------------------------------------------------------------------
// reference view of a font

#[derive(Clone, Debug, PartialEq)]
pub enum Shape {
    Tt(Outline),
    Cff(Vec<PathOp>),
}

impl Shape {
    fn diff(&self, other: &Shape) -> Option<String> {
        match (self, other) {
            (Shape::Tt(a), Shape::Tt(b)) => ttf::outline_diff(a, b),
            (Shape::Cff(a), Shape::Cff(b)) => cff::path_diff(a, b),
            _ => Some("outline kinds differ (TrueType vs CFF)".into()),
        }
    }
    fn size(&self) -> usize {
        match self {
            Shape::Tt(o) => o.iter().map(|c| c.len()).sum(),
            Shape::Cff(p) => p.len(),
        }
    }
}

/// A font as the reference layer sees it: sfnt with glyf, sfnt with CFF, or bare CFF.
pub enum RefFont {
    Tt(Font),
    OtfCff(Font, Cff),
    RawCff(Cff),
}

impl RefFont {
    pub fn open(bytes: &[u8], raw_cff: bool) -> Result<RefFont, String> {
        if raw_cff {
            return Ok(RefFont::RawCff(Cff::parse(bytes)?));
        }
        let f = Font::parse(bytes)?;
        if f.is_glyf() {
            Ok(RefFont::Tt(f))
        } else {
            let c = Cff::parse(f.sfnt.need_table(b"CFF ")?)?;
            Ok(RefFont::OtfCff(f, c))
        }
    }
    pub fn num_glyphs(&self) -> usize {
        match self {
            RefFont::Tt(f) => f.num_glyphs as usize,
            RefFont::OtfCff(f, _) => f.num_glyphs as usize,
            RefFont::RawCff(c) => c.num_glyphs(),
        }
    }
    pub fn shape(&self, gid: u16) -> Result<Shape, String> {
        match self {
            RefFont::Tt(f) => f.flatten(gid).map(Shape::Tt),
            RefFont::OtfCff(_, c) | RefFont::RawCff(c) => c.glyph(gid as usize).map(|g| Shape::Cff(g.path)),
        }
    }
    /// Advance width: hmtx when there is one, the charstring's width for bare CFF.
    pub fn advance(&self, gid: u16) -> Result<f64, String> {
        match self {
            RefFont::Tt(f) | RefFont::OtfCff(f, _) => f.advance(gid).map(|a| a as f64),
            RefFont::RawCff(c) => c.glyph(gid as usize).map(|g| g.width),
        }
    }
    pub fn sfnt(&self) -> Option<&Font> {
        match self {
            RefFont::Tt(f) | RefFont::OtfCff(f, _) => Some(f),
            RefFont::RawCff(_) => None,
        }
    }
}

pub struct Original {
    pub name: String,
    pub data: Vec<u8>,
    pub font: RefFont,
    pub cmap: ttf::Cmap,
}

impl Original {
    pub fn load(name: &str, data: Vec<u8>) -> Original {
        let name = name.to_string();
        let font = RefFont::open(&data, false).unwrap_or_else(|e| panic!("reference reader cannot open {name}: {e}"));
        let cmap = font.sfnt().unwrap().cmap().unwrap_or_else(|e| panic!("{name}: cmap: {e}"));
        Original { name, data, font, cmap }
    }
    pub fn bundled(file: &'static str) -> Original {
        let p = vx::repo_root().join("test-pdfs").join(file);
        let data = std::fs::read(&p).unwrap_or_else(|e| panic!("{}: {e}", p.display()));
        Self::load(file, data)
    }
    pub fn gid(&self, ch: char) -> u16 {
        self.cmap.unicode_lookup(ch as u32).unwrap_or(0)
    }
}

// ------------------------------------------------------------------------------------
// verdict collection

#[derive(Default)]
struct Fails {
    by_key: BTreeMap<String, (String, u32)>,
}
impl Fails {
    fn add(&mut self, key: impl Into<String>, detail: impl Into<String>) {
        let e = self.by_key.entry(key.into()).or_insert_with(|| (detail.into(), 0));
        e.1 += 1;
    }
    fn flush(self, c: &mut Ctx, ctx: &str) -> u64 {
        let mut h = 0u64;
        for (k, (d, n)) in self.by_key {
            h = vx::hmix(h, vx::h64(&k));
            c.fail(k, format!("{ctx}: {d} ({n} occurrence(s) in this case)"));
        }
        h
    }
}

/// One thing the caller asked the subsetter to keep.
struct Request {
    label: String,
    /// glyph of the original font; None = the original does not map the character
    orig_gid: Option<u16>,
    /// glyph id in the subset according to the mapping the library returned
    new_gid: Option<u16>,
}

/// Well-formedness of an sfnt the subsetter produced. `orig` is the font it was made from.
fn check_sfnt_wellformed(sub: &Font, orig: &Original, legacy: bool, fails: &mut Fails) {
    for p in sub.sfnt.directory_problems() {
        let key = if legacy && (p.contains("ascending tag order") || p.contains("not 4-byte aligned")) {
            // create_subset walks a HashMap: the order (and with it the alignment) changes from run to run
            "C12/sfnt-directory-in-hash-order-unsorted-or-unaligned"
        } else if p.contains("ascending tag order") {
            "C12/sfnt-directory-tags-not-sorted"
        } else if p.contains("not 4-byte aligned") {
            "C12/sfnt-table-offset-not-4-byte-aligned"
        } else if p.contains("searchRange") || p.contains("entrySelector") || p.contains("rangeShift") {
            "C12/sfnt-binary-search-header-wrong"
        } else {
            "C12/sfnt-directory-malformed"
        };
        fails.add(key, p);
    }
    let orig_adj = orig.font.sfnt().and_then(|f| f.sfnt.file_checksum().ok()).map(|x| x.0);
    let sub_adj = sub.sfnt.file_checksum().ok();
    for p in sub.sfnt.checksum_problems() {
        let rec_head = sub.sfnt.rec(b"head");
        let all_zero = sub.sfnt.tables.iter().all(|t| t.checksum == 0);
        let key = if all_zero {
            // legacy path writes a placeholder
            "C12/sfnt-table-checksums-left-zero"
        } else if p.starts_with("table 'head'")
            && rec_head.map(|r| Some(r.checksum) == sub.sfnt.table(b"head").map(ttf::table_checksum)).unwrap_or(false)
            && sub_adj.map(|x| Some(x.0) == orig_adj).unwrap_or(false)
        {
            // exact signature: directory value = sum over head INCLUDING the adjustment copied from the original
            "C12/ttf-subset-head-checksum-summed-over-stale-checkSumAdjustment"
        } else {
            "C12/sfnt-table-checksum-wrong"
        };
        fails.add(key, p);
    }
    if let Some((stored, want)) = sub_adj {
        if stored != want {
            let key = if Some(stored) == orig_adj {
                "C12/ttf-subset-checkSumAdjustment-copied-from-original"
            } else {
                "C12/sfnt-checkSumAdjustment-wrong"
            };
            fails.add(key, format!("head.checkSumAdjustment {stored:#010x}, file sums to {want:#010x}"));
        }
    }
    for p in sub.structure_problems() {
        let key = if p.starts_with("loca") || p.starts_with("last loca") {
            "C12/ttf-loca-inconsistent"
        } else if p.starts_with("hmtx") || p.starts_with("hhea") {
            "C12/ttf-hmtx-inconsistent"
        } else {
            "C12/ttf-maxp-inconsistent"
        };
        fails.add(key, p);
    }
    if sub.is_glyf() {
        for t in [b"glyf", b"head", b"hhea", b"hmtx", b"loca", b"maxp"] {
            if !sub.sfnt.has(t) {
                fails.add("C12/ttf-required-table-missing", format!("'{}' missing", ttf::tag_str(t)));
            }
        }
    }
}

fn check_cff_wellformed(c: &Cff, fails: &mut Fails) {
    for p in c.problems() {
        let key = if p.starts_with("CIDCount") {
            "C12/cff-subset-CIDCount-not-above-charset-CIDs"
        } else if p.contains("assigned twice") {
            "C12/cff-subset-charset-duplicate-id"
        } else {
            "C12/cff-subset-malformed"
        };
        fails.add(key, p);
    }
}

/// Length of the bytes `build_subset_font` emits for one original glyph once instructions are
/// dropped. Only used to recognise the exact signature of KF-C12-4 (never as an oracle).
fn stripped_len(f: &Font, gid: u16) -> Option<usize> {
    let b = f.glyph_bytes(gid).ok()?;
    if b.len() < 12 {
        return Some(b.len());
    }
    match ttf::decode_glyph(b).ok()? {
        ttf::Glyph::Empty => Some(0),
        ttf::Glyph::Simple { instructions, .. } => Some(b.len() - instructions),
        ttf::Glyph::Composite { components, instructions, consumed, .. } => {
            if components.last().map(|c| c.flags & ttf::WE_HAVE_INSTRUCTIONS != 0).unwrap_or(false) {
                Some(consumed - 2 - instructions)
            } else {
                Some(b.len())
            }
        }
    }
}

/// KF-C12-4 signature: the subset keeps the SHORT loca format, the glyf table is the
/// concatenation of the instruction-stripped glyphs in ascending original order, at least
/// one glyph starts at an odd byte, and every loca entry is that true offset with its low
/// bit dropped (offset/2 stored in a u16). Returns the true offsets when it matches.
fn short_loca_halving_signature(orig: &Font, sub: &Font, order: &[u16]) -> Option<Vec<u32>> {
    if sub.index_to_loc_format != 0 || orig.index_to_loc_format != 0 || sub.num_glyphs as usize != order.len() {
        return None;
    }
    let loca = sub.loca.as_ref()?;
    let mut t = vec![0u32];
    for &g in order {
        let l = stripped_len(orig, g)? as u32;
        t.push(t.last().unwrap() + l);
    }
    let glyf_len = sub.sfnt.table(b"glyf")?.len() as u32;
    if *t.last().unwrap() != glyf_len || !t.iter().any(|o| o % 2 == 1) {
        return None;
    }
    if loca.len() != t.len() || loca.iter().zip(&t).any(|(l, t)| *l != (t / 2) * 2) {
        return None;
    }
    Some(t)
}

/// Oracle for one subsetting result. `legacy` selects the key space of the
/// `TrueTypeFont::create_subset` path.
fn verify(orig: &Original, out_bytes: &[u8], raw_cff: bool, reqs: &[Request], legacy: bool, fails: &mut Fails) -> u64 {
    let unchanged = !raw_cff && out_bytes == orig.data.as_slice();
    let mut oh = vx::h64(&(unchanged, raw_cff));
    let mut sub = match RefFont::open(out_bytes, raw_cff) {
        Ok(s) => s,
        Err(e) => {
            fails.add("C12/subset-font-unparseable", e);
            return oh;
        }
    };
    oh = vx::hmix(oh, sub.num_glyphs() as u64);
    // glyphs the subset has to contain, in the ascending order both subsetters renumber by
    let order: Option<Vec<u16>> = match &orig.font {
        RefFont::Tt(of) => {
            let mut v = vec![0u16];
            for r in reqs {
                if let Some(g) = r.orig_gid {
                    let deps = if legacy { vec![g] } else { of.closure(g).expect("closure of an original glyph") };
                    for d in deps {
                        if !v.contains(&d) {
                            v.push(d);
                        }
                    }
                }
            }
            v.sort();
            Some(v)
        }
        _ => None,
    };
    if !unchanged {
        if let (RefFont::Tt(of), RefFont::Tt(sf), Some(order)) = (&orig.font, &mut sub, &order) {
            if let Some(true_offsets) = short_loca_halving_signature(of, sf, order) {
                let first_odd = true_offsets.iter().position(|o| o % 2 == 1).unwrap();
                fails.add(
                    "C12/ttf-subset-short-loca-drops-low-bit-of-odd-glyph-offsets",
                    format!(
                        "short loca kept, but after instruction stripping subset glyph {first_odd} starts at byte {} of glyf; loca stores {} (true offsets {:?}, loca {:?})",
                        true_offsets[first_odd],
                        sf.loca.as_ref().unwrap()[first_odd],
                        &true_offsets[..true_offsets.len().min(10)],
                        &sf.loca.as_ref().unwrap()[..true_offsets.len().min(10)]
                    ),
                );
                // keep checking everything else against the glyphs as they really lie in glyf
                sf.loca = Some(true_offsets);
            }
        }
        match &sub {
            RefFont::Tt(f) => check_sfnt_wellformed(f, orig, legacy, fails),
            RefFont::OtfCff(f, c) => {
                check_sfnt_wellformed(f, orig, legacy, fails);
                check_cff_wellformed(c, fails);
            }
            RefFont::RawCff(c) => check_cff_wellformed(c, fails),
        }
        // every glyph of the subset must decode (components in range, charstrings complete)
        for g in 0..sub.num_glyphs().min(65535) as u16 {
            if let Err(e) = sub.shape(g).and_then(|_| sub.advance(g)) {
                let old = order.as_ref().and_then(|o| o.get(g as usize).copied());
                let key = match old {
                    Some(old) if legacy && legacy_composite_copied_verbatim(orig, &sub, old, g) => LEGACY_COMPOSITE_KEY,
                    _ => "C12/subset-glyph-undecodable",
                };
                fails.add(key, e);
            }
        }
    }
    for r in reqs {
        let Some(og) = r.orig_gid else {
            oh = vx::hmix(oh, 0); // the original does not map it: nothing is promised
            continue;
        };
        let status: u8;
        match r.new_gid {
            None => {
                fails.add("C12/requested-glyph-missing-from-returned-mapping", format!("{} (original glyph {og})", r.label));
                status = 1;
            }
            Some(ng) if ng as usize >= sub.num_glyphs() => {
                fails.add(
                    "C12/returned-mapping-points-outside-the-subset",
                    format!("{}: mapped to glyph {ng}, subset has {}", r.label, sub.num_glyphs()),
                );
                status = 2;
            }
            Some(ng) => {
                let mut st = 3;
                let verbatim_composite = legacy && !unchanged && legacy_composite_copied_verbatim(orig, &sub, og, ng);
                match (orig.font.shape(og), sub.shape(ng)) {
                    (Ok(a), Ok(b)) => {
                        if let Some(d) = a.diff(&b) {
                            let key = if verbatim_composite {
                                LEGACY_COMPOSITE_KEY
                            } else if b.size() == 0 && a.size() > 0 {
                                "C12/requested-glyph-outline-empty-in-subset"
                            } else {
                                "C12/requested-glyph-outline-differs"
                            };
                            fails.add(key, format!("{}: original glyph {og} vs subset glyph {ng}: {d}", r.label));
                            st = 4;
                        }
                    }
                    (Err(e), _) => panic!("reference reader cannot flatten original glyph {og}: {e}"),
                    (_, Err(e)) => {
                        let key = if verbatim_composite { LEGACY_COMPOSITE_KEY } else { "C12/requested-glyph-undecodable-in-subset" };
                        fails.add(key, format!("{}: subset glyph {ng}: {e}", r.label));
                        st = 5;
                    }
                }
                match (orig.font.advance(og), sub.advance(ng)) {
                    (Ok(a), Ok(b)) => {
                        if a != b {
                            fails.add("C12/requested-glyph-advance-differs", format!("{}: original advance {a}, subset advance {b}", r.label));
                            st += 10;
                        }
                    }
                    (Err(e), _) => panic!("reference reader: original advance of glyph {og}: {e}"),
                    (_, Err(e)) => {
                        fails.add("C12/requested-glyph-advance-unreadable", format!("{}: {e}", r.label));
                        st += 20;
                    }
                }
                status = st;
            }
        }
        oh = vx::hmix(oh, status as u64);
    }
    oh
}

const LEGACY_COMPOSITE_KEY: &str = "C12/legacy-composite-copied-verbatim-components-neither-carried-nor-renumbered";

/// KF-C12-L4 signature: the original glyph is a composite, the subset glyph is byte-identical
/// to it (component glyph ids still the ORIGINAL ids) although the ids were renumbered.
fn legacy_composite_copied_verbatim(orig: &Original, sub: &RefFont, old: u16, new: u16) -> bool {
    let (RefFont::Tt(of), RefFont::Tt(sf)) = (&orig.font, sub) else { return false };
    let (Ok(ob), Ok(sb)) = (of.glyph_bytes(old), sf.glyph_bytes(new)) else { return false };
    matches!(ttf::decode_glyph(ob), Ok(ttf::Glyph::Composite { .. })) && ob == sb
}

fn show_chars(chars: &[char]) -> String {
    chars.iter().map(|c| format!("U+{:04X}", *c as u32)).collect::<Vec<_>>().join(" ")
}

/// One char-driven case: run the library, build the requests, verify.
fn run_chars_case(c: &mut Ctx, orig: &Original, chars: &[char], direct_cff: bool) {
    let set: HashSet<char> = chars.iter().copied().collect();
    c.input(vx::h64(&(&orig.name, chars, direct_cff)));
    let mapped = chars.iter().filter(|&&ch| orig.gid(ch) != 0).count();
    let ctx = format!("{} chars=[{}] entry={}", orig.name, show_chars(chars), if direct_cff { "subset_cff_font" } else { "subset_font" });
    let res = vx::guard(|| {
        if direct_cff {
            subset_cff_font(&orig.data, &set).map(|r| (r.font_data, r.glyph_mapping, r.is_raw_cff))
        } else {
            subset_font(orig.data.clone(), &set).map(|r| (r.font_data, r.glyph_mapping, r.is_raw_cff))
        }
    });
    let (bytes, mapping, raw) = match res {
        Ok(Ok(x)) => x,
        Ok(Err(e)) => {
            c.fail("C12/subsetter-returned-error", format!("{ctx}: {e:?}"));
            return;
        }
        Err(p) => {
            c.fail(format!("C12/subsetter-panicked@{}", vx::panic_site(&p)), format!("{ctx}: {p}"));
            return;
        }
    };
    let reqs: Vec<Request> = chars
        .iter()
        .map(|&ch| Request { label: format!("U+{:04X}", ch as u32), orig_gid: Some(orig.gid(ch)).filter(|&g| g != 0), new_gid: mapping.get(&(ch as u32)).copied() })
        .collect();
    let mut fails = Fails::default();
    let oh = verify(orig, &bytes, raw, &reqs, false, &mut fails);
    let really_subset = raw || bytes != orig.data;
    if mapped > 0 && really_subset {
        c.nontrivial();
    }
    c.add_evaluations(chars.len() as u64);
    c.sample(json!({"font": orig.name, "chars": show_chars(chars), "mapped_in_original": mapped, "entry": if direct_cff {"subset_cff_font"} else {"subset_font"},
                    "output": if !really_subset {"full font returned"} else if raw {"raw CID-keyed CFF"} else {"sfnt"}, "output_len": bytes.len()}));
    let fh = fails.flush(c, &ctx);
    c.outcome(vx::hmix(oh, fh));
}

// ------------------------------------------------------------------------------------
// synthetic fonts

fn sq(x: i16, y: i16, w: i16) -> Vec<(i16, i16, bool)> {
    vec![(x, y, true), (x + w, y, true), (x + w, y + w, true), (x, y + w, true)]
}

/// The characters of the synthetic font's cmap, glyph 1..7, plus one unmapped character.
const SYNTH_CHARS: [char; 8] = [' ', 'A', 'B', '\u{C9}', '\u{416}', '\u{417}', '\u{1F600}', 'Z'];

/// 8 glyphs: 0 .notdef (2 contours), 1 empty, 2/3 simple, 4 composite (scaled component,
/// instructions), 5 nested composite (2×2 with scaled offset, then x/y scale, then a plain
/// component: every transform form is followed by a further component somewhere — scale in
/// glyph 6, x/y scale and 2×2 here), 6 point-matched composite referencing 3, 2 and 5, 7 simple.
fn synth_font(long_loca: bool, short_hmtx: bool, instructions: bool, pad: bool, filler: usize) -> synth::SFont {
    use synth::*;
    let ins = |n: usize| if instructions { (0..n).map(|i| 0xB0 + (i % 8) as u8).collect() } else { Vec::new() };
    let simple = |c: Vec<Vec<(i16, i16, bool)>>, i: Vec<u8>| Body::Simple { contours: c, instructions: i };
    let g = |adv, lsb, body| SGlyph { advance: adv, lsb, body };
    let mut font = SFont {
        units_per_em: 2048,
        long_loca,
        num_h_metrics: if short_hmtx { 6 } else { 8 },
        cmap12: true,
        pad_table: if pad { 100_000 } else { 0 },
        cmap: vec![(0x20, 1), (0x41, 2), (0x42, 3), (0xC9, 4), (0x416, 5), (0x417, 6), (0x1F600, 7)],
        glyphs: vec![
            g(500, 0, simple(vec![sq(0, 0, 500), vec![(100, 100, true), (250, 400, false), (400, 100, true)]], ins(3))),
            g(250, 0, Body::Empty),
            g(600, 0, simple(vec![vec![(0, 0, true), (300, 700, false), (600, 0, true), (300, -200, false), (300, 1, true)]], ins(5))),
            g(700, -400, simple(vec![sq(10, 20, 300), sq(-400, 1000, 255), sq(0, 0, 256)], ins(4))),
            g(
                610,
                0,
                Body::Composite {
                    comps: vec![
                        Comp { gid: 2, arg: Arg::XyBytes(0, 0), xform: Xform::None, extra_flags: ttf::USE_MY_METRICS },
                        Comp { gid: 3, arg: Arg::XyWords(300, 800), xform: Xform::Scale(0x2000), extra_flags: 0x0004 },
                    ],
                    instructions: ins(3),
                },
            ),
            g(
                800,
                -20,
                Body::Composite {
                    comps: vec![
                        Comp { gid: 4, arg: Arg::XyWords(-20, 10), xform: Xform::TwoByTwo(0x4000, 0x1000, -0x0800, 0x3000), extra_flags: ttf::SCALED_COMPONENT_OFFSET },
                        Comp { gid: 0, arg: Arg::XyBytes(-5, 100), xform: Xform::XY(0x6000, 0x2000), extra_flags: ttf::UNSCALED_COMPONENT_OFFSET },
                        Comp { gid: 2, arg: Arg::XyBytes(7, -7), xform: Xform::None, extra_flags: 0 },
                    ],
                    instructions: Vec::new(),
                },
            ),
            g(
                900,
                -400,
                Body::Composite {
                    comps: vec![
                        Comp { gid: 3, arg: Arg::XyBytes(0, 0), xform: Xform::None, extra_flags: 0 },
                        Comp { gid: 2, arg: Arg::PtBytes(5, 2), xform: Xform::Scale(0x3000), extra_flags: 0 },
                        Comp { gid: 5, arg: Arg::PtWords(1, 0), xform: Xform::None, extra_flags: 0 },
                    ],
                    instructions: ins(1),
                },
            ),
            g(1111, 0, simple(vec![sq(0, 0, 10)], ins(2))),
        ],
    };
    // unmapped filler glyphs (so that "needs more than half of the glyphs" is not always true)
    for k in 0..filler {
        font.glyphs.push(g(300 + k as u16, 0, simple(vec![sq(k as i16, 0, 20 + k as i16)], ins(k % 3))));
    }
    font
}

struct SynthCase {
    desc: String,
    orig: Original,
}

fn synth_cases(pad: bool, filler: usize) -> Vec<SynthCase> {
    let mut v = Vec::new();
    for long_loca in [false, true] {
        for short_hmtx in [false, true] {
            for instructions in [true, false] {
                let spec = synth_font(long_loca, short_hmtx, instructions, pad, filler);
                let bytes = spec.build();
                let desc = format!(
                    "loca={} numberOfHMetrics={} instructions={} glyphs={} size={}",
                    if long_loca { "long" } else { "short" },
                    if short_hmtx { 6 } else { 8 },
                    instructions,
                    8 + filler,
                    bytes.len()
                );
                let orig = Original::load(&format!("synthetic[{desc}]"), bytes);
                // the reference reader must see exactly the specified font
                for gid in 0..8u16 {
                    let got = orig.font.shape(gid).expect("synthetic glyph");
                    let want = Shape::Tt(spec.expected_outline(gid).expect("spec outline"));
                    assert!(got.diff(&want).is_none(), "synthetic font glyph {gid} does not read back");
                    assert_eq!(orig.font.advance(gid).unwrap(), spec.file_advance(gid) as f64);
                }
                let f = orig.font.sfnt().unwrap();
                assert!(f.sfnt.directory_problems().is_empty() && f.sfnt.checksum_problems().is_empty() && f.structure_problems().is_empty());
                v.push(SynthCase { desc, orig });
            }
        }
    }
    v
}

/// Character sets of SourceSans3 whose CID-keyed subset has a CharStrings INDEX with exactly
/// `target` data bytes, for every target around the 1-byte and 2-byte offset limits.
/// The size each glyph contributes is measured through the library's own single-character
/// subset (read with the reference CFF reader); a subset-sum search over one character per
/// glyph (ascending code order, first solution) picks the set; the achieved length is then
/// re-measured on the library's subset of the whole set and must equal the target.
fn cff_boundary_sets(sans: &Original) -> Result<Vec<(usize, Vec<char>)>, String> {
    let data_len = |chars: &[char]| -> Result<(usize, usize), String> {
        let set: HashSet<char> = chars.iter().copied().collect();
        let r = vx::guard(|| subset_cff_font(&sans.data, &set)).map_err(|p| format!("panic: {p}"))?.map_err(|e| format!("{e:?}"))?;
        if !r.is_raw_cff {
            return Err("subsetter fell back to the full font".into());
        }
        // only the CharStrings INDEX header is needed; a reader that tolerates a damaged INDEX
        // elsewhere is not: use the strict reader, and fall back to the size formula on error
        let c = Cff::parse(&r.font_data)?;
        let cs = &c.charstrings;
        Ok((cs.offsets[cs.count()] - cs.offsets[0], cs.offsets[1] - cs.offsets[0]))
    };
    let sub = sans.cmap.unicode_sub().ok_or("no unicode cmap")?;
    let mut seen = HashSet::new();
    let mut menu: Vec<(char, usize)> = Vec::new();
    let mut notdef = None;
    for (cp, g) in sans.cmap.mappings(sub)? {
        if cp > 0xFFFF || !seen.insert(g) {
            continue;
        }
        let Some(ch) = char::from_u32(cp) else { continue };
        // a single-glyph measurement that fails (e.g. because the library under test is broken
        // exactly there) just drops the character from the menu
        if let Ok((total, nd)) = data_len(&[ch]) {
            notdef.get_or_insert(nd);
            if total >= nd {
                menu.push((ch, total - nd));
            }
        }
    }
    let nd = notdef.ok_or("no character could be measured")?;
    let mut out = Vec::new();
    for target in [254usize, 255, 256, 65534, 65535, 65536] {
        let want = target.checked_sub(nd).ok_or("notdef larger than target")?;
        // first-reach subset sum with parent pointers
        let mut parent: Vec<Option<(usize, usize)>> = vec![None; want + 1]; // (item, previous sum)
        let mut reach = vec![false; want + 1];
        reach[0] = true;
        for (i, &(_, len)) in menu.iter().enumerate() {
            if len == 0 || len > want {
                continue;
            }
            for s in (len..=want).rev() {
                if !reach[s] && reach[s - len] {
                    reach[s] = true;
                    parent[s] = Some((i, s - len));
                }
            }
            if reach[want] {
                break;
            }
        }
        if !reach[want] {
            return Err(format!("no character set gives {target} bytes of charstrings"));
        }
        let mut chars = Vec::new();
        let mut s = want;
        while s > 0 {
            let (i, prev) = parent[s].ok_or("broken parent chain")?;
            chars.push(menu[i].0);
            s = prev;
        }
        chars.sort();
        // re-measure; a library that is broken exactly at the boundary may make the strict
        // reader fail here — then the formula value stands and the oracle run reports it
        if let Ok((got, _)) = data_len(&chars) {
            if got != target {
                return Err(format!("set built for {target} bytes measures {got}"));
            }
        }
        out.push((target, chars));
    }
    Ok(out)
}

fn subset_from_mask<T: Copy>(items: &[T], mask: usize) -> Vec<T> {
    items.iter().enumerate().filter(|(i, _)| mask >> i & 1 == 1).map(|(_, &t)| t).collect()
}

pub fn run(rep: &mut Report) {
    let thorough = rep.tier.is_thorough();
    // The subsetters clone the 0.3-0.5 MB font per call; keep those buffers in the malloc arenas
    // instead of one mmap/munmap pair each (16 threads serialise on the address-space lock).
    unsafe {
        libc::mallopt(libc::M_MMAP_THRESHOLD, 16 << 20);
        libc::mallopt(libc::M_TRIM_THRESHOLD, 256 << 20);
        libc::mallopt(libc::M_TOP_PAD, 16 << 20);
    }
    rep.rule(
        "case = (font, set of requested characters or glyph ids, entry point); every subset of the 12-character \
         set / of the 8 glyph ids is enumerated; section cff-index-boundaries targets the INDEX offSize limits: six \
         constructed SourceSans3 sets whose rebuilt CharStrings INDEX holds exactly 254,255,256,65534,65535,65536 data bytes; non-trivial = at least one requested item is mapped by the original \
         font AND the library really produced a new font (not the unchanged input); distinct input = (font, set, entry)",
    );
    rep.assume("refpdf::ttf / refpdf::cff read fonts correctly (validated on every glyph of both bundled fonts: header bounding boxes, hmtx widths/bearings, FontBBox, checksums)");
    rep.assume("a character counts as mapped by the original when the font's best Unicode cmap subtable (format 12 before format 4; both agree on the BMP) gives a non-zero glyph");
    rep.assume("instructions, post names, kerning and layout tables may be dropped by the subsetter (out of scope)");

    let roboto = Original::bundled("Roboto-Regular.ttf");
    let sans = Original::bundled("SourceSans3-Regular.otf");
    let sets: Vec<&[char; 12]> = if thorough { vec![&SET_A, &SET_B, &SET_C] } else { vec![&SET_A] };

    rep.explore("roboto-chars", Explore::full(), |c: &mut Ctx| {
        let set = *c.pick_from("charset", &sets);
        let mask = c.choose("subset", 4096);
        run_chars_case(c, &roboto, &subset_from_mask(set, mask), false);
    });
    rep.explore("sourcesans-chars", Explore::full(), |c: &mut Ctx| {
        let set = *c.pick_from("charset", &sets);
        let direct = c.flag("direct_cff_entry");
        let mask = c.choose("subset", 4096);
        run_chars_case(c, &sans, &subset_from_mask(set, mask), direct);
    });

    // ---- whole-repertoire prefixes: the keep-the-full-font branch
    let all_chars = |o: &Original| -> Vec<char> {
        let sub = o.cmap.unicode_sub().expect("unicode cmap");
        o.cmap.mappings(sub).expect("mappings").into_iter().filter_map(|(c, _)| char::from_u32(c)).collect()
    };
    let reps = [all_chars(&roboto), all_chars(&sans)];
    rep.explore("bundled-large-sets", Explore::full(), |c: &mut Ctx| {
        let fi = c.choose("font", 2);
        let frac = *c.pick_from("prefix", &[(1usize, 1usize), (3, 4), (1, 2), (1, 4), (0, 1)]);
        let orig = if fi == 0 { &roboto } else { &sans };
        let all = &reps[fi];
        let n = if frac.0 == 0 { 100 } else { all.len() * frac.0 / frac.1 };
        run_chars_case(c, orig, &all[..n], false);
    });

    // ---- CFF INDEX offSize boundaries: sets whose rebuilt CharStrings INDEX holds exactly
    // 254/255/256 and 65534/65535/65536 bytes of data (offSize must fit data length + 1)
    let boundary = cff_boundary_sets(&sans);
    match &boundary {
        Ok(sets) => {
            rep.note("cff_index_boundary_sets", json!(sets.iter().map(|(t, cs)| json!({"charstrings_data_bytes": t, "characters": cs.len()})).collect::<Vec<_>>()));
            rep.explore("cff-index-boundaries", Explore::full(), |c: &mut Ctx| {
                let i = c.choose("target", sets.len());
                let direct = c.flag("direct_cff_entry");
                run_chars_case(c, &sans, &sets[i].1, direct);
            });
        }
        Err(e) => rep.machinery_error(format!("cff-index-boundaries: cannot construct the boundary sets: {e}")),
    }

    // ---- synthetic fonts
    let synth_small = synth_cases(false, 0);
    let synth_big = synth_cases(true, 6);
    rep.note("synthetic_fonts", json!(synth_small.iter().chain(synth_big.iter()).map(|s| s.desc.clone()).collect::<Vec<_>>()));

    rep.explore("synthetic-gids", Explore::full(), |c: &mut Ctx| {
        let fi = c.choose("font", synth_small.len());
        let mask = c.choose("gids", 256);
        let sc = &synth_small[fi];
        let gids: Vec<u16> = subset_from_mask(&[0u16, 1, 2, 3, 4, 5, 6, 7], mask);
        c.input(vx::h64(&(fi, &gids)));
        let ctx = format!("synthetic font [{}] gids={gids:?} entry=subset_font_by_gids", sc.desc);
        let set: HashSet<u16> = gids.iter().copied().collect();
        let res = vx::guard(|| subset_font_by_gids(sc.orig.data.clone(), &set).map(|r| (r.font_data, r.old_to_new)));
        let (bytes, map) = match res {
            Ok(Ok(x)) => x,
            Ok(Err(e)) => {
                c.fail("C12/subsetter-returned-error", format!("{ctx}: {e:?}"));
                return;
            }
            Err(p) => {
                c.fail(format!("C12/subsetter-panicked@{}", vx::panic_site(&p)), format!("{ctx}: {p}"));
                return;
            }
        };
        // requested glyphs and everything they reference must be carried along
        let f = sc.orig.font.sfnt().unwrap();
        let mut want: Vec<u16> = vec![0];
        for &g in &gids {
            for d in f.closure(g).expect("closure") {
                if !want.contains(&d) {
                    want.push(d);
                }
            }
        }
        let reqs: Vec<Request> =
            want.iter().map(|&g| Request { label: format!("glyph {g}"), orig_gid: Some(g), new_gid: map.get(&g).copied() }).collect();
        let mut fails = Fails::default();
        let mut oh = verify(&sc.orig, &bytes, false, &reqs, false, &mut fails);
        // renumbering must be consistent: an injective map onto 0..numGlyphs
        let mut news: Vec<u16> = map.values().copied().collect();
        news.sort();
        if news.iter().enumerate().any(|(i, &n)| n as usize != i) {
            fails.add("C12/gid-renumbering-not-a-compact-bijection", format!("old_to_new = {:?}", map.iter().collect::<BTreeMap<_, _>>()));
        }
        oh = vx::hmix(oh, news.len() as u64);
        if !gids.is_empty() {
            c.nontrivial();
        }
        c.add_evaluations(want.len() as u64);
        c.sample(json!({"font": sc.desc, "gids": gids, "kept_with_components": want, "output_len": bytes.len()}));
        let fh = fails.flush(c, &ctx);
        c.outcome(vx::hmix(oh, fh));
    });

    rep.explore("synthetic-chars", Explore::full(), |c: &mut Ctx| {
        let pad = c.flag("padded_past_100k");
        let cases = if pad { &synth_big } else { &synth_small };
        let fi = c.choose("font", cases.len());
        let mask = c.choose("subset", 256);
        run_chars_case(c, &cases[fi].orig, &subset_from_mask(&SYNTH_CHARS, mask), false);
    });

    // ---- legacy TrueTypeFont::create_subset (FontEmbedder / font_manager path)
    let mut set_a_gids: Vec<u16> = SET_A.iter().map(|&ch| roboto.gid(ch)).filter(|&g| g != 0).collect();
    set_a_gids.sort();
    set_a_gids.dedup();
    rep.explore("legacy-create-subset", Explore::full(), |c: &mut Ctx| {
        let which = c.choose("font", synth_small.len() + 1);
        let (orig, desc, gids): (&Original, String, Vec<u16>) = if which < synth_small.len() {
            let mask = c.choose("gids", 256);
            (&synth_small[which].orig, format!("synthetic font [{}]", synth_small[which].desc), subset_from_mask(&[0u16, 1, 2, 3, 4, 5, 6, 7], mask))
        } else {
            let mask = c.choose("subset", 1 << set_a_gids.len());
            (&roboto, "Roboto-Regular.ttf".to_string(), subset_from_mask(&set_a_gids, mask))
        };
        c.input(vx::h64(&(which, &gids)));
        let ctx = format!("{desc} gids={gids:?} entry=TrueTypeFont::create_subset");
        let set: HashSet<u16> = gids.iter().copied().collect();
        let res = vx::guard(|| TrueTypeFont::parse(orig.data.clone()).and_then(|f| f.create_subset(&set)));
        let bytes = match res {
            Ok(Ok(x)) => x,
            Ok(Err(e)) => {
                c.fail("C12/legacy-create-subset-returned-error", format!("{ctx}: {e:?}"));
                return;
            }
            Err(p) => {
                c.fail(format!("C12/legacy-create-subset-panicked@{}", vx::panic_site(&p)), format!("{ctx}: {p}"));
                return;
            }
        };
        // create_subset returns no mapping: it renumbers {0} ∪ gids in ascending order (its
        // documented scheme) and writes a cmap; both resolutions are checked.
        let mut kept: Vec<u16> = gids.clone();
        kept.push(0);
        kept.sort();
        kept.dedup();
        let reqs: Vec<Request> = kept
            .iter()
            .enumerate()
            .map(|(i, &g)| Request { label: format!("glyph {g}"), orig_gid: Some(g), new_gid: Some(i as u16) })
            .collect();
        let mut fails = Fails::default();
        let mut oh = verify(orig, &bytes, false, &reqs, true, &mut fails);
        if let Ok(RefFont::Tt(sub)) = RefFont::open(&bytes, false) {
            match sub.cmap() {
                Ok(cm) => {
                    let osub = orig.cmap.unicode_sub().unwrap();
                    for (cp, g) in orig.cmap.mappings(osub).unwrap() {
                        if cp <= 0xFFFF && kept.contains(&g) && g != 0 {
                            let want = kept.iter().position(|&k| k == g).unwrap() as u16;
                            let got = cm.unicode_lookup(cp).unwrap_or(0);
                            if got != want {
                                fails.add("C12/legacy-subset-cmap-wrong", format!("U+{cp:04X}: subset cmap gives glyph {got}, expected {want}"));
                            }
                        }
                    }
                }
                Err(e) => fails.add("C12/legacy-subset-cmap-unreadable", e),
            }
        }
        oh = vx::hmix(oh, kept.len() as u64);
        if !gids.is_empty() {
            c.nontrivial();
        }
        c.add_evaluations(kept.len() as u64);
        c.sample(json!({"font": desc, "gids": gids, "output_len": bytes.len()}));
        // legacy findings get their own key space so they never mask the main path
        let mut legacy = Fails::default();
        for (k, (d, n)) in fails.by_key {
            let k2 = k.replacen("C12/", "C12/legacy-", 1).replace("legacy-legacy-", "legacy-");
            legacy.by_key.insert(k2, (d, n));
        }
        let fh = legacy.flush(c, &ctx);
        c.outcome(vx::hmix(oh, fh));
    });
}

