//! C16 — page operations preserve page content and geometry.
//!
//! Space (all enumerated, nothing sampled): source files = refpdf-built n-page documents
//! (inherited MediaBox/CropBox/Resources/Rotate on an intermediate /Pages node, MediaBox with
//! a non-zero origin and a real coordinate, own and inherited CropBox, a TrimBox, /Rotate in
//! {0, 90, -90, 450}, a Type1 font, an image with a soft mask, content as one stream / an
//! array of streams / Flate) written classic and as xref-stream + object-stream files, plus
//! library-authored documents. Operations, each through its public path-based entry point:
//!  * `split`   every mode: SinglePages, ChunkSize 1..=n+1, SplitAt every subset of interior
//!              points, Ranges with every 1- (and 2-) element vector over a range menu;
//!  * `extract` every page sequence of length 1..=n (subsets, permutations, duplicates),
//!              single page, every PageRange form;
//!  * `reorder` every sequence of length 1..=n, reverse, every swap(i,j), every move(i,j);
//!  * `rotate`  every angle (enum and from_degrees incl. negative / >360) x every page range
//!              form (every subset as a List in every order and with repeated indices, All,
//!              Single, Range); thorough tier also every
//!              /Rotate assignment over {0,90,-90,450}^3 x every angle x every page subset;
//!  * `merge`   every ordered pair of sources x a page-range menu on each input;
//!  * `merge-of-split` every partitioning split mode followed by a merge of the parts.
//! Oracle: the reference reader (refpdf) reads source and output; output page k must equal
//! source page sigma(k) in tokenised content, resources (deep, after resolution), MediaBox,
//! CropBox, Bleed/Trim/ArtBox and (Rotate + angle) mod 360; the library's own reader must
//! read the output the same way refpdf does.
use oxidize_pdf::operations as ops;
use oxidize_pdf::operations::{MergeInput, MergeOptions, PageRange, RotateOptions, RotationAngle, SplitMode, SplitOptions};
use refpdf::builder::{FileBuilder, Revision, XrefForm};
use refpdf::content::{parse_content, Op};
use refpdf::file::PdfFile;
use refpdf::syntax::{Dict, Obj};
use serde_json::json;
use std::collections::BTreeSet;
use std::path::{Path, PathBuf};
use std::sync::atomic::{AtomicU64, Ordering};
use vx::{Ctx, Explore, Report};

pub const BUILT: bool = true;

static FILE_SEQ: AtomicU64 = AtomicU64::new(0);
static EXTRA_RESOURCES_TOLERATED: AtomicU64 = AtomicU64::new(0);
static RENAMED_RESOURCES: AtomicU64 = AtomicU64::new(0);

// ------------------------------------------------------------------ reference page model

#[derive(Clone, Debug)]
struct PageDesc {
    media: Option<[f64; 4]>,
    crop: Option<[f64; 4]>,
    other_boxes: Vec<(String, Option<[f64; 4]>)>, // BleedBox, TrimBox, ArtBox (own entries)
    rotate: i64,
    content: Result<Vec<Op>, String>,
    /// content with every resource-name operand (Tf, Do, gs, sh, cs/CS, scn/SCN, BDC/DP)
    /// replaced by the value it names in this page's resources: equal iff the pages mean the
    /// same, also when a resource key was consistently renamed
    resolved: Result<Vec<Op>, String>,
    /// /Resources with every reference resolved, streams decoded, numbers normalised
    resources: Obj,
}

fn resolve_ops(ops: &[Op], res: &Obj) -> Vec<Op> {
    let look = |cat: &str, name: &Obj| -> Option<Obj> { res.dict_get(cat)?.as_dict()?.get_b(name.as_name()?).cloned() };
    ops.iter()
        .map(|op| {
            let mut o = op.clone();
            let n = o.operands.len();
            let (idx, cat): (Option<usize>, &str) = match o.operator.as_slice() {
                b"Tf" => (Some(0), "Font"),
                b"Do" => (Some(0), "XObject"),
                b"gs" => (Some(0), "ExtGState"),
                b"sh" => (Some(0), "Shading"),
                b"cs" | b"CS" => (Some(0), "ColorSpace"),
                b"scn" | b"SCN" => (n.checked_sub(1), "Pattern"),
                b"BDC" | b"DP" => (Some(1), "Properties"),
                _ => (None, ""),
            };
            if let Some(i) = idx {
                if let Some(v) = o.operands.get(i).and_then(|x| look(cat, x)) {
                    o.operands[i] = v;
                }
            }
            o
        })
        .collect()
}

fn norm_num(o: &Obj) -> Obj {
    match o {
        Obj::Real(r) if r.fract() == 0.0 && r.abs() < 1e15 => Obj::Int(*r as i64),
        Obj::Array(a) => Obj::Array(a.iter().map(norm_num).collect()),
        Obj::Dict(d) => Obj::Dict(Dict(d.0.iter().map(|(k, v)| (k.clone(), norm_num(v))).collect())),
        other => other.clone(),
    }
}

/// Value of `o` with all indirection removed: references followed (cycles cut), streams
/// replaced by `<< dict-without-encoding-keys /__data (decoded bytes) >>`, integral reals as
/// integers, dictionary keys sorted.
fn canon(f: &PdfFile, o: &Obj, stack: &mut Vec<u32>) -> Obj {
    match o {
        Obj::Ref(n, g) => {
            if stack.contains(n) || stack.len() > 40 {
                return Obj::name("__cycle");
            }
            stack.push(*n);
            let v = f.get_gen(*n, *g);
            let r = canon(f, &v, stack);
            stack.pop();
            r
        }
        Obj::Array(a) => Obj::Array(a.iter().map(|x| canon(f, x, stack)).collect()),
        Obj::Dict(d) => {
            let mut e: Vec<(Vec<u8>, Obj)> = d.0.iter().map(|(k, v)| (k.clone(), canon(f, v, stack))).collect();
            e.sort_by(|a, b| a.0.cmp(&b.0));
            Obj::Dict(Dict(e))
        }
        Obj::Stream(s) => {
            let mut e: Vec<(Vec<u8>, Obj)> = Vec::new();
            let data = f.stream_data(s);
            for (k, v) in s.dict.0.iter() {
                let ks = k.as_slice();
                if ks == b"Length" {
                    continue;
                }
                if data.is_ok() && (ks == b"Filter" || ks == b"DecodeParms" || ks == b"DP") {
                    continue;
                }
                e.push((k.clone(), canon(f, v, stack)));
            }
            e.push((b"__data".to_vec(), Obj::Str(data.unwrap_or_else(|_| s.data.clone()))));
            e.sort_by(|a, b| a.0.cmp(&b.0));
            Obj::Dict(Dict(e))
        }
        Obj::Real(_) => norm_num(o),
        other => other.clone(),
    }
}

fn read_pages(bytes: &[u8]) -> Result<Vec<PageDesc>, String> {
    let f = PdfFile::parse(bytes)?;
    let pages = f.pages()?;
    let mut out = Vec::new();
    for p in &pages {
        let content: Result<Vec<Op>, String> = f.page_content(p).and_then(|c| parse_content(&c)).map(|ops| {
            ops.into_iter().map(|op| Op { operator: op.operator, operands: op.operands.iter().map(norm_num).collect() }).collect()
        });
        let resources = match p.resources() {
            Some(r) => canon(&f, r, &mut Vec::new()),
            None => Obj::Dict(Dict::new()),
        };
        let resolved = content.as_ref().map(|ops| resolve_ops(ops, &resources)).map_err(|e| e.clone());
        let mut other = Vec::new();
        for k in ["BleedBox", "TrimBox", "ArtBox"] {
            if let Some(v) = p.dict.get(k) {
                other.push((k.to_string(), refpdf::file::rect(&f.resolve(v))));
            }
        }
        out.push(PageDesc { media: p.media_box(), crop: p.crop_box(), other_boxes: other, rotate: p.rotate(), content, resolved, resources });
    }
    Ok(out)
}

fn rect_eq(a: &[f64; 4], b: &[f64; 4]) -> bool {
    a.iter().zip(b).all(|(x, y)| (x - y).abs() < 1e-6)
}

fn ops_eq(a: &[Op], b: &[Op]) -> bool {
    a.len() == b.len() && a.iter().zip(b).all(|(x, y)| x.operator == y.operator && x.operands.len() == y.operands.len() && x.operands.iter().zip(&y.operands).all(|(p, q)| p.same(q)))
}

/// Compare an output page with the source page it must correspond to. Each attribute is
/// judged on its own so that one known defect never hides another.
fn compare_page(exp: &PageDesc, angle: i64, got: &PageDesc) -> Vec<(String, String)> {
    let mut v = Vec::new();
    // MediaBox
    match (&exp.media, &got.media) {
        (Some(e), Some(g)) if rect_eq(e, g) => {}
        (Some(e), Some(g)) if (e[0] != 0.0 || e[1] != 0.0) && rect_eq(g, &[0.0, 0.0, e[2] - e[0], e[3] - e[1]]) => {
            v.push(("C16/mediabox-origin-dropped-by-page-copy".into(), format!("source MediaBox {e:?} -> output {g:?}")));
        }
        (e, g) => v.push(("C16/mediabox-differs".into(), format!("source MediaBox {e:?} -> output {g:?}"))),
    }
    // CropBox (default = MediaBox, ISO 32000-1 Table 30)
    match (&exp.crop, &got.crop) {
        (None, None) => {}
        (Some(e), Some(g)) if rect_eq(e, g) => {}
        (Some(e), None) => {
            let harmless = matches!((&exp.media, &got.media), (Some(m), Some(gm)) if rect_eq(e, m) && rect_eq(m, gm));
            if !harmless {
                v.push(("C16/cropbox-dropped-by-page-copy".into(), format!("source CropBox {e:?} -> output has none (output MediaBox {:?})", got.media)));
            }
        }
        (None, Some(g)) => {
            if !matches!(&got.media, Some(m) if rect_eq(m, g)) {
                v.push(("C16/cropbox-invented".into(), format!("source has no CropBox -> output {g:?}")));
            }
        }
        (e, g) => v.push(("C16/cropbox-differs".into(), format!("source CropBox {e:?} -> output {g:?}"))),
    }
    // Bleed/Trim/Art
    for (k, e) in &exp.other_boxes {
        match got.other_boxes.iter().find(|(gk, _)| gk == k) {
            Some((_, g)) if matches!((e, g), (Some(a), Some(b)) if rect_eq(a, b)) => {}
            None => v.push(("C16/bleed-trim-art-box-dropped-by-page-copy".into(), format!("source /{k} {e:?} -> output has none"))),
            Some((_, g)) => v.push(("C16/bleed-trim-art-box-differs".into(), format!("source /{k} {e:?} -> output {g:?}"))),
        }
    }
    // Rotate
    let want = (exp.rotate + angle).rem_euclid(360);
    if got.rotate.rem_euclid(360) != want {
        v.push(("C16/rotate-differs".into(), format!("source /Rotate {} + angle {} = {} (mod 360) but output /Rotate {}", exp.rotate, angle, want, got.rotate)));
    }
    // content (resource names resolved, see PageDesc::resolved)
    match (&exp.resolved, &got.resolved) {
        (Ok(a), Ok(b)) if ops_eq(a, b) => {}
        (Ok(a), Ok(b)) => {
            let i = a.iter().zip(b.iter()).position(|(x, y)| x != y).unwrap_or(a.len().min(b.len()));
            v.push(("C16/content-differs".into(), format!("{} source operators vs {} output operators; first difference at #{i}: {:?} vs {:?}", a.len(), b.len(), a.get(i), b.get(i))));
        }
        (a, b) => v.push(("C16/content-unreadable".into(), format!("source {:?} output {:?}", a.as_ref().map(|x| x.len()), b.as_ref().map(|x| x.len())))),
    }
    // resources: every source entry must be present and deep-equal
    let (Some(ed), Some(gd)) = (exp.resources.as_dict(), got.resources.as_dict()) else {
        v.push(("C16/resources-not-a-dictionary".into(), format!("{:?}", got.resources)));
        return v;
    };
    let mut extras = 0u64;
    for (cat, ev) in ed.iter() {
        let cats = String::from_utf8_lossy(cat).to_string();
        match (ev, gd.get_b(cat)) {
            (Obj::Dict(es), Some(Obj::Dict(gs))) => {
                for (name, evv) in es.iter() {
                    // present under its own name, or under another key with the same value (a
                    // consistent rename; the resolved-content comparison covers the uses)
                    match gs.get_b(name) {
                        Some(gvv) if gvv.same(evv) => {}
                        other => {
                            if gs.iter().any(|(_, x)| x.same(evv)) {
                                RENAMED_RESOURCES.fetch_add(1, Ordering::Relaxed);
                            } else if let Some(gvv) = other {
                                v.push(("C16/resource-changed".into(), format!("/{cats} /{}: source {:?} output {:?}", String::from_utf8_lossy(name), evv, gvv)));
                            } else {
                                v.push(("C16/resource-missing".into(), format!("/{cats} /{} missing in output", String::from_utf8_lossy(name))));
                            }
                        }
                    }
                }
                extras += (gs.len() as u64).saturating_sub(es.len() as u64);
            }
            (Obj::Dict(es), None) if es.is_empty() => {}
            (_, Some(gv)) if gv.same(ev) => {}
            (_, None) if cat.as_slice() == b"ProcSet" => {}
            (_, g) => v.push(("C16/resource-category-changed".into(), format!("/{cats}: source {ev:?} output {g:?}"))),
        }
    }
    EXTRA_RESOURCES_TOLERATED.fetch_add(extras, Ordering::Relaxed);
    v
}

// ------------------------------------------------------------------ library reader view

#[derive(Debug)]
struct LibPage {
    media: [f64; 4],
    crop: Option<[f64; 4]>,
    rotate: i64,
    content: Result<Vec<Op>, String>,
    res_keys: BTreeSet<(String, String)>,
}

fn lib_read(path: &Path) -> Result<Vec<LibPage>, String> {
    let r = vx::guard(|| -> Result<Vec<LibPage>, String> {
        let d = oxidize_pdf::parser::PdfReader::open_document(path).map_err(|e| format!("open: {e}"))?;
        let n = d.page_count().map_err(|e| format!("page_count: {e}"))?;
        let mut out = Vec::new();
        for i in 0..n {
            let p = d.get_page(i).map_err(|e| format!("get_page({i}): {e}"))?;
            let content = p
                .content_streams_with_document(&d)
                .map_err(|e| format!("content: {e}"))
                .and_then(|ss| {
                    let mut all = Vec::new();
                    for (k, s) in ss.iter().enumerate() {
                        if k > 0 {
                            all.push(b'\n');
                        }
                        all.extend_from_slice(s);
                    }
                    parse_content(&all)
                })
                .map(|ops| ops.into_iter().map(|op| Op { operator: op.operator, operands: op.operands.iter().map(norm_num).collect() }).collect());
            let mut keys = BTreeSet::new();
            if let Some(res) = p.get_resources() {
                for (cat, v) in res.0.iter() {
                    let v = match v {
                        oxidize_pdf::parser::objects::PdfObject::Reference(n, g) => d.get_object(*n, *g).ok(),
                        other => Some(other.clone()),
                    };
                    if let Some(dd) = v.as_ref().and_then(|v| v.as_dict()) {
                        for k in dd.0.keys() {
                            keys.insert((cat.0.clone(), k.0.clone()));
                        }
                    }
                }
            }
            out.push(LibPage { media: p.media_box, crop: p.crop_box, rotate: p.rotation as i64, content, res_keys: keys });
        }
        Ok(out)
    });
    match r {
        Ok(x) => x,
        Err(p) => Err(format!("panic: {p}")),
    }
}

fn res_keys_of(d: &PageDesc) -> BTreeSet<(String, String)> {
    let mut s = BTreeSet::new();
    if let Some(rd) = d.resources.as_dict() {
        for (cat, v) in rd.iter() {
            if let Obj::Dict(dd) = v {
                for (k, _) in dd.iter() {
                    s.insert((String::from_utf8_lossy(cat).to_string(), String::from_utf8_lossy(k).to_string()));
                }
            }
        }
    }
    s
}

/// The library's reader must see a file the way the reference reader does.
fn lib_vs_ref(refp: &[PageDesc], libp: &[LibPage]) -> Vec<String> {
    let mut v = Vec::new();
    if refp.len() != libp.len() {
        v.push(format!("page count: reference {} library {}", refp.len(), libp.len()));
        return v;
    }
    for (i, (r, l)) in refp.iter().zip(libp).enumerate() {
        match &r.media {
            Some(m) if rect_eq(m, &l.media) => {}
            m => v.push(format!("page {i} MediaBox: reference {m:?} library {:?}", l.media)),
        }
        match (&r.crop, &l.crop) {
            (None, None) => {}
            (Some(a), Some(b)) if rect_eq(a, b) => {}
            (a, b) => v.push(format!("page {i} CropBox: reference {a:?} library {b:?}")),
        }
        if r.rotate != l.rotate {
            v.push(format!("page {i} Rotate: reference {} library {}", r.rotate, l.rotate));
        }
        match (&r.content, &l.content) {
            (Ok(a), Ok(b)) if ops_eq(a, b) => {}
            (a, b) => v.push(format!("page {i} content: reference {:?} ops, library {:?} ops", a.as_ref().map(|x| x.len()), b.as_ref().map(|x| x.len()))),
        }
        let rk = res_keys_of(r);
        if rk != l.res_keys {
            v.push(format!("page {i} resource names: reference {rk:?} library {:?}", l.res_keys));
        }
    }
    v
}

// ------------------------------------------------------------------ sources

struct Source {
    name: String,
    path: PathBuf,
    pages: Vec<PageDesc>,
}
impl Source {
    fn n(&self) -> usize {
        self.pages.len()
    }
}

fn rect_obj(r: [f64; 4]) -> Obj {
    Obj::Array(r.iter().map(|x| if x.fract() == 0.0 { Obj::Int(*x as i64) } else { Obj::Real(*x) }).collect())
}

/// refpdf-built n-page document (n >= 2). Pages 0..n-2 hang under an intermediate /Pages
/// node that carries MediaBox (non-zero origin), CropBox, Resources (indirect) and Rotate;
/// the last page hangs under the root with everything of its own.
fn crafted_source(n: usize, rots: &[i64], modern: bool) -> Vec<u8> {
    assert!(n >= 2 && rots.len() == n);
    let font = |base: &str| Obj::dict(vec![("Type", Obj::name("Font")), ("Subtype", Obj::name("Type1")), ("BaseFont", Obj::name(base)), ("Encoding", Obj::name("WinAnsiEncoding"))]);
    let mut objs: Vec<(u32, Obj)> = Vec::new();
    let page_num = |i: usize| 30 + 3 * i as u32;
    objs.push((1, Obj::dict(vec![("Type", Obj::name("Catalog")), ("Pages", Obj::Ref(2, 0))])));
    objs.push((2, Obj::dict(vec![("Type", Obj::name("Pages")), ("Kids", Obj::Array(vec![Obj::Ref(10, 0), Obj::Ref(page_num(n - 1), 0)])), ("Count", Obj::Int(n as i64))])));
    objs.push((
        10,
        Obj::dict(vec![
            ("Type", Obj::name("Pages")),
            ("Parent", Obj::Ref(2, 0)),
            ("Kids", Obj::Array((0..n - 1).map(|i| Obj::Ref(page_num(i), 0)).collect())),
            ("Count", Obj::Int(n as i64 - 1)),
            ("MediaBox", rect_obj([100.0, 200.0, 400.0, 600.0])),
            ("CropBox", rect_obj([110.0, 210.0, 390.0, 590.0])),
            ("Resources", Obj::Ref(22, 0)),
            ("Rotate", Obj::Int(rots[0])),
        ]),
    ));
    objs.push((20, font("Helvetica")));
    objs.push((
        21,
        Obj::stream(
            vec![("Type", Obj::name("XObject")), ("Subtype", Obj::name("Image")), ("Width", Obj::Int(2)), ("Height", Obj::Int(2)), ("ColorSpace", Obj::name("DeviceRGB")), ("BitsPerComponent", Obj::Int(8)), ("SMask", Obj::Ref(23, 0))],
            vec![255, 0, 0, 0, 255, 0, 0, 0, 255, 9, 9, 9],
        ),
    ));
    objs.push((22, Obj::dict(vec![("Font", Obj::dict(vec![("F1", Obj::Ref(20, 0))])), ("XObject", Obj::dict(vec![("Im1", Obj::Ref(21, 0))]))])));
    objs.push((
        23,
        Obj::stream(
            vec![("Type", Obj::name("XObject")), ("Subtype", Obj::name("Image")), ("Width", Obj::Int(2)), ("Height", Obj::Int(2)), ("ColorSpace", Obj::name("DeviceGray")), ("BitsPerComponent", Obj::Int(8)), ("Filter", Obj::name("FlateDecode"))],
            refpdf::filters::flate_encode(&[0, 85, 170, 255]),
        ),
    ));
    for i in 0..n {
        let pn = page_num(i);
        let mut d: Vec<(&str, Obj)> = vec![("Type", Obj::name("Page"))];
        if i == 0 {
            // inherits everything, single uncompressed stream, font + image
            d.push(("Parent", Obj::Ref(10, 0)));
            d.push(("Contents", Obj::Ref(pn + 1, 0)));
            objs.push((pn + 1, Obj::stream(vec![], format!("BT /F1 12 Tf 120 300 Td (Page {i} one) Tj ET q 50 0 0 50 150 250 cm /Im1 Do Q").into_bytes())));
        } else if i < n - 1 {
            // own real-valued MediaBox and CropBox, negative/large Rotate, content = array of two streams
            d.push(("Parent", Obj::Ref(10, 0)));
            d.push(("MediaBox", rect_obj([10.0, 20.0, 310.5, 420.0])));
            d.push(("CropBox", rect_obj([15.0, 25.0, 300.0, 400.0])));
            d.push(("Rotate", Obj::Int(rots[i])));
            d.push(("Contents", Obj::Array(vec![Obj::Ref(pn + 1, 0), Obj::Ref(pn + 2, 0)])));
            objs.push((pn + 1, Obj::stream(vec![("Filter", Obj::name("FlateDecode"))], refpdf::filters::flate_encode(format!("q 1 0 0 RG 20 30 {} 100 re S", 100 + i).as_bytes()))));
            objs.push((pn + 2, Obj::stream(vec![], format!("Q BT /F1 9 Tf 30 40 Td (page {i} [two] \\(x\\)) Tj ET").into_bytes())));
        } else {
            // directly under the root: zero-origin MediaBox, TrimBox, inline resources
            d.push(("Parent", Obj::Ref(2, 0)));
            d.push(("MediaBox", rect_obj([0.0, 0.0, 200.0, 300.0])));
            d.push(("TrimBox", rect_obj([5.0, 5.0, 195.0, 295.0])));
            d.push(("Rotate", Obj::Int(rots[i])));
            d.push(("Resources", Obj::dict(vec![("Font", Obj::dict(vec![("F2", font("Times-Roman")), ("Helvetica", font("Courier"))])), ("ProcSet", Obj::Array(vec![Obj::name("PDF"), Obj::name("Text")]))])));
            d.push(("Contents", Obj::Ref(pn + 1, 0)));
            objs.push((pn + 1, Obj::stream(vec![("Filter", Obj::name("FlateDecode"))], refpdf::filters::flate_encode(format!("BT /F2 12 Tf 20 30 Td <4c617374> Tj ({i}) ' /Helvetica 8 Tf (courier under the key Helvetica) Tj ET 0.5 g 1 1 10 10 re f").as_bytes()))));
        }
        objs.push((pn, Obj::dict(d)));
    }
    let mut r = Revision::new(if modern { XrefForm::Stream } else { XrefForm::Table });
    for (num, o) in objs {
        if modern && !matches!(o, Obj::Stream(_)) {
            r.in_objstm.insert(num);
        }
        r.add(num, o);
    }
    r.xref_predictor = modern;
    let mut fb = FileBuilder::new(1);
    fb.revisions.push(r);
    fb.build().bytes
}

fn library_source(kind: usize) -> Result<Vec<u8>, String> {
    use oxidize_pdf::graphics::Image;
    use oxidize_pdf::text::Font;
    use oxidize_pdf::{Document, Page};
    let r = vx::guard(|| -> Result<Vec<u8>, String> {
        let mut doc = Document::new();
        doc.set_title("C16 library source");
        let mut p1 = Page::a4();
        p1.text().set_font(Font::Helvetica, 12.0).at(50.0, 800.0).write("library page one").map_err(|e| e.to_string())?;
        doc.add_page(p1);
        let mut p2 = Page::new(300.0, 400.0);
        p2.graphics().rectangle(20.0, 30.0, 100.0, 50.0).stroke();
        let img = Image::from_raw_data(vec![255, 0, 0, 0, 255, 0, 0, 0, 255, 9, 9, 9], 2, 2, oxidize_pdf::graphics::ColorSpace::DeviceRGB, 8);
        p2.add_image("Im1", img);
        p2.draw_image("Im1", 10.0, 10.0, 50.0, 50.0).map_err(|e| e.to_string())?;
        p2.set_rotation(270);
        doc.add_page(p2);
        let mut p3 = Page::letter();
        p3.set_rotation(90);
        p3.text().set_font(Font::TimesRoman, 10.0).at(72.0, 72.0).write("library page three").map_err(|e| e.to_string())?;
        doc.add_page(p3);
        let cfg = oxidize_pdf::writer::WriterConfig { use_xref_streams: kind == 1, use_object_streams: false, pdf_version: if kind == 1 { "1.5" } else { "1.7" }.to_string(), compress_streams: true, incremental_update: false };
        doc.to_bytes_with_config(cfg).map_err(|e| e.to_string())
    });
    match r {
        Ok(x) => x,
        Err(p) => Err(format!("panic: {p}")),
    }
}

// ------------------------------------------------------------------ helpers for the bodies

struct Env {
    dir: PathBuf,
    sources: Vec<Source>,
}

fn out_name(env: &Env, c: &Ctx, tag: &str) -> String {
    let seq = FILE_SEQ.fetch_add(1, Ordering::Relaxed);
    format!("{}/{}-{:016x}-{}", env.dir.display(), tag, vx::h64(&c.choices()), seq)
}

/// Verify one output file against the expected (source page, added angle) list. Returns an
/// observation hash (page count + failure keys).
fn check_output(c: &mut Ctx, what: &str, path: &Path, expect: &[(&PageDesc, i64)]) -> u64 {
    let mut keys: Vec<String> = Vec::new();
    let bytes = match std::fs::read(path) {
        Ok(b) => b,
        Err(e) => {
            c.fail("C16/output-file-missing", format!("{what}: {}: {e}", path.display()));
            return 1;
        }
    };
    let got = match read_pages(&bytes) {
        Ok(g) => g,
        Err(e) => {
            c.fail("C16/output-unreadable-by-reference-reader", format!("{what}: {e}"));
            return 2;
        }
    };
    if got.len() != expect.len() {
        c.fail("C16/page-count-differs", format!("{what}: expected {} pages, output has {}", expect.len(), got.len()));
        keys.push("count".into());
    }
    for (k, ((e, angle), g)) in expect.iter().zip(got.iter()).enumerate() {
        for (key, detail) in compare_page(e, *angle, g) {
            c.fail(key.clone(), format!("{what}: output page {k}: {detail}"));
            keys.push(key);
        }
    }
    match lib_read(path) {
        Ok(lp) => {
            for d in lib_vs_ref(&got, &lp) {
                c.fail("C16/library-reader-disagrees-with-reference-reader-on-output", format!("{what}: {d}"));
                keys.push("libreader".into());
            }
        }
        Err(e) => {
            c.fail("C16/output-unreadable-by-library-reader", format!("{what}: {e}"));
            keys.push("libread".into());
        }
    }
    let _ = std::fs::remove_file(path);
    keys.sort();
    keys.dedup();
    vx::h64(&(got.len(), keys))
}

fn op_failed(c: &mut Ctx, what: &str, e: String) {
    let key = if e.starts_with("panic") { "C16/operation-panicked" } else { "C16/operation-failed" };
    c.fail(key, format!("{what}: {e}"));
}

fn flat<T, E: std::fmt::Display>(r: Result<Result<T, E>, String>) -> Result<T, String> {
    match r {
        Ok(Ok(v)) => Ok(v),
        Ok(Err(e)) => Err(e.to_string()),
        Err(p) => Err(format!("panic: {p}")),
    }
}

/// every sequence over 0..n of length 1..=maxlen, in a fixed order
fn sequences(n: usize, maxlen: usize) -> Vec<Vec<usize>> {
    let mut all: Vec<Vec<usize>> = Vec::new();
    let mut layer: Vec<Vec<usize>> = vec![vec![]];
    for _ in 0..maxlen {
        let mut next = Vec::new();
        for s in &layer {
            for i in 0..n {
                let mut t = s.clone();
                t.push(i);
                next.push(t);
            }
        }
        all.extend(next.iter().cloned());
        layer = next;
    }
    all
}

fn subsets(n: usize) -> Vec<Vec<usize>> {
    (0..(1usize << n)).map(|m| (0..n).filter(|i| m >> i & 1 == 1).collect()).collect()
}

/// PageRange menu: (range, expected indices, label)
fn range_menu(n: usize, list_len: usize) -> Vec<(PageRange, Vec<usize>, String)> {
    let mut m: Vec<(PageRange, Vec<usize>, String)> = vec![(PageRange::All, (0..n).collect(), "All".into())];
    for i in 0..n {
        m.push((PageRange::Single(i), vec![i], format!("Single({i})")));
    }
    for i in 0..n {
        for j in i..n {
            m.push((PageRange::Range(i, j), (i..=j).collect(), format!("Range({i},{j})")));
        }
    }
    for s in sequences(n, list_len) {
        m.push((PageRange::List(s.clone()), s.clone(), format!("List({s:?})")));
    }
    m
}

fn is_identity(seq: &[usize], n: usize) -> bool {
    seq.len() == n && seq.iter().enumerate().all(|(i, &p)| i == p)
}

// ------------------------------------------------------------------ run

pub fn run(rep: &mut Report) {
    let thorough = rep.tier.is_thorough();
    rep.rule(
        "one case = (source file(s), operation, parameters); every case runs the public path-based operation on real files and \
         re-reads every output with the reference reader and the library reader; non-trivial = the expected output is not a plain \
         in-order copy of one whole source (a selection, permutation, duplication, rotation by a non-zero angle, a split into >1 \
         file, or a merge); distinct = distinct (operation, parameter, source) tuple",
    );
    rep.assume("reference reader refpdf (page tree with inheritance, filters, content tokeniser) gives the meaning of source and output files");
    rep.assume("move(from,to) means: the moved page ends at index `to`, all other pages keep their relative order; SplitAt(points) with sorted interior points p1<p2<.. cuts before each point");
    rep.assume("content is compared after replacing each resource-name operand by the resource it names, so a resource key renamed consistently in /Resources and in the content (the library does this when a source font key collides with a font the writer injects) is not a difference");
    rep.assume("extra /Resources entries in the output under names the source does not use are tolerated (counted in coverage.extra_resource_entries_tolerated); /ProcSet may be dropped (obsolete, ISO 32000-1 14.2)");
    rep.assume("a PageRange::List given to rotate denotes the set of its indices: order is irrelevant and a repeated index rotates the page once");
    rep.assume("invalid parameters (ChunkSize(0), out-of-range indices, empty page order) are outside the property and not enumerated");

    let dir = vx::verif_root().join(".scratch").join(format!("C16-{}", std::process::id()));
    let _ = std::fs::remove_dir_all(&dir);
    if let Err(e) = std::fs::create_dir_all(&dir) {
        rep.machinery_error(format!("cannot create scratch dir {}: {e}", dir.display()));
        return;
    }

    // ---- sources
    let mut raw: Vec<(String, Vec<u8>)> = vec![
        ("crafted3-classic[90i,-90,450]".into(), crafted_source(3, &[90, -90, 450], false)),
        ("crafted3-objstm[0i,450,-90]".into(), crafted_source(3, &[0, 450, -90], true)),
    ];
    for k in 0..2 {
        match library_source(k) {
            Ok(b) => raw.push((format!("library3-{}", if k == 0 { "classic" } else { "xrefstream" }), b)),
            Err(e) => rep.machinery_error(format!("cannot author library source {k}: {e}")),
        }
    }
    if thorough {
        raw.push(("crafted4-classic[-90i,0,450,90]".into(), crafted_source(4, &[-90, 0, 450, 90], false)));
        raw.push(("crafted2-objstm[450i,-90]".into(), crafted_source(2, &[450, -90], true)));
    }
    let mut sources: Vec<Source> = Vec::new();
    let mut source_notes = Vec::new();
    for (i, (name, bytes)) in raw.iter().enumerate() {
        let issues = refpdf::file::validate(bytes);
        if name.starts_with("crafted") && !issues.is_empty() {
            rep.machinery_error(format!("crafted source {name} does not pass the strict validator: {issues:?}"));
            continue;
        }
        let path = dir.join(format!("src{i}.pdf"));
        if let Err(e) = std::fs::write(&path, bytes) {
            rep.machinery_error(format!("cannot write {}: {e}", path.display()));
            continue;
        }
        let pages = match read_pages(bytes) {
            Ok(p) => p,
            Err(e) => {
                rep.machinery_error(format!("reference reader cannot read source {name}: {e}"));
                continue;
            }
        };
        if pages.iter().any(|p| p.content.is_err() || p.media.is_none()) {
            rep.machinery_error(format!("source {name}: page without MediaBox or with untokenisable content"));
            continue;
        }
        // the library must read the source the way the reference reader does, otherwise the
        // operations are judged on a misread input: such a source is excluded, and reported
        match lib_read(&path) {
            Ok(lp) => {
                let d = lib_vs_ref(&pages, &lp);
                if !d.is_empty() {
                    source_notes.push(json!({"source": name, "excluded": true, "library_reader_differs": d}));
                    continue;
                }
            }
            Err(e) => {
                source_notes.push(json!({"source": name, "excluded": true, "library_reader_error": e}));
                continue;
            }
        }
        source_notes.push(json!({"source": name, "pages": pages.len(), "bytes": bytes.len(),
            "boxes": pages.iter().map(|p| format!("media {:?} crop {:?} rotate {}", p.media, p.crop, p.rotate)).collect::<Vec<_>>()}));
        sources.push(Source { name: name.clone(), path, pages });
    }
    rep.note("sources", json!(source_notes));
    if sources.len() < 2 {
        rep.machinery_error("fewer than two usable source files".into());
        let _ = std::fs::remove_dir_all(&dir);
        return;
    }
    let env = Env { dir: dir.clone(), sources };
    let env = &env;
    let list_len = if thorough { 3 } else { 2 };

    // ---- split
    rep.explore("split", Explore::full(), |c: &mut Ctx| {
        let si = c.choose("source", env.sources.len());
        let s = &env.sources[si];
        let n = s.n();
        let mode = c.choose("mode", 4);
        let base = out_name(env, c, "split");
        // (mode value, expected page indices per output file, label)
        let (sm, parts, label): (SplitMode, Vec<Vec<usize>>, String) = match mode {
            0 => (SplitMode::SinglePages, (0..n).map(|i| vec![i]).collect(), "SinglePages".into()),
            1 => {
                let k = 1 + c.choose("chunk", n + 1);
                (SplitMode::ChunkSize(k), (0..n).collect::<Vec<_>>().chunks(k).map(|x| x.to_vec()).collect(), format!("ChunkSize({k})"))
            }
            2 => {
                let mask = c.choose("points", 1 << (n - 1));
                let pts: Vec<usize> = (1..n).filter(|p| mask >> (p - 1) & 1 == 1).collect();
                let mut parts = Vec::new();
                let mut start = 0;
                for &p in &pts {
                    parts.push((start..p).collect());
                    start = p;
                }
                parts.push((start..n).collect());
                (SplitMode::SplitAt(pts.clone()), parts, format!("SplitAt({pts:?})"))
            }
            _ => {
                let menu = range_menu(n, list_len);
                let nr = 1 + c.choose("nranges", 2);
                let mut rs = Vec::new();
                let mut parts = Vec::new();
                let mut labels = Vec::new();
                for k in 0..nr {
                    // second range from a smaller menu in the quick tier
                    let lim = if k == 0 || thorough { menu.len() } else { menu.len().min(1 + n + n * (n + 1) / 2) };
                    let (r, idx, l) = &menu[c.choose("range", lim)];
                    rs.push(r.clone());
                    parts.push(idx.clone());
                    labels.push(l.clone());
                }
                (SplitMode::Ranges(rs), parts, format!("Ranges({labels:?})"))
            }
        };
        let what = format!("split {} {}", s.name, label);
        c.input(vx::h64(&what));
        if parts.len() > 1 || !is_identity(&parts[0], n) {
            c.nontrivial();
        }
        let pattern = format!("{base}_{{n}}.pdf");
        let res = if mode == 0 {
            flat(vx::guard(|| ops::split_into_pages(&s.path, &pattern)))
        } else {
            flat(vx::guard(|| ops::split_pdf(&s.path, SplitOptions { mode: sm, output_pattern: pattern.clone(), preserve_metadata: true, optimize: false })))
        };
        let mut oh = 0u64;
        match res {
            Err(e) => op_failed(c, &what, e),
            Ok(files) => {
                let want: Vec<PathBuf> = (0..parts.len()).map(|i| PathBuf::from(format!("{base}_{}.pdf", i + 1))).collect();
                if files != want {
                    c.fail("C16/split-output-files-differ", format!("{what}: returned {files:?}, expected {want:?}"));
                }
                for (k, p) in want.iter().enumerate() {
                    let exp: Vec<(&PageDesc, i64)> = parts[k].iter().map(|&i| (&s.pages[i], 0)).collect();
                    oh = vx::hmix(oh, check_output(c, &format!("{what} file {}", k + 1), p, &exp));
                }
                for f in files {
                    let _ = std::fs::remove_file(f);
                }
            }
        }
        c.outcome(oh);
        c.sample(json!({"op": what, "expected_files": parts}));
    });

    // ---- extract
    rep.explore("extract", Explore::full(), |c: &mut Ctx| {
        let si = c.choose("source", env.sources.len());
        let s = &env.sources[si];
        let n = s.n();
        let kind = c.choose("api", 3);
        let out = PathBuf::from(format!("{}.pdf", out_name(env, c, "extract")));
        let (what, idx, res): (String, Vec<usize>, Result<(), String>) = match kind {
            0 => {
                let seqs = sequences(n, n);
                let seq = seqs[c.choose("pages", seqs.len())].clone();
                (format!("extract_pages_to_file {} {seq:?}", s.name), seq.clone(), flat(vx::guard(|| ops::extract_pages_to_file(&s.path, &seq, &out))))
            }
            1 => {
                let i = c.choose("page", n);
                (format!("extract_page_to_file {} {i}", s.name), vec![i], flat(vx::guard(|| ops::extract_page_to_file(&s.path, i, &out))))
            }
            _ => {
                let menu = range_menu(n, list_len);
                let (r, idx, l) = &menu[c.choose("range", menu.len())];
                (format!("extract_page_range_to_file {} {l}", s.name), idx.clone(), flat(vx::guard(|| ops::extract_page_range_to_file(&s.path, r, &out))))
            }
        };
        c.input(vx::h64(&what));
        if !is_identity(&idx, n) {
            c.nontrivial();
        }
        match res {
            Err(e) => op_failed(c, &what, e),
            Ok(()) => {
                let exp: Vec<(&PageDesc, i64)> = idx.iter().map(|&i| (&s.pages[i], 0)).collect();
                let oh = check_output(c, &what, &out, &exp);
                c.outcome(oh);
            }
        }
        c.sample(json!({"op": what, "expected_pages": idx}));
    });

    // ---- reorder / reverse / swap / move
    rep.explore("reorder", Explore::full(), |c: &mut Ctx| {
        let si = c.choose("source", env.sources.len());
        let s = &env.sources[si];
        let n = s.n();
        let kind = c.choose("api", 4);
        let out = PathBuf::from(format!("{}.pdf", out_name(env, c, "reorder")));
        let (what, idx, res): (String, Vec<usize>, Result<(), String>) = match kind {
            0 => {
                let seqs = sequences(n, n);
                let seq = seqs[c.choose("order", seqs.len())].clone();
                (format!("reorder_pdf_pages {} {seq:?}", s.name), seq.clone(), flat(vx::guard(|| ops::reorder_pdf_pages(&s.path, &out, seq.clone()))))
            }
            1 => (format!("reverse_pdf_pages {}", s.name), (0..n).rev().collect(), flat(vx::guard(|| ops::reverse_pdf_pages(&s.path, &out)))),
            2 => {
                let i = c.choose("i", n);
                let j = c.choose("j", n);
                let mut idx: Vec<usize> = (0..n).collect();
                idx.swap(i, j);
                (format!("swap_pdf_pages {} {i} {j}", s.name), idx, flat(vx::guard(|| ops::swap_pdf_pages(&s.path, &out, i, j))))
            }
            _ => {
                let i = c.choose("from", n);
                let j = c.choose("to", n);
                // reference: the moved page ends at index j, the others keep their order
                let rest: Vec<usize> = (0..n).filter(|&p| p != i).collect();
                let mut idx = Vec::new();
                let mut it = rest.into_iter();
                for pos in 0..n {
                    if pos == j {
                        idx.push(i);
                    } else {
                        idx.push(it.next().unwrap());
                    }
                }
                (format!("move_pdf_page {} {i}->{j}", s.name), idx, flat(vx::guard(|| ops::move_pdf_page(&s.path, &out, i, j))))
            }
        };
        c.input(vx::h64(&what));
        if !is_identity(&idx, n) {
            c.nontrivial();
        }
        match res {
            Err(e) => op_failed(c, &what, e),
            Ok(()) => {
                let exp: Vec<(&PageDesc, i64)> = idx.iter().map(|&i| (&s.pages[i], 0)).collect();
                let oh = check_output(c, &what, &out, &exp);
                c.outcome(oh);
            }
        }
        c.sample(json!({"op": what, "expected_pages": idx}));
    });

    // ---- rotate
    const ANGLES: [(RotationAngle, i64); 4] = [(RotationAngle::None, 0), (RotationAngle::Clockwise90, 90), (RotationAngle::Rotate180, 180), (RotationAngle::Clockwise270, 270)];
    const DEGREES: [i32; 9] = [-90, 450, 360, -180, -270, 630, 720, -360, 810];
    rep.explore("rotate", Explore::full(), |c: &mut Ctx| {
        let si = c.choose("source", env.sources.len());
        let s = &env.sources[si];
        let n = s.n();
        let ai = c.choose("angle", ANGLES.len() + DEGREES.len());
        let (angle, deg, alabel) = if ai < ANGLES.len() {
            (ANGLES[ai].0, ANGLES[ai].1, format!("{:?}", ANGLES[ai].0))
        } else {
            let d = DEGREES[ai - ANGLES.len()];
            match vx::guard(|| RotationAngle::from_degrees(d)) {
                Ok(Ok(a)) => {
                    if a.to_degrees() as i64 != (d as i64).rem_euclid(360) {
                        c.fail("C16/from-degrees-wrong", format!("from_degrees({d}) = {a:?}"));
                    }
                    (a, (d as i64).rem_euclid(360), format!("from_degrees({d})"))
                }
                other => {
                    c.fail("C16/from-degrees-rejects-multiple-of-90", format!("from_degrees({d}) = {other:?}"));
                    return;
                }
            }
        };
        // page ranges: every subset as a List (incl. the empty one), All, Single, Range, and the rotate_all_pages shortcut
        let subs = subsets(n);
        let mut menu: Vec<(Option<PageRange>, Vec<usize>, String)> = subs.iter().map(|s| (Some(PageRange::List(s.clone())), s.clone(), format!("List({s:?})"))).collect();
        for (r, idx, l) in range_menu(n, 0) {
            menu.push((Some(r), idx, l));
        }
        // every index sequence of length 2..=n that is not an ascending subset: unsorted
        // permutations of every subset and lists with repeated indices (a page listed twice is
        // rotated once: the list denotes a set of pages)
        for seq in sequences(n, n.min(3)) {
            if seq.windows(2).all(|w| w[0] < w[1]) {
                continue;
            }
            let mut set = seq.clone();
            set.sort();
            set.dedup();
            menu.push((Some(PageRange::List(seq.clone())), set, format!("List({seq:?})")));
        }
        menu.push((None, (0..n).collect(), "rotate_all_pages".into()));
        let (range, rotated, rlabel) = &menu[c.choose("pages", menu.len())];
        let what = format!("rotate {} {alabel} {rlabel}", s.name);
        c.input(vx::h64(&what));
        if deg != 0 && !rotated.is_empty() {
            c.nontrivial();
        }
        let out = PathBuf::from(format!("{}.pdf", out_name(env, c, "rotate")));
        let res = match range {
            Some(r) => flat(vx::guard(|| ops::rotate_pdf_pages(&s.path, &out, RotateOptions { pages: r.clone(), angle, preserve_page_size: false }))),
            None => flat(vx::guard(|| ops::rotate_all_pages(&s.path, &out, angle))),
        };
        match res {
            Err(e) => op_failed(c, &what, e),
            Ok(()) => {
                let exp: Vec<(&PageDesc, i64)> = (0..n).map(|i| (&s.pages[i], if rotated.contains(&i) { deg } else { 0 })).collect();
                let oh = check_output(c, &what, &out, &exp);
                c.outcome(oh);
            }
        }
        c.sample(json!({"op": what, "rotated": rotated, "degrees": deg}));
    });

    // ---- thorough: every /Rotate assignment over {0, 90, -90, 450}^3 x every enum angle x every page subset
    if thorough {
        const ROTS: [i64; 4] = [0, 90, -90, 450];
        let mut rot_sources: Vec<Source> = Vec::new();
        for a in 0..64usize {
            let rots = [ROTS[a % 4], ROTS[a / 4 % 4], ROTS[a / 16]];
            let bytes = crafted_source(3, &rots, a % 2 == 1);
            let path = dir.join(format!("rot{a}.pdf"));
            match (std::fs::write(&path, &bytes), read_pages(&bytes)) {
                (Ok(()), Ok(pages)) => rot_sources.push(Source { name: format!("crafted3{rots:?}"), path, pages }),
                (w, r) => rep.machinery_error(format!("rotation source {rots:?}: {:?} {:?}", w.err(), r.err())),
            }
        }
        let rot_sources = &rot_sources;
        rep.explore("rotate-assignments", Explore::full(), |c: &mut Ctx| {
            let s = &rot_sources[c.choose("source", rot_sources.len())];
            let (angle, deg) = ANGLES[c.choose("angle", ANGLES.len())];
            let subs = subsets(3);
            let rotated = &subs[c.choose("pages", subs.len())];
            let what = format!("rotate {} {angle:?} List({rotated:?})", s.name);
            c.input(vx::h64(&what));
            if deg != 0 && !rotated.is_empty() {
                c.nontrivial();
            }
            let out = PathBuf::from(format!("{}.pdf", out_name(env, c, "rotall")));
            match flat(vx::guard(|| ops::rotate_pdf_pages(&s.path, &out, RotateOptions { pages: PageRange::List(rotated.clone()), angle, preserve_page_size: false }))) {
                Err(e) => op_failed(c, &what, e),
                Ok(()) => {
                    let exp: Vec<(&PageDesc, i64)> = (0..3).map(|i| (&s.pages[i], if rotated.contains(&i) { deg } else { 0 })).collect();
                    let oh = check_output(c, &what, &out, &exp);
                    c.outcome(oh);
                }
            }
            c.sample(json!({"op": what}));
        });
    }

    // ---- merge: every ordered pair x page-range menu per input (third input in the thorough tier)
    rep.explore("merge", Explore::full(), |c: &mut Ctx| {
        let ninputs = if thorough { 2 + c.choose("inputs", 2) } else { 2 };
        let mut inputs = Vec::new();
        let mut exp: Vec<(&PageDesc, i64)> = Vec::new();
        let mut labels = Vec::new();
        let mut all_plain = true;
        for k in 0..ninputs {
            let si = c.choose("source", env.sources.len());
            let s = &env.sources[si];
            let n = s.n();
            // None (= all pages) plus a small menu: last page, a range, a reversed list, a duplicate
            let mut menu: Vec<(Option<PageRange>, Vec<usize>, String)> = vec![(None, (0..n).collect(), "all".into())];
            if k < 2 {
                menu.push((Some(PageRange::Single(n - 1)), vec![n - 1], format!("Single({})", n - 1)));
                menu.push((Some(PageRange::Range(0, n - 2)), (0..n - 1).collect(), format!("Range(0,{})", n - 2)));
                menu.push((Some(PageRange::List(vec![n - 1, 0, 0])), vec![n - 1, 0, 0], format!("List([{},0,0])", n - 1)));
            }
            let (r, idx, l) = &menu[c.choose("range", menu.len())];
            if r.is_some() {
                all_plain = false;
            }
            inputs.push((s.path.clone(), r.clone()));
            for &i in idx {
                exp.push((&s.pages[i], 0));
            }
            labels.push(format!("{}:{l}", s.name));
        }
        let what = format!("merge {labels:?}");
        c.input(vx::h64(&what));
        c.nontrivial();
        let out = PathBuf::from(format!("{}.pdf", out_name(env, c, "merge")));
        let res = if all_plain {
            let paths: Vec<PathBuf> = inputs.iter().map(|(p, _)| p.clone()).collect();
            flat(vx::guard(|| ops::merge_pdf_files(&paths, &out)))
        } else {
            flat(vx::guard(|| {
                let ins: Vec<MergeInput> = inputs.iter().map(|(p, r)| match r { Some(r) => MergeInput::with_pages(p.clone(), r.clone()), None => MergeInput::new(p.clone()) }).collect();
                ops::merge_pdfs(ins, &out, MergeOptions::default())
            }))
        };
        match res {
            Err(e) => op_failed(c, &what, e),
            Ok(()) => {
                let oh = check_output(c, &what, &out, &exp);
                c.outcome(oh);
            }
        }
        c.sample(json!({"op": what, "expected_page_count": exp.len()}));
    });

    // ---- merge(split(d)) gives back d
    rep.explore("merge-of-split", Explore::full(), |c: &mut Ctx| {
        let si = c.choose("source", env.sources.len());
        let s = &env.sources[si];
        let n = s.n();
        let mode = c.choose("mode", 3);
        let (sm, label, nparts): (SplitMode, String, usize) = match mode {
            0 => (SplitMode::SinglePages, "SinglePages".into(), n),
            1 => {
                let k = 1 + c.choose("chunk", n + 1);
                (SplitMode::ChunkSize(k), format!("ChunkSize({k})"), (n + k - 1) / k)
            }
            _ => {
                let mask = c.choose("points", 1 << (n - 1));
                let pts: Vec<usize> = (1..n).filter(|p| mask >> (p - 1) & 1 == 1).collect();
                let np = pts.len() + 1;
                (SplitMode::SplitAt(pts.clone()), format!("SplitAt({pts:?})"), np)
            }
        };
        let what = format!("merge(split {} {label})", s.name);
        c.input(vx::h64(&what));
        if nparts > 1 {
            c.nontrivial();
        }
        let base = out_name(env, c, "ms");
        let pattern = format!("{base}_{{n}}.pdf");
        let files = match flat(vx::guard(|| ops::split_pdf(&s.path, SplitOptions { mode: sm, output_pattern: pattern, preserve_metadata: true, optimize: false }))) {
            Ok(f) => f,
            Err(e) => {
                op_failed(c, &what, e);
                return;
            }
        };
        if files.len() != nparts {
            c.fail("C16/split-output-files-differ", format!("{what}: {} files, expected {nparts}", files.len()));
        }
        let out = PathBuf::from(format!("{base}_merged.pdf"));
        let res = flat(vx::guard(|| ops::merge_pdf_files(&files, &out)));
        match res {
            Err(e) => op_failed(c, &what, e),
            Ok(()) => {
                let exp: Vec<(&PageDesc, i64)> = s.pages.iter().map(|p| (p, 0)).collect();
                let oh = check_output(c, &what, &out, &exp);
                c.outcome(oh);
            }
        }
        for f in files {
            let _ = std::fs::remove_file(f);
        }
        c.sample(json!({"op": what, "parts": nparts}));
    });

    rep.note("extra_resource_entries_tolerated", json!(EXTRA_RESOURCES_TOLERATED.load(Ordering::Relaxed)));
    rep.note("resource_keys_renamed_consistently", json!(RENAMED_RESOURCES.load(Ordering::Relaxed)));
    let _ = std::fs::remove_dir_all(&dir);
}
