//! C21 — content streams parse back to the operators that were written.
//!
//! Writer half. Calls are issued on a real `Page` (`page.graphics()`, `page.text()`,
//! `page.begin_marked_content…`), the page goes into a `Document`, `Document::to_bytes`
//! writes the file, and the page's content stream is read back with the independent file
//! reader `refpdf::file`. Three oracle layers, weakest assumption first:
//!  (a) `refpdf::content::parse_content` and the library's `ContentParser::parse` return the
//!      same operator list for the emitted bytes (refpdf operators are converted to the
//!      library's `ContentOperation` and compared with `==`);
//!  (b) `refpdf::content::parse_content_strict` reports no invalid token, no NaN/inf-like
//!      number, no unknown operator, no operand count/type deviation from Annex A, no
//!      dangling operand (nesting issues are the caller's business and ignored);
//!  (c) for calls with a per-call model the parsed operators are the issued ones, in call
//!      order, numbers within half a unit of the documented precision (`{:.2}` operands,
//!      `{:.3}` colours, `{:.4}` sc components, non-finite -> 0), strings byte-exact, names
//!      exact, marked-content property dictionaries equal. Colour operators are checked
//!      semantically: the colour in force at every paint operator (interpreting g/rg/k,
//!      G/RG/K and q/Q of the parsed stream) is the colour last set through the API.
//!      Composite helpers (`circle`, `draw_text` layout, `show_cid_array`) are held to
//!      (a)+(b) plus the parts of their output their documentation pins (Tj/TJ string bytes).
//!
//! Parser half: `ContentParser::parse` on every byte string of length <= 3 over a 24-byte
//! alphabet and on every single-byte substitution of three real content streams: must
//! return (Ok or Err) without panicking; a watchdog thread aborts the run with a VIOLATION
//! line if one parse takes longer than 20 s (machinery guard, never expected to fire).
use oxidize_pdf::graphics::{CidShowElement, ExtGState, LineCap, LineDashPattern, LineJoin, RenderingIntent};
use oxidize_pdf::parser::content::{ContentOperation, ContentParser, MarkedContentProps, MarkedContentValue, TextElement};
use oxidize_pdf::text::{Font, TextEncoding, TextRenderingMode};
use oxidize_pdf::{Color, Document, Page};
use refpdf::content::{self as rc, IssueKind, Op as ROp};
use refpdf::file::PdfFile;
use refpdf::syntax::Obj;
use serde_json::json;
use std::collections::HashMap;
use std::sync::atomic::{AtomicU64, Ordering};
use std::sync::{Arc, Mutex};
use vx::{Ctx, Explore, Report};

pub const BUILT: bool = true;

const NAN: f64 = f64::NAN;
const INF: f64 = f64::INFINITY;
/// argument menu: one ordinary value first (the default answer), then the menu of DESIGN.md
const NUMS: [f64; 9] = [12.5, 0.0, -0.0, 0.005, 1e9, NAN, INF, -INF, -1e-9];

// ------------------------------------------------------------------ calls

#[derive(Clone, Debug, PartialEq)]
enum Col {
    Gray(f64),
    Rgb(f64, f64, f64),
    Cmyk(f64, f64, f64, f64),
}
impl Col {
    fn to_lib(&self) -> Color {
        // the enum is built directly so that out-of-range / non-finite components reach the writer
        match *self {
            Col::Gray(g) => Color::Gray(g),
            Col::Rgb(r, g, b) => Color::Rgb(r, g, b),
            Col::Cmyk(c, m, y, k) => Color::Cmyk(c, m, y, k),
        }
    }
    fn comps(&self) -> Vec<f64> {
        match *self {
            Col::Gray(g) => vec![g],
            Col::Rgb(r, g, b) => vec![r, g, b],
            Col::Cmyk(c, m, y, k) => vec![c, m, y, k],
        }
    }
}

#[derive(Clone, Debug, PartialEq)]
enum F {
    Helvetica,
    Courier,
    TimesRoman,
    Custom(&'static str),
}
impl F {
    fn to_lib(&self) -> Font {
        match self {
            F::Helvetica => Font::Helvetica,
            F::Courier => Font::Courier,
            F::TimesRoman => Font::TimesRoman,
            F::Custom(n) => Font::Custom(n.to_string()),
        }
    }
    fn pdf_name(&self) -> &'static str {
        match self {
            F::Helvetica => "Helvetica",
            F::Courier => "Courier",
            F::TimesRoman => "Times-Roman",
            F::Custom(n) => n,
        }
    }
    fn is_custom(&self) -> bool {
        matches!(self, F::Custom(_))
    }
}

#[derive(Clone, Debug, PartialEq)]
enum Call {
    // GraphicsContext
    MoveTo(f64, f64),
    LineTo(f64, f64),
    CurveTo([f64; 6]),
    Rect([f64; 4]),
    ClosePath,
    Stroke,
    Fill,
    FillStroke,
    EndPath,
    Clip,
    ClipEvenOdd,
    ClipStroke,
    SetStrokeColor(Col),
    SetFillColor(Col),
    LineWidth(f64),
    Cap(u8),
    Join(u8),
    Miter(f64),
    Dash(Vec<f64>, f64),
    LineSolid,
    Flatness(f64),
    Intent(u8),
    SetAlpha(f64),
    SetOpacity(f64),
    Save,
    Restore,
    Transform([f64; 6]),
    Translate(f64, f64),
    Scale(f64, f64),
    Rotate(f64),
    DrawImage(&'static str, [f64; 4]),
    PaintShading(&'static str),
    GBeginText,
    GEndText,
    GSetFont(F, f64),
    GTextPos(f64, f64),
    GShowText(String),
    GWordSpacing(f64),
    GCharSpacing(f64),
    /// (cid, adjust, x_offset)
    ShowCidArray(Vec<(u16, f32, f32)>, f64, f64),
    // composites without a per-call model
    Circle(f64, f64, f64),
    DrawText(String, f64, f64),
    // TextContext
    TSetFont(F, f64),
    TAt(f64, f64),
    TWrite(String),
    TCharSpacing(f64),
    TWordSpacing(f64),
    THScale(f64),
    TLeading(f64),
    TRise(f64),
    TRenderMode(u8),
    TFillColor(Col),
    TStrokeColor(Col),
    // Page
    BeginMC(&'static str),
    BeginMCActual(&'static str, &'static str),
    EndMC,
}

fn cap(n: u8) -> LineCap {
    match n {
        0 => LineCap::Butt,
        1 => LineCap::Round,
        _ => LineCap::Square,
    }
}
fn join(n: u8) -> LineJoin {
    match n {
        0 => LineJoin::Miter,
        1 => LineJoin::Round,
        _ => LineJoin::Bevel,
    }
}
const INTENTS: [(&str, RenderingIntent); 4] = [
    ("AbsoluteColorimetric", RenderingIntent::AbsoluteColorimetric),
    ("RelativeColorimetric", RenderingIntent::RelativeColorimetric),
    ("Saturation", RenderingIntent::Saturation),
    ("Perceptual", RenderingIntent::Perceptual),
];
fn tr_mode(n: u8) -> TextRenderingMode {
    match n {
        0 => TextRenderingMode::Fill,
        1 => TextRenderingMode::Stroke,
        2 => TextRenderingMode::FillStroke,
        3 => TextRenderingMode::Invisible,
        4 => TextRenderingMode::FillClip,
        5 => TextRenderingMode::StrokeClip,
        6 => TextRenderingMode::FillStrokeClip,
        _ => TextRenderingMode::Clip,
    }
}

/// Issue one call on the page. `Err` = the API call itself returned an error.
fn apply(page: &mut Page, c: &Call) -> Result<(), String> {
    let e = |r: oxidize_pdf::Result<()>| r.map_err(|e| e.to_string());
    match c {
        Call::MoveTo(x, y) => {
            page.graphics().move_to(*x, *y);
        }
        Call::LineTo(x, y) => {
            page.graphics().line_to(*x, *y);
        }
        Call::CurveTo(a) => {
            page.graphics().curve_to(a[0], a[1], a[2], a[3], a[4], a[5]);
        }
        Call::Rect(a) => {
            page.graphics().rect(a[0], a[1], a[2], a[3]);
        }
        Call::ClosePath => {
            page.graphics().close_path();
        }
        Call::Stroke => {
            page.graphics().stroke();
        }
        Call::Fill => {
            page.graphics().fill();
        }
        Call::FillStroke => {
            page.graphics().fill_stroke();
        }
        Call::EndPath => {
            page.graphics().end_path();
        }
        Call::Clip => {
            page.graphics().clip();
        }
        Call::ClipEvenOdd => {
            page.graphics().clip_even_odd();
        }
        Call::ClipStroke => {
            page.graphics().clip_stroke();
        }
        Call::SetStrokeColor(col) => {
            page.graphics().set_stroke_color(col.to_lib());
        }
        Call::SetFillColor(col) => {
            page.graphics().set_fill_color(col.to_lib());
        }
        Call::LineWidth(w) => {
            page.graphics().set_line_width(*w);
        }
        Call::Cap(n) => {
            page.graphics().set_line_cap(cap(*n));
        }
        Call::Join(n) => {
            page.graphics().set_line_join(join(*n));
        }
        Call::Miter(m) => {
            page.graphics().set_miter_limit(*m);
        }
        Call::Dash(a, p) => {
            page.graphics().set_line_dash_pattern(LineDashPattern::new(a.clone(), *p));
        }
        Call::LineSolid => {
            page.graphics().set_line_solid();
        }
        Call::Flatness(f) => {
            page.graphics().set_flatness(*f);
        }
        Call::Intent(i) => {
            page.graphics().set_rendering_intent(INTENTS[*i as usize].1);
        }
        Call::SetAlpha(a) => {
            page.graphics().apply_extgstate(ExtGState::new().with_alpha(*a)).map_err(|e| e.to_string())?;
        }
        Call::SetOpacity(a) => {
            page.graphics().set_opacity(*a);
        }
        Call::Save => {
            page.graphics().save_state();
        }
        Call::Restore => {
            page.graphics().restore_state();
        }
        Call::Transform(a) => {
            page.graphics().transform(a[0], a[1], a[2], a[3], a[4], a[5]);
        }
        Call::Translate(x, y) => {
            page.graphics().translate(*x, *y);
        }
        Call::Scale(x, y) => {
            page.graphics().scale(*x, *y);
        }
        Call::Rotate(a) => {
            page.graphics().rotate(*a);
        }
        Call::DrawImage(n, a) => {
            page.graphics().draw_image(*n, a[0], a[1], a[2], a[3]);
        }
        Call::PaintShading(n) => {
            page.graphics().paint_shading(*n);
        }
        Call::GBeginText => {
            page.graphics().begin_text();
        }
        Call::GEndText => {
            page.graphics().end_text();
        }
        Call::GSetFont(f, s) => {
            page.graphics().set_font(f.to_lib(), *s);
        }
        Call::GTextPos(x, y) => {
            page.graphics().set_text_position(*x, *y);
        }
        Call::GShowText(s) => {
            page.graphics().show_text(s).map_err(|e| e.to_string())?;
        }
        Call::GWordSpacing(v) => {
            page.graphics().set_word_spacing(*v);
        }
        Call::GCharSpacing(v) => {
            page.graphics().set_character_spacing(*v);
        }
        Call::ShowCidArray(els, x, y) => {
            let v: Vec<CidShowElement> = els.iter().map(|(c, a, o)| CidShowElement::new(*c, *a).with_x_offset(*o)).collect();
            page.graphics().show_cid_array(&v, *x, *y);
        }
        Call::Circle(x, y, r) => {
            page.graphics().circle(*x, *y, *r);
        }
        Call::DrawText(s, x, y) => {
            page.graphics().draw_text(s, *x, *y).map_err(|e| e.to_string())?;
        }
        Call::TSetFont(f, s) => {
            page.text().set_font(f.to_lib(), *s);
        }
        Call::TAt(x, y) => {
            page.text().at(*x, *y);
        }
        Call::TWrite(s) => {
            page.text().write(s).map_err(|e| e.to_string())?;
        }
        Call::TCharSpacing(v) => {
            page.text().set_character_spacing(*v);
        }
        Call::TWordSpacing(v) => {
            page.text().set_word_spacing(*v);
        }
        Call::THScale(v) => {
            page.text().set_horizontal_scaling(*v);
        }
        Call::TLeading(v) => {
            page.text().set_leading(*v);
        }
        Call::TRise(v) => {
            page.text().set_text_rise(*v);
        }
        Call::TRenderMode(m) => {
            page.text().set_rendering_mode(tr_mode(*m));
        }
        Call::TFillColor(col) => {
            page.text().set_fill_color(col.to_lib());
        }
        Call::TStrokeColor(col) => {
            page.text().set_stroke_color(col.to_lib());
        }
        Call::BeginMC(tag) => {
            page.begin_marked_content(tag).map_err(|e| e.to_string())?;
        }
        Call::BeginMCActual(tag, t) => {
            page.begin_marked_content_with_actual_text(tag, t).map_err(|e| e.to_string())?;
        }
        Call::EndMC => {
            return e(page.end_marked_content());
        }
    }
    Ok(())
}

/// Issue the calls, write the document, read the page content back with refpdf.
/// Returns (content bytes, per-call API error if any).
fn emit(calls: &[Call]) -> Result<(Vec<u8>, Vec<Option<String>>), String> {
    let r = vx::guard(|| -> Result<(Vec<u8>, Vec<Option<String>>), String> {
        let mut page = Page::a4();
        let mut errs = Vec::new();
        for c in calls {
            errs.push(apply(&mut page, c).err());
        }
        let mut doc = Document::new();
        doc.set_compress(false);
        doc.add_page(page);
        let bytes = doc.to_bytes().map_err(|e| format!("to_bytes: {e}"))?;
        let f = PdfFile::parse(&bytes).map_err(|e| format!("refpdf cannot read the written file: {e}"))?;
        let pages = f.pages().map_err(|e| format!("refpdf pages(): {e}"))?;
        if pages.len() != 1 {
            return Err(format!("written file has {} pages", pages.len()));
        }
        let content = f.page_content(&pages[0]).map_err(|e| format!("refpdf page_content: {e}"))?;
        Ok((content, errs))
    });
    match r {
        Ok(x) => x,
        Err(p) => Err(format!("panic: {p}")),
    }
}

// ------------------------------------------------------------------ expected operators (layer c)

#[derive(Clone, Debug)]
enum X {
    /// number within half a unit of the `d`-th decimal of the (sanitised) value
    Num(f64, u32),
    /// any of several values (documented clamps)
    NumAny(Vec<f64>, u32),
    Int(i64),
    Name(String),
    Str(Vec<u8>),
    /// a string whose bytes the standard does not pin (character without a WinAnsi code)
    AnyStr,
    NumArray(Vec<f64>, u32),
    Dict(Vec<(String, X)>),
}

#[derive(Clone, Debug)]
enum Exp {
    Op(&'static str, Vec<X>),
    /// `/<any name> gs`
    GsAny,
    /// paint operator with the colours that must be in force (None = not checked)
    Paint(&'static str, Option<Col>, Option<Col>),
    /// BT … ET emitted by `TextContext::write`: exactly one Tf, Td, Tj with these operands and
    /// exactly one operator per set text-state parameter, all before the Tj (order among the
    /// state operators is not part of the model)
    TextBlock { tf: (String, f64), params: Vec<(&'static str, X)>, td: (f64, f64), tj: Option<Vec<u8>>, fill: Option<Col>, stroke: Option<Col> },
    /// BT … ET emitted by a composite: only the pinned parts are compared
    LooseText { td: Option<(f64, f64)>, tj: Option<Vec<u8>>, tj_array_glyphs: Option<Vec<u8>> },
    /// a composite without a model: consumes nothing, switches layer (c) off for the case
    Unmodelled,
}

fn fz(v: f64) -> f64 {
    if v.is_finite() {
        v
    } else {
        0.0
    }
}
fn n2(v: f64) -> X {
    X::Num(v, 2)
}

/// Annex D.2 WinAnsiEncoding, inverse direction, for the characters whose code the standard
/// pins. `None` = the standard assigns no code to this character.
fn winansi_code(ch: char) -> Option<u8> {
    let c = ch as u32;
    Some(match c {
        0x20..=0x7E => c as u8,
        0xA0..=0xFF => c as u8,
        0x20AC => 0x80,
        0x201A => 0x82,
        0x0192 => 0x83,
        0x201E => 0x84,
        0x2026 => 0x85,
        0x2020 => 0x86,
        0x2021 => 0x87,
        0x02C6 => 0x88,
        0x2030 => 0x89,
        0x0160 => 0x8A,
        0x2039 => 0x8B,
        0x0152 => 0x8C,
        0x017D => 0x8E,
        0x2018 => 0x91,
        0x2019 => 0x92,
        0x201C => 0x93,
        0x201D => 0x94,
        0x2022 => 0x95,
        0x2013 => 0x96,
        0x2014 => 0x97,
        0x02DC => 0x98,
        0x2122 => 0x99,
        0x0161 => 0x9A,
        0x203A => 0x9B,
        0x0153 => 0x9C,
        0x017E => 0x9E,
        0x0178 => 0x9F,
        _ => return None,
    })
}
/// the character that WinAnsi-encodes to `b`, when one is pinned (controls: identity is the
/// only candidate and is what the writer's public encoder documents for 0x00..0x7F)
fn char_for_byte(b: u8) -> Option<char> {
    match b {
        0x00..=0x7F => Some(b as char),
        0xA0..=0xFF => Some(b as char),
        _ => (0x0100u32..0x2200).filter_map(char::from_u32).find(|c| winansi_code(*c) == Some(b)),
    }
}

/// Expected Tj bytes for text shown with a builtin (WinAnsi) font: Annex D where pinned;
/// for characters without a pinned code the library's own public encoder
/// (`TextEncoding::WinAnsiEncoding::encode`) — this layer checks escaping and serialisation,
/// the encoder itself is C25's subject.
fn expected_winansi(text: &str) -> Vec<u8> {
    let mut out = Vec::new();
    for ch in text.chars() {
        match winansi_code(ch) {
            Some(b) => out.push(b),
            None => out.extend(TextEncoding::WinAnsiEncoding.encode(&ch.to_string())),
        }
    }
    out
}
fn utf16be(text: &str) -> Vec<u8> {
    text.encode_utf16().flat_map(|u| u.to_be_bytes()).collect()
}

struct Model {
    exp: Vec<Exp>,
    /// false when a composite without a model took part
    modelled: bool,
}

fn model(calls: &[Call], api_errs: &[Option<String>]) -> Model {
    let black = Col::Gray(0.0);
    let mut exp: Vec<Exp> = Vec::new();
    let mut modelled = true;
    // graphics-context state the API documents
    let mut fill = black.clone();
    let mut stroke = black.clone();
    let mut colours_known = true;
    let mut gfont: Option<(String, f64, bool)> = None;
    let mut stack: Vec<(Col, Col, Option<(String, f64, bool)>)> = Vec::new();
    let mut pending_gs = false;
    // text-context state
    let mut tfont = F::Helvetica;
    let mut tsize = 12.0;
    let mut tpos = (0.0, 0.0);
    let mut tparams: Vec<(&'static str, X)> = Vec::new();
    let mut tfill: Option<Col> = None;
    let mut tstroke: Option<Col> = None;
    // page state
    let mut mcid = 0i64;
    let mut mc_depth = 0usize;
    let set_param = |p: &mut Vec<(&'static str, X)>, k: &'static str, v: X| {
        p.retain(|(kk, _)| *kk != k);
        p.push((k, v));
    };
    for (i, c) in calls.iter().enumerate() {
        let failed = api_errs.get(i).map(|e| e.is_some()).unwrap_or(false);
        let flush_gs = |exp: &mut Vec<Exp>, pending: &mut bool| {
            if *pending {
                exp.push(Exp::GsAny);
                *pending = false;
            }
        };
        let kf = |c: &Col, known: bool| if known { Some(c.clone()) } else { None };
        match c {
            Call::MoveTo(x, y) => exp.push(Exp::Op("m", vec![n2(*x), n2(*y)])),
            Call::LineTo(x, y) => exp.push(Exp::Op("l", vec![n2(*x), n2(*y)])),
            Call::CurveTo(a) => exp.push(Exp::Op("c", a.iter().map(|v| n2(*v)).collect())),
            Call::Rect(a) => exp.push(Exp::Op("re", a.iter().map(|v| n2(*v)).collect())),
            Call::ClosePath => exp.push(Exp::Op("h", vec![])),
            Call::Stroke => {
                flush_gs(&mut exp, &mut pending_gs);
                exp.push(Exp::Paint("S", None, kf(&stroke, colours_known)));
            }
            Call::Fill => {
                flush_gs(&mut exp, &mut pending_gs);
                exp.push(Exp::Paint("f", kf(&fill, colours_known), None));
            }
            Call::FillStroke => {
                flush_gs(&mut exp, &mut pending_gs);
                exp.push(Exp::Paint("B", kf(&fill, colours_known), kf(&stroke, colours_known)));
            }
            Call::EndPath => exp.push(Exp::Op("n", vec![])),
            Call::Clip => exp.push(Exp::Op("W", vec![])),
            Call::ClipEvenOdd => exp.push(Exp::Op("W*", vec![])),
            Call::ClipStroke => {
                exp.push(Exp::Op("W", vec![]));
                exp.push(Exp::Paint("S", None, kf(&stroke, colours_known)));
            }
            Call::SetStrokeColor(col) => stroke = col.clone(),
            Call::SetFillColor(col) => fill = col.clone(),
            Call::LineWidth(w) => exp.push(Exp::Op("w", vec![n2(*w)])),
            Call::Cap(n) => exp.push(Exp::Op("J", vec![X::Int(*n as i64)])),
            Call::Join(n) => exp.push(Exp::Op("j", vec![X::Int(*n as i64)])),
            // §8.4.3.5: a miter limit below 1 is meaningless; the API clamps to >= 1 — both the
            // issued value and the clamp are accepted
            Call::Miter(m) => exp.push(Exp::Op("M", vec![if *m >= 1.0 && m.is_finite() { n2(*m) } else { X::NumAny(vec![fz(*m), 1.0], 2) }])),
            Call::Dash(a, p) => exp.push(Exp::Op("d", vec![X::NumArray(a.clone(), 2), n2(*p)])),
            Call::LineSolid => exp.push(Exp::Op("d", vec![X::NumArray(vec![], 2), n2(0.0)])),
            // Table 57: flatness is 0..100; the API clamps — issued value or the clamp accepted
            Call::Flatness(f) => exp.push(Exp::Op("i", vec![X::NumAny(vec![fz(*f), if f.is_nan() { 0.0 } else { f.clamp(0.0, 100.0) }], 2)])),
            Call::Intent(i) => exp.push(Exp::Op("ri", vec![X::Name(INTENTS[*i as usize].0.into())])),
            Call::SetAlpha(_) => {
                if !failed {
                    exp.push(Exp::GsAny)
                }
            }
            Call::SetOpacity(a) => {
                if *a < 1.0 {
                    pending_gs = true;
                }
            }
            Call::Save => {
                exp.push(Exp::Op("q", vec![]));
                stack.push((fill.clone(), stroke.clone(), gfont.clone()));
            }
            Call::Restore => {
                exp.push(Exp::Op("Q", vec![]));
                match stack.pop() {
                    Some((f, s, g)) => {
                        fill = f;
                        stroke = s;
                        gfont = g;
                    }
                    // Q without q: the graphics state after it is undefined (§8.4.2)
                    None => colours_known = false,
                }
            }
            Call::Transform(a) => exp.push(Exp::Op("cm", a.iter().map(|v| n2(*v)).collect())),
            Call::Translate(x, y) => exp.push(Exp::Op("cm", vec![n2(1.0), n2(0.0), n2(0.0), n2(1.0), n2(*x), n2(*y)])),
            Call::Scale(x, y) => exp.push(Exp::Op("cm", vec![n2(*x), n2(0.0), n2(0.0), n2(*y), n2(0.0), n2(0.0)])),
            Call::Rotate(a) => {
                let (s, co) = (a.sin(), a.cos());
                exp.push(Exp::Op("cm", vec![n2(co), n2(s), n2(-s), n2(co), n2(0.0), n2(0.0)]));
            }
            Call::DrawImage(n, a) => {
                exp.push(Exp::Op("q", vec![]));
                exp.push(Exp::Op("cm", vec![n2(a[2]), n2(0.0), n2(0.0), n2(a[3]), n2(a[0]), n2(a[1])]));
                exp.push(Exp::Op("Do", vec![X::Name(n.to_string())]));
                exp.push(Exp::Op("Q", vec![]));
            }
            Call::PaintShading(n) => {
                flush_gs(&mut exp, &mut pending_gs);
                exp.push(Exp::Op("sh", vec![X::Name(n.to_string())]));
            }
            Call::GBeginText => exp.push(Exp::Op("BT", vec![])),
            Call::GEndText => exp.push(Exp::Op("ET", vec![])),
            Call::GSetFont(f, s) => {
                // Tf size is written with full precision (Display), so 9 decimals of tolerance
                exp.push(Exp::Op("Tf", vec![X::Name(f.pdf_name().into()), X::Num(*s, 9)]));
                gfont = Some((f.pdf_name().into(), *s, f.is_custom()));
            }
            Call::GTextPos(x, y) => exp.push(Exp::Op("Td", vec![n2(*x), n2(*y)])),
            Call::GShowText(s) => {
                let custom = gfont.as_ref().map(|g| g.2).unwrap_or(false);
                // builtin font: the Tj bytes are pinned when every character is ASCII or has a
                // WinAnsi code (Annex D.2); otherwise only "one string operand" is required
                let pinned = s.chars().all(|ch| (ch as u32) < 0x80 || winansi_code(ch).is_some());
                let x = if custom {
                    X::Str(utf16be(s))
                } else if pinned {
                    X::Str(s.chars().map(|ch| winansi_code(ch).unwrap_or(ch as u32 as u8)).collect())
                } else {
                    X::AnyStr
                };
                exp.push(Exp::Op("Tj", vec![x]));
            }
            Call::GWordSpacing(v) => exp.push(Exp::Op("Tw", vec![n2(*v)])),
            Call::GCharSpacing(v) => exp.push(Exp::Op("Tc", vec![n2(*v)])),
            Call::ShowCidArray(els, x, y) => {
                let glyphs: Vec<u8> = els.iter().flat_map(|e| e.0.to_be_bytes()).collect();
                exp.push(Exp::LooseText { td: Some((*x, *y)), tj: None, tj_array_glyphs: Some(glyphs) });
            }
            Call::Circle(..) => {
                modelled = false;
                exp.push(Exp::Unmodelled);
            }
            Call::DrawText(s, x, y) => {
                let custom = gfont.as_ref().map(|g| g.2).unwrap_or(false);
                if failed {
                    modelled = false;
                    exp.push(Exp::Unmodelled);
                } else if custom || s.chars().any(|c| c as u32 > 255) {
                    exp.push(Exp::LooseText { td: Some((*x, *y)), tj: Some(utf16be(s)), tj_array_glyphs: None });
                } else {
                    // documented: code points 0..=255 are written as that byte
                    exp.push(Exp::LooseText { td: Some((*x, *y)), tj: Some(s.chars().map(|c| c as u32 as u8).collect()), tj_array_glyphs: None });
                }
            }
            Call::TSetFont(f, s) => {
                tfont = f.clone();
                tsize = *s;
            }
            Call::TAt(x, y) => tpos = (*x, *y),
            Call::TWrite(s) => {
                if failed {
                    modelled = false;
                    exp.push(Exp::Unmodelled);
                } else {
                    let bytes = if tfont.is_custom() { utf16be(s) } else { expected_winansi(s) };
                    exp.push(Exp::TextBlock { tf: (tfont.pdf_name().into(), tsize), params: tparams.clone(), td: tpos, tj: Some(bytes), fill: tfill.clone(), stroke: tstroke.clone() });
                }
            }
            Call::TCharSpacing(v) => set_param(&mut tparams, "Tc", n2(*v)),
            Call::TWordSpacing(v) => set_param(&mut tparams, "Tw", n2(*v)),
            // documented: the setter takes a ratio, the operator a percentage
            Call::THScale(v) => set_param(&mut tparams, "Tz", n2(*v * 100.0)),
            Call::TLeading(v) => set_param(&mut tparams, "TL", n2(*v)),
            Call::TRise(v) => set_param(&mut tparams, "Ts", n2(*v)),
            Call::TRenderMode(m) => set_param(&mut tparams, "Tr", X::Int(*m as i64)),
            Call::TFillColor(col) => tfill = Some(col.clone()),
            Call::TStrokeColor(col) => tstroke = Some(col.clone()),
            Call::BeginMC(tag) => {
                if !failed {
                    exp.push(Exp::Op("BDC", vec![X::Name(tag.to_string()), X::Dict(vec![("MCID".into(), X::Int(mcid))])]));
                    mcid += 1;
                    mc_depth += 1;
                }
            }
            Call::BeginMCActual(tag, t) => {
                if !failed {
                    let mut s = vec![0xFE, 0xFF];
                    s.extend(utf16be(t));
                    exp.push(Exp::Op("BDC", vec![X::Name(tag.to_string()), X::Dict(vec![("MCID".into(), X::Int(mcid)), ("ActualText".into(), X::Str(s))])]));
                    mcid += 1;
                    mc_depth += 1;
                }
            }
            Call::EndMC => {
                if mc_depth > 0 && !failed {
                    exp.push(Exp::Op("EMC", vec![]));
                    mc_depth -= 1;
                }
            }
        }
    }
    Model { exp, modelled }
}

// ------------------------------------------------------------------ matching parsed against expected

fn num_ok(got: &Obj, want: f64, d: u32) -> bool {
    let Some(g) = got.as_num() else { return false };
    let w = fz(want);
    let half = 0.5 * 10f64.powi(-(d as i32));
    (g - w).abs() <= half * (1.0 + 1e-9) + w.abs() * 4e-16
}
fn x_ok(got: &Obj, want: &X) -> bool {
    match want {
        X::Num(v, d) => num_ok(got, *v, *d),
        X::NumAny(vs, d) => vs.iter().any(|v| num_ok(got, *v, *d)),
        X::Int(i) => matches!(got, Obj::Int(g) if g == i),
        X::Name(n) => matches!(got, Obj::Name(g) if g.as_slice() == n.as_bytes()),
        X::Str(s) => matches!(got, Obj::Str(g) if g == s),
        X::AnyStr => matches!(got, Obj::Str(_)),
        X::NumArray(vs, d) => matches!(got, Obj::Array(a) if a.len() == vs.len() && a.iter().zip(vs).all(|(g, v)| num_ok(g, *v, *d))),
        X::Dict(es) => match got {
            Obj::Dict(dd) => dd.len() == es.len() && !dd.has_duplicates() && es.iter().all(|(k, v)| dd.get(k).map(|g| x_ok(g, v)).unwrap_or(false)),
            _ => false,
        },
    }
}

/// colour in force: (operator name, components)
type Eff = Option<(Vec<u8>, Vec<f64>)>;

fn col_ok(eff: &Eff, want: &Col, stroking: bool) -> bool {
    let Some((op, comps)) = eff else {
        // nothing set in the stream: the initial colour is black in DeviceGray (§8.6.3 Table 52)
        return *want == Col::Gray(0.0);
    };
    let name: &[u8] = match (want, stroking) {
        (Col::Gray(_), false) => b"g",
        (Col::Gray(_), true) => b"G",
        (Col::Rgb(..), false) => b"rg",
        (Col::Rgb(..), true) => b"RG",
        (Col::Cmyk(..), false) => b"k",
        (Col::Cmyk(..), true) => b"K",
    };
    let w = want.comps();
    op.as_slice() == name && comps.len() == w.len() && comps.iter().zip(&w).all(|(g, v)| (g - fz(*v)).abs() <= 0.0005 * (1.0 + 1e-9) + fz(*v).abs() * 4e-16)
}

/// Strip colour operators, attaching to every remaining operator the colours in force.
fn strip_colours(ops: &[ROp]) -> Vec<(ROp, Eff, Eff)> {
    let mut out = Vec::new();
    let (mut fill, mut stroke): (Eff, Eff) = (None, None);
    let mut stack: Vec<(Eff, Eff)> = Vec::new();
    for op in ops {
        let nums: Option<Vec<f64>> = op.operands.iter().map(|o| o.as_num()).collect();
        match op.operator.as_slice() {
            b"g" | b"rg" | b"k" => {
                fill = Some((op.operator.clone(), nums.unwrap_or_default()));
                continue;
            }
            b"G" | b"RG" | b"K" => {
                stroke = Some((op.operator.clone(), nums.unwrap_or_default()));
                continue;
            }
            b"q" => stack.push((fill.clone(), stroke.clone())),
            b"Q" => {
                if let Some((f, s)) = stack.pop() {
                    fill = f;
                    stroke = s;
                }
            }
            _ => {}
        }
        out.push((op.clone(), fill.clone(), stroke.clone()));
    }
    out
}

/// Layer (c). `Err((what, detail))`.
fn match_model(ops: &[ROp], exp: &[Exp]) -> Result<(), (String, String)> {
    let s = strip_colours(ops);
    let mut i = 0usize;
    let show = |i: usize| s.get(i).map(|x| format!("{:?}", x.0)).unwrap_or_else(|| "<end of stream>".into());
    for (k, e) in exp.iter().enumerate() {
        match e {
            Exp::Unmodelled => return Ok(()),
            Exp::Op(name, xs) => {
                let Some((op, _, _)) = s.get(i) else { return Err(("operator-missing".into(), format!("expected #{k} {e:?}, stream ended"))) };
                if op.operator != name.as_bytes() {
                    return Err(("operator-differs".into(), format!("expected #{k} {e:?}, got {}", show(i))));
                }
                if op.operands.len() != xs.len() || !op.operands.iter().zip(xs).all(|(g, w)| x_ok(g, w)) {
                    return Err((format!("operands-differ-{name}"), format!("expected #{k} {e:?}, got {}", show(i))));
                }
                i += 1;
            }
            Exp::GsAny => {
                let ok = s.get(i).map(|(op, _, _)| op.is("gs") && op.operands.len() == 1 && matches!(op.operands[0], Obj::Name(_))).unwrap_or(false);
                if !ok {
                    return Err(("operator-differs".into(), format!("expected #{k} '/name gs', got {}", show(i))));
                }
                i += 1;
            }
            Exp::Paint(name, f, st) => {
                let Some((op, ef, es)) = s.get(i) else { return Err(("operator-missing".into(), format!("expected #{k} {e:?}, stream ended"))) };
                if op.operator != name.as_bytes() || !op.operands.is_empty() {
                    return Err(("operator-differs".into(), format!("expected #{k} {e:?}, got {}", show(i))));
                }
                if let Some(f) = f {
                    if !col_ok(ef, f, false) {
                        return Err(("fill-colour-at-paint".into(), format!("at '{name}' (#{k}) fill colour in force is {ef:?}, API set {f:?}")));
                    }
                }
                if let Some(st) = st {
                    if !col_ok(es, st, true) {
                        return Err(("stroke-colour-at-paint".into(), format!("at '{name}' (#{k}) stroke colour in force is {es:?}, API set {st:?}")));
                    }
                }
                i += 1;
            }
            Exp::TextBlock { tf, params, td, tj, fill, stroke } => {
                if !s.get(i).map(|x| x.0.is("BT")).unwrap_or(false) {
                    return Err(("operator-differs".into(), format!("expected #{k} BT of a write(), got {}", show(i))));
                }
                i += 1;
                let start = i;
                while i < s.len() && !s[i].0.is("ET") {
                    i += 1;
                }
                if i >= s.len() {
                    return Err(("operator-missing".into(), format!("write() #{k}: no ET")));
                }
                let inner = &s[start..i];
                i += 1;
                let count = |n: &str| inner.iter().filter(|x| x.0.is(n)).count();
                let pos = |n: &str| inner.iter().position(|x| x.0.is(n));
                let tjpos = pos("Tj");
                if count("Tj") != 1 || count("Tf") != 1 || count("Td") != 1 {
                    return Err(("text-block-shape".into(), format!("write() #{k}: expected one Tf, Td, Tj inside BT/ET, got {:?}", inner.iter().map(|x| x.0.name()).collect::<Vec<_>>())));
                }
                let tjpos = tjpos.unwrap();
                let tfop = &inner[pos("Tf").unwrap()].0;
                if !(tfop.operands.len() == 2 && x_ok(&tfop.operands[0], &X::Name(tf.0.clone())) && num_ok(&tfop.operands[1], tf.1, 9)) {
                    return Err(("operands-differ-Tf".into(), format!("write() #{k}: expected /{} {} Tf, got {tfop:?}", tf.0, tf.1)));
                }
                let tdop = &inner[pos("Td").unwrap()].0;
                if !(tdop.operands.len() == 2 && num_ok(&tdop.operands[0], td.0, 2) && num_ok(&tdop.operands[1], td.1, 2)) {
                    return Err(("operands-differ-Td".into(), format!("write() #{k}: expected {} {} Td, got {tdop:?}", td.0, td.1)));
                }
                for (pn, pv) in params {
                    let hits: Vec<usize> = inner.iter().enumerate().filter(|(_, x)| x.0.is(pn)).map(|(j, _)| j).collect();
                    if hits.len() != 1 || hits[0] > tjpos {
                        return Err((format!("text-state-{pn}-missing"), format!("write() #{k}: expected exactly one {pn} before Tj, got {:?}", inner.iter().map(|x| x.0.name()).collect::<Vec<_>>())));
                    }
                    let o = &inner[hits[0]].0;
                    if !(o.operands.len() == 1 && x_ok(&o.operands[0], pv)) {
                        return Err((format!("operands-differ-{pn}"), format!("write() #{k}: expected {pv:?} {pn}, got {o:?}")));
                    }
                }
                for n in ["Tc", "Tw", "Tz", "TL", "Ts", "Tr"] {
                    if !params.iter().any(|(p, _)| *p == n) && count(n) > 0 {
                        return Err((format!("text-state-{n}-unrequested"), format!("write() #{k}: {n} emitted but never set")));
                    }
                }
                let (tjop, ef, es) = &inner[tjpos];
                if let Some(want) = tj {
                    if !(tjop.operands.len() == 1 && x_ok(&tjop.operands[0], &X::Str(want.clone()))) {
                        return Err(("tj-string".into(), format!("write() #{k}: expected Tj string {}, got {tjop:?}", vx::show_bytes(want, 64))));
                    }
                }
                if let Some(f) = fill {
                    if !col_ok(ef, f, false) {
                        return Err(("fill-colour-at-text".into(), format!("write() #{k}: fill colour in force at Tj is {ef:?}, text().set_fill_color gave {f:?}")));
                    }
                }
                if let Some(st) = stroke {
                    if !col_ok(es, st, true) {
                        return Err(("stroke-colour-at-text".into(), format!("write() #{k}: stroke colour in force at Tj is {es:?}, text().set_stroke_color gave {st:?}")));
                    }
                }
            }
            Exp::LooseText { td, tj, tj_array_glyphs } => {
                if !s.get(i).map(|x| x.0.is("BT")).unwrap_or(false) {
                    return Err(("operator-differs".into(), format!("expected #{k} BT of a composite, got {}", show(i))));
                }
                i += 1;
                let start = i;
                while i < s.len() && !s[i].0.is("ET") {
                    i += 1;
                }
                if i >= s.len() {
                    return Err(("operator-missing".into(), format!("composite #{k}: no ET")));
                }
                let inner = &s[start..i];
                i += 1;
                if let Some((x, y)) = td {
                    let ok = inner.iter().filter(|o| o.0.is("Td")).count() == 1 && inner.iter().any(|o| o.0.is("Td") && o.0.operands.len() == 2 && num_ok(&o.0.operands[0], *x, 2) && num_ok(&o.0.operands[1], *y, 2));
                    if !ok {
                        return Err(("operands-differ-Td".into(), format!("composite #{k}: expected {x} {y} Td, got {:?}", inner.iter().map(|o| format!("{:?}", o.0)).collect::<Vec<_>>())));
                    }
                }
                if let Some(want) = tj {
                    let got: Vec<&ROp> = inner.iter().map(|o| &o.0).filter(|o| o.is("Tj")).collect();
                    if !(got.len() == 1 && got[0].operands.len() == 1 && x_ok(&got[0].operands[0], &X::Str(want.clone()))) {
                        return Err(("tj-string".into(), format!("composite #{k}: expected Tj string {}, got {got:?}", vx::show_bytes(want, 64))));
                    }
                }
                if let Some(want) = tj_array_glyphs {
                    let got: Vec<&ROp> = inner.iter().map(|o| &o.0).filter(|o| o.is("TJ")).collect();
                    let concat: Option<Vec<u8>> = if got.len() == 1 { got[0].operands.first().and_then(|a| a.as_array()).map(|a| a.iter().filter_map(|e| e.as_str_bytes()).flatten().copied().collect()) } else { None };
                    if concat.as_ref() != Some(want) {
                        return Err(("tj-array-glyphs".into(), format!("composite #{k}: TJ glyph bytes {concat:?}, expected {want:?}")));
                    }
                }
            }
        }
    }
    if i != s.len() {
        return Err(("operator-extra".into(), format!("unexpected operator after the modelled ones: {}", show(i))));
    }
    Ok(())
}

// ------------------------------------------------------------------ layer (a): refpdf op -> library op

fn mc_value(o: &Obj) -> Option<MarkedContentValue> {
    Some(match o {
        Obj::Str(s) => MarkedContentValue::String(s.clone()),
        Obj::Int(i) => MarkedContentValue::Integer(*i),
        Obj::Real(r) => MarkedContentValue::Real(*r as f32 as f64),
        Obj::Name(n) => MarkedContentValue::Name(String::from_utf8(n.clone()).ok()?),
        Obj::Array(a) => MarkedContentValue::Array(a.iter().map(mc_value).collect::<Option<Vec<_>>>()?),
        Obj::Dict(d) => {
            let mut m = HashMap::new();
            for (k, v) in d.iter() {
                m.insert(String::from_utf8(k.clone()).ok()?, mc_value(v)?);
            }
            MarkedContentValue::Dict(m)
        }
        _ => return None,
    })
}

/// Convert a well-formed refpdf operator to the library's representation. `None` = not
/// well-formed by Annex A (layer (b) reports it) or outside the library's operator enum.
fn to_lib(op: &ROp) -> Option<ContentOperation> {
    use ContentOperation as C;
    if rc::check_operands(&op.operator, &op.operands).is_err() {
        return None;
    }
    let n = |i: usize| op.operands[i].as_num().unwrap() as f32;
    let int = |i: usize| op.operands[i].as_int().and_then(|v| i32::try_from(v).ok());
    let name = |i: usize| String::from_utf8(op.operands[i].as_name().unwrap().to_vec()).ok();
    let s = |i: usize| op.operands[i].as_str_bytes().unwrap().to_vec();
    let props = |i: usize| -> Option<MarkedContentProps> {
        match &op.operands[i] {
            Obj::Name(nm) => Some(MarkedContentProps::ResourceRef(String::from_utf8(nm.clone()).ok()?)),
            Obj::Dict(d) => {
                let mut m = HashMap::new();
                for (k, v) in d.iter() {
                    m.insert(String::from_utf8(k.clone()).ok()?, mc_value(v)?);
                }
                Some(MarkedContentProps::Inline(m))
            }
            _ => None,
        }
    };
    let comps = || -> Vec<f32> { op.operands.iter().filter_map(|o| o.as_num()).map(|v| v as f32).collect() };
    Some(match op.operator.as_slice() {
        b"BT" => C::BeginText,
        b"ET" => C::EndText,
        b"Tc" => C::SetCharSpacing(n(0)),
        b"Tw" => C::SetWordSpacing(n(0)),
        b"Tz" => C::SetHorizontalScaling(n(0)),
        b"TL" => C::SetLeading(n(0)),
        b"Tf" => C::SetFont(name(0)?, n(1)),
        b"Tr" => C::SetTextRenderMode(int(0)?),
        b"Ts" => C::SetTextRise(n(0)),
        b"Td" => C::MoveText(n(0), n(1)),
        b"TD" => C::MoveTextSetLeading(n(0), n(1)),
        b"Tm" => C::SetTextMatrix(n(0), n(1), n(2), n(3), n(4), n(5)),
        b"T*" => C::NextLine,
        b"Tj" => C::ShowText(s(0)),
        b"TJ" => C::ShowTextArray(
            op.operands[0]
                .as_array()?
                .iter()
                .map(|e| match e {
                    Obj::Str(b) => TextElement::Text(b.clone()),
                    other => TextElement::Spacing(other.as_num().unwrap() as f32),
                })
                .collect(),
        ),
        b"'" => C::NextLineShowText(s(0)),
        b"\"" => C::SetSpacingNextLineShowText(n(0), n(1), s(2)),
        b"q" => C::SaveGraphicsState,
        b"Q" => C::RestoreGraphicsState,
        b"cm" => C::SetTransformMatrix(n(0), n(1), n(2), n(3), n(4), n(5)),
        b"w" => C::SetLineWidth(n(0)),
        b"J" => C::SetLineCap(int(0)?),
        b"j" => C::SetLineJoin(int(0)?),
        b"M" => C::SetMiterLimit(n(0)),
        b"d" => C::SetDashPattern(op.operands[0].as_array()?.iter().map(|v| v.as_num().unwrap() as f32).collect(), n(1)),
        b"ri" => C::SetIntent(name(0)?),
        b"i" => C::SetFlatness(n(0)),
        b"gs" => C::SetGraphicsStateParams(name(0)?),
        b"m" => C::MoveTo(n(0), n(1)),
        b"l" => C::LineTo(n(0), n(1)),
        b"c" => C::CurveTo(n(0), n(1), n(2), n(3), n(4), n(5)),
        b"v" => C::CurveToV(n(0), n(1), n(2), n(3)),
        b"y" => C::CurveToY(n(0), n(1), n(2), n(3)),
        b"h" => C::ClosePath,
        b"re" => C::Rectangle(n(0), n(1), n(2), n(3)),
        b"S" => C::Stroke,
        b"s" => C::CloseStroke,
        b"f" | b"F" => C::Fill,
        b"f*" => C::FillEvenOdd,
        b"B" => C::FillStroke,
        b"B*" => C::FillStrokeEvenOdd,
        b"b" => C::CloseFillStroke,
        b"b*" => C::CloseFillStrokeEvenOdd,
        b"n" => C::EndPath,
        b"W" => C::Clip,
        b"W*" => C::ClipEvenOdd,
        b"CS" => C::SetStrokingColorSpace(name(0)?),
        b"cs" => C::SetNonStrokingColorSpace(name(0)?),
        b"SC" => C::SetStrokingColor(comps()),
        b"sc" => C::SetNonStrokingColor(comps()),
        // SCN/scn with a pattern name: the library's enum has no place for the name
        b"SCN" if !matches!(op.operands.last(), Some(Obj::Name(_))) => C::SetStrokingColor(comps()),
        b"scn" if !matches!(op.operands.last(), Some(Obj::Name(_))) => C::SetNonStrokingColor(comps()),
        b"G" => C::SetStrokingGray(n(0)),
        b"g" => C::SetNonStrokingGray(n(0)),
        b"RG" => C::SetStrokingRGB(n(0), n(1), n(2)),
        b"rg" => C::SetNonStrokingRGB(n(0), n(1), n(2)),
        b"K" => C::SetStrokingCMYK(n(0), n(1), n(2), n(3)),
        b"k" => C::SetNonStrokingCMYK(n(0), n(1), n(2), n(3)),
        b"sh" => C::ShadingFill(name(0)?),
        b"Do" => C::PaintXObject(name(0)?),
        b"BMC" => C::BeginMarkedContent(name(0)?),
        b"BDC" => C::BeginMarkedContentWithProps(name(0)?, props(1)?),
        b"EMC" => C::EndMarkedContent,
        b"MP" => C::DefineMarkedContentPoint(name(0)?),
        b"DP" => C::DefineMarkedContentPointWithProps(name(0)?, props(1)?),
        b"BX" => C::BeginCompatibility,
        b"EX" => C::EndCompatibility,
        _ => return None,
    })
}

// ------------------------------------------------------------------ the three layers on one emitted stream

struct Verdict {
    /// (key suffix, detail)
    fails: Vec<(String, String)>,
    n_ops: usize,
    outcome: u64,
}

/// Names handed to the API that cannot be written verbatim after a '/' (§7.3.5: anything
/// outside '!'..'~', delimiters and '#' need the #xx form).
fn names_needing_escape(calls: &[Call]) -> Vec<&'static str> {
    let bad = |n: &str| n.is_empty() || n.bytes().any(|b| !(0x21..=0x7e).contains(&b) || refpdf::syntax::is_delim(b) || b == b'#');
    calls
        .iter()
        .filter_map(|c| match c {
            Call::BeginMC(t) | Call::BeginMCActual(t, _) => Some(*t),
            Call::DrawImage(n, _) | Call::PaintShading(n) => Some(*n),
            Call::GSetFont(F::Custom(n), _) | Call::TSetFont(F::Custom(n), _) => Some(*n),
            _ => None,
        })
        .filter(|n| bad(n))
        .collect()
}

/// Known-defect signature 1: a name that needs escaping appears verbatim after '/' in the stream.
fn raw_name_signature(calls: &[Call], content: &[u8]) -> bool {
    names_needing_escape(calls).iter().any(|n| {
        let mut pat = vec![b'/'];
        pat.extend_from_slice(n.as_bytes());
        content.windows(pat.len()).any(|w| w == pat.as_slice())
    })
}

/// Known-defect signature 2: the parsed operators are exactly the issued ones, the marked-content
/// operators (BDC/EMC) among themselves and all other operators among themselves are in call
/// order — only the interleaving of the two groups differs.
fn mc_reorder_signature(ops: &[ROp], exp: &[Exp], prefix: bool) -> bool {
    let is_mc_op = |o: &ROp| o.is("BDC") || o.is("EMC");
    let is_mc_exp = |e: &Exp| matches!(e, Exp::Op(n, _) if *n == "BDC" || *n == "EMC");
    if !exp.iter().any(is_mc_exp) || exp.iter().all(is_mc_exp) {
        return false;
    }
    let (mc_ops, other_ops): (Vec<ROp>, Vec<ROp>) = ops.iter().cloned().partition(|o| is_mc_op(o));
    let (mc_exp, other_exp): (Vec<Exp>, Vec<Exp>) = exp.iter().cloned().partition(|e| is_mc_exp(e));
    let tolerant = |r: Result<(), (String, String)>| match r {
        Ok(()) => true,
        Err((w, _)) => prefix && w == "operator-extra",
    };
    tolerant(match_model(&mc_ops, &mc_exp)) && tolerant(match_model(&other_ops, &other_exp))
}

/// Known-defect signature 3: `GraphicsContext::show_text` with a builtin font wrote the UTF-8
/// bytes of a non-ASCII string.
fn gfx_utf8_signature(calls: &[Call], ops: &[ROp]) -> bool {
    calls.iter().any(|c| match c {
        Call::GShowText(s) if !s.is_ascii() => ops.iter().any(|o| o.is("Tj") && o.operands.first().and_then(|x| x.as_str_bytes()) == Some(s.as_bytes())),
        _ => false,
    })
}

fn judge(calls: &[Call], content: &[u8], api_errs: &[Option<String>]) -> Verdict {
    let mut fails: Vec<(String, String)> = Vec::new();
    let shown = || vx::show_bytes(content, 400);
    let esc = raw_name_signature(calls, content);
    // independent parse
    let (rops, issues) = match rc::parse_content_strict(content) {
        Ok(x) => x,
        Err(e) => {
            let key = if esc { "name-written-unescaped" } else { "emitted-stream-does-not-tokenise" };
            fails.push((key.into(), format!("refpdf: {e}; stream={}", shown())));
            return Verdict { fails, n_ops: 0, outcome: vx::h64(&("tokenise", esc)) };
        }
    };
    // (b)
    let hard: Vec<&rc::Issue> = issues.iter().filter(|i| i.kind != IssueKind::Nesting).collect();
    if let Some(first) = hard.first() {
        let key = if esc {
            "name-written-unescaped".to_string()
        } else {
            format!("emitted-invalid-{:?}", first.kind)
        };
        fails.push((key, format!("{} issue(s), first: {:?} {}; stream={}", hard.len(), first.kind, first.msg, shown())));
    }
    // (a)
    let lib = vx::guard(|| ContentParser::parse(content));
    match lib {
        Err(p) => fails.push(("library-parser-panics-on-own-output".into(), format!("{p}; stream={}", shown()))),
        Ok(Err(e)) => fails.push(("library-parser-rejects-own-output".into(), format!("{e}; stream={}", shown()))),
        Ok(Ok(lops)) => {
            let conv: Vec<Option<ContentOperation>> = rops.iter().map(to_lib).collect();
            if conv.iter().all(|c| c.is_some()) {
                let want: Vec<ContentOperation> = conv.into_iter().flatten().collect();
                if want != lops {
                    let at = want.iter().zip(&lops).position(|(a, b)| a != b).unwrap_or(want.len().min(lops.len()));
                    let key = if esc { "name-written-unescaped" } else { "parsers-disagree-on-emitted-stream" };
                    fails.push((key.into(), format!("operator #{at}: refpdf {:?} / library {:?} (lengths {} / {}); stream={}", want.get(at), lops.get(at), want.len(), lops.len(), shown())));
                }
            } else if hard.is_empty() {
                let at = conv.iter().position(|c| c.is_none()).unwrap();
                fails.push(("MACHINERY-to_lib-gap".into(), format!("refpdf operator {:?} passes the strict check but has no library form", rops[at])));
            }
        }
    }
    // (c)
    let m = model(calls, api_errs);
    if m.modelled || m.exp.iter().any(|e| !matches!(e, Exp::Unmodelled)) {
        let upto: Vec<Exp> = m.exp.iter().take_while(|e| !matches!(e, Exp::Unmodelled)).cloned().collect();
        let r = if m.modelled { match_model(&rops, &m.exp) } else { match_model_prefix(&rops, &upto) };
        if let Err((what, detail)) = r {
            let key = if esc {
                "name-written-unescaped".to_string()
            } else if mc_reorder_signature(&rops, &upto, !m.modelled) {
                "marked-content-operators-reordered-against-graphics-operators".to_string()
            } else if (what == "operands-differ-Tj" || what == "tj-string") && gfx_utf8_signature(calls, &rops) {
                "gfx-show-text-writes-utf8-bytes-for-builtin-font".to_string()
            } else {
                format!("issued-vs-parsed-{what}")
            };
            if !fails.iter().any(|f| f.0 == key) {
                fails.push((key, format!("{detail}; stream={}", shown())));
            }
        }
    }
    if esc {
        // one defect, one key: everything a verbatim name breaks is reported once
        let detail = fails.iter().map(|f| f.1.clone()).next();
        fails.clear();
        if let Some(d) = detail {
            fails.push(("name-written-unescaped".into(), d));
        }
    }
    let outcome = vx::h64(&(rops.iter().map(|o| o.operator.clone()).collect::<Vec<_>>(), fails.iter().map(|f| f.0.clone()).collect::<Vec<_>>()));
    Verdict { fails, n_ops: rops.len(), outcome }
}

/// The three layers on operators the library returns as text (`structure::MarkedContent`),
/// with a fully modelled expectation. Returns (key suffix, detail).
fn judge_text_stream(content: &[u8], exp: &[Exp]) -> Vec<(String, String)> {
    let mut fails: Vec<(String, String)> = Vec::new();
    let shown = || vx::show_bytes(content, 300);
    let (rops, issues) = match rc::parse_content_strict(content) {
        Ok(x) => x,
        Err(e) => return vec![("structure-mc-stream-does-not-tokenise".into(), format!("refpdf: {e}; stream={}", shown()))],
    };
    if let Some(first) = issues.iter().find(|i| i.kind != IssueKind::Nesting) {
        fails.push((format!("structure-mc-emitted-invalid-{:?}", first.kind), format!("{}; stream={}", first.msg, shown())));
    }
    match vx::guard(|| ContentParser::parse(content)) {
        Err(p) => fails.push(("library-parser-panics-on-own-output".into(), format!("{p}; stream={}", shown()))),
        Ok(Err(e)) => fails.push(("library-parser-rejects-own-output".into(), format!("{e}; stream={}", shown()))),
        Ok(Ok(lops)) => {
            let conv: Vec<Option<ContentOperation>> = rops.iter().map(to_lib).collect();
            if conv.iter().all(|c| c.is_some()) {
                let want: Vec<ContentOperation> = conv.into_iter().flatten().collect();
                if want != lops {
                    fails.push(("structure-mc-parsers-disagree".into(), format!("refpdf {want:?} / library {lops:?}; stream={}", shown())));
                }
            }
        }
    }
    if let Err((what, detail)) = match_model(&rops, exp) {
        fails.push((format!("structure-mc-issued-vs-parsed-{what}"), format!("{detail}; stream={}", shown())));
    }
    fails
}

/// Layer (c) for a sequence that ends in an unmodelled composite: the modelled prefix must match.
fn match_model_prefix(ops: &[ROp], exp: &[Exp]) -> Result<(), (String, String)> {
    match match_model(ops, exp) {
        Err((w, _)) if w == "operator-extra" => Ok(()),
        other => other,
    }
}

fn run_case(c: &mut Ctx, calls: &[Call]) {
    c.input(vx::h64(&format!("{calls:?}")));
    match emit(calls) {
        Err(e) => {
            let key = if e.starts_with("panic") { "C21/writer-panics" } else { "C21/page-cannot-be-written-or-read-back" };
            c.outcome(vx::h64(&("emit-err", e.split(':').next().unwrap_or("").to_string())));
            c.fail(key, format!("calls={calls:?}: {e}"));
        }
        Ok((content, errs)) => {
            let v = judge(calls, &content, &errs);
            c.outcome(v.outcome);
            if v.n_ops > 0 {
                c.nontrivial();
            }
            for (k, d) in &v.fails {
                c.fail(format!("C21/{k}"), format!("calls={calls:?}: {d}"));
            }
            if c.want_sample() {
                c.sample(json!({"calls": format!("{calls:?}"), "content": vx::show_bytes(&content, 300), "ops": v.n_ops}));
            }
        }
    }
}

// ------------------------------------------------------------------ vocabulary

fn vocab(thorough: bool) -> Vec<Call> {
    let mut v = vec![
        Call::MoveTo(12.5, -0.0),
        Call::MoveTo(NAN, 1e9),
        Call::LineTo(0.005, -1e-9),
        Call::LineTo(INF, -INF),
        Call::CurveTo([12.5, 0.0, 0.005, -0.0, 1e9, -1e-9]),
        Call::CurveTo([NAN, INF, -INF, 12.5, NAN, 0.005]),
        Call::Rect([0.0, -0.0, 12.5, 1e9]),
        Call::Rect([-1e-9, NAN, INF, 0.005]),
        Call::ClosePath,
        Call::Stroke,
        Call::Fill,
        Call::FillStroke,
        Call::EndPath,
        Call::Clip,
        Call::ClipEvenOdd,
        Call::ClipStroke,
        Call::SetStrokeColor(Col::Gray(0.5)),
        Call::SetStrokeColor(Col::Rgb(NAN, 0.005, 1e9)),
        Call::SetFillColor(Col::Cmyk(0.0, -0.0, INF, -1e-9)),
        Call::SetFillColor(Col::Rgb(1.0, 0.25, 0.0)),
        Call::SetFillColor(Col::Gray(-INF)),
        Call::LineWidth(0.005),
        Call::LineWidth(NAN),
        Call::Cap(1),
        Call::Join(2),
        Call::Miter(1e9),
        Call::Miter(NAN),
        Call::Dash(vec![3.0, 0.005], 1e9),
        Call::Dash(vec![NAN, INF], -INF),
        Call::LineSolid,
        Call::Flatness(0.005),
        Call::Intent(3),
        Call::SetAlpha(0.5),
        Call::SetOpacity(0.5),
        Call::Save,
        Call::Restore,
        Call::Transform([1.0, 0.0, -0.0, 1.0, 0.005, 1e9]),
        Call::Transform([NAN, INF, -INF, -1e-9, 12.5, 0.0]),
        Call::Translate(0.005, 1e9),
        Call::Scale(-0.0, -1e-9),
        Call::Rotate(0.5),
        Call::Rotate(NAN),
        Call::DrawImage("Im1", [12.5, 0.005, 1e9, -1e-9]),
        Call::DrawImage("Im1", [NAN, INF, -INF, -0.0]),
        Call::PaintShading("Sh1"),
        Call::GBeginText,
        Call::GEndText,
        Call::GSetFont(F::Helvetica, 12.5),
        Call::GSetFont(F::Courier, 1e9),
        Call::GSetFont(F::Custom("F7"), -1e-9),
        Call::GTextPos(12.5, 0.005),
        Call::GTextPos(NAN, -INF),
        Call::GShowText("A(b)\\c".into()),
        Call::GShowText("\u{0}\r\n\t\u{8}\u{c}~".into()),
        Call::GWordSpacing(0.005),
        Call::GCharSpacing(NAN),
        Call::ShowCidArray(vec![(0x41, 0.0, 0.0), (0x42, -50.0, 0.0), (0xFFFF, f32::NAN, 0.0), (0, 0.0, 12.5)], 12.5, INF),
        Call::TSetFont(F::TimesRoman, 9.0),
        Call::TSetFont(F::Custom("F7"), 12.0),
        Call::TAt(12.5, 0.005),
        Call::TAt(NAN, 1e9),
        Call::TWrite("Hi (x) \\ \u{e9}\u{20ac}".into()),
        Call::TWrite("\u{1}\r\n\u{1d11e}".into()),
        Call::TCharSpacing(0.005),
        Call::TWordSpacing(1e9),
        Call::THScale(NAN),
        Call::THScale(0.5),
        Call::TLeading(-1e-9),
        Call::TRise(INF),
        Call::TRenderMode(1),
        Call::TFillColor(Col::Rgb(0.0, 0.005, 1.0)),
        Call::TStrokeColor(Col::Gray(NAN)),
        Call::BeginMC("P"),
        Call::BeginMCActual("Span", "fi\u{e9}\u{1d11e})"),
        Call::EndMC,
        Call::Circle(12.5, 0.005, 1e9),
        Call::DrawText("a(\u{e9})".into(), 12.5, NAN),
    ];
    if thorough {
        v.extend([
            Call::Cap(0),
            Call::Join(1),
            Call::Intent(0),
            Call::TRenderMode(7),
            Call::Flatness(1e9),
            Call::Miter(0.005),
            Call::SetOpacity(NAN),
            Call::Scale(INF, 12.5),
            Call::GWordSpacing(-INF),
            Call::TRise(0.005),
            Call::TLeading(1e9),
            Call::DrawText("\u{4e2d}".into(), 0.0, 0.0),
        ]);
    }
    v
}

// ------------------------------------------------------------------ parser half

const ALPHABET: [u8; 24] = [b' ', b'\n', 0x00, b'(', b')', b'\\', b'<', b'>', b'[', b']', b'/', b'%', b'#', b'{', b'}', b'0', b'9', b'-', b'.', b'T', b'j', b'B', b'I', 0xFF];

const HAND_STREAM: &[u8] = b"q 1 0 0 1 72.5 -3 cm /GS1 gs [3 1.5] 0 d 0.2 0.4 0.6 rg\n10 10 m 20 20 l 1 2 3 4 5 6 c h W* n % comment ( [\nBT /F1 12 Tf 1 0 0 1 10 700 Tm 14 TL (a\\(b\\)\\\\\\101\\n) Tj T* [(x) -120 <00FF41> 5.5] TJ (q)' 1 2 (r)\" ET\n/Span <</ActualText <FEFF0066> /MCID 3 /K [1 /N (s)] /D <</E 1>>>> BDC /Im1 Do EMC\nBI /W 2 /H 2 /BPC 8 /CS /G /F [/AHx] ID 00ff 80EI> \nEI 0 0 10 10 re f* Q";

struct Watch {
    slots: Vec<Mutex<Option<(std::time::Instant, Vec<u8>)>>>,
    next: AtomicU64,
}
thread_local! { static SLOT: std::cell::Cell<usize> = const { std::cell::Cell::new(usize::MAX) }; }
impl Watch {
    fn new() -> Arc<Watch> {
        let w = Arc::new(Watch { slots: (0..512).map(|_| Mutex::new(None)).collect(), next: AtomicU64::new(0) });
        let w2 = w.clone();
        std::thread::spawn(move || loop {
            std::thread::sleep(std::time::Duration::from_millis(500));
            for s in &w2.slots {
                if let Some((t, input)) = &*s.lock().unwrap() {
                    if t.elapsed().as_secs() >= 20 {
                        eprintln!("VIOLATION property=C21 key=C21/content-parser-does-not-terminate input={}", vx::hex(input));
                        std::process::exit(1);
                    }
                }
            }
        });
        w
    }
    fn run<T>(&self, input: &[u8], f: impl FnOnce() -> T) -> T {
        let slot = SLOT.with(|s| {
            if s.get() == usize::MAX {
                s.set((self.next.fetch_add(1, Ordering::Relaxed) as usize) % self.slots.len());
            }
            s.get()
        });
        *self.slots[slot].lock().unwrap() = Some((std::time::Instant::now(), input.to_vec()));
        let r = f();
        *self.slots[slot].lock().unwrap() = None;
        r
    }
}

/// returns an outcome class: 0 = Ok, 1 = Err, 2 = panic (message)
fn parse_terminates(w: &Watch, input: &[u8]) -> (u8, String) {
    match w.run(input, || vx::guard(|| ContentParser::parse(input).map(|v| v.len()))) {
        Ok(Ok(n)) => (0, n.to_string()),
        Ok(Err(e)) => (1, e.to_string()),
        Err(p) => (2, p),
    }
}

fn real_streams() -> Vec<(String, Vec<u8>)> {
    let mut v = Vec::new();
    // 1: a stream the library itself emits
    let calls = vec![
        Call::Save,
        Call::Transform([1.0, 0.0, 0.0, 1.0, 72.0, 72.0]),
        Call::SetFillColor(Col::Rgb(1.0, 0.25, 0.0)),
        Call::Rect([0.0, 0.0, 100.0, 50.0]),
        Call::FillStroke,
        Call::Dash(vec![3.0, 2.0], 1.0),
        Call::BeginMCActual("Span", "fi"),
        Call::TSetFont(F::TimesRoman, 9.0),
        Call::TAt(10.0, 700.0),
        Call::TWrite("Hi (x) \\ \u{e9}".into()),
        Call::EndMC,
        Call::ShowCidArray(vec![(0x41, 0.0, 0.0), (0x42, -50.0, 0.0)], 10.0, 600.0),
        Call::DrawImage("Im1", [10.0, 10.0, 50.0, 50.0]),
        Call::Restore,
    ];
    if let Ok((content, _)) = emit(&calls) {
        v.push(("library-emitted".to_string(), content));
    }
    // 2: first page of a third-party-produced fixture
    let p = vx::repo_root().join("oxidize-pdf-core/tests/fixtures/interop_base.pdf");
    if let Ok(bytes) = std::fs::read(&p) {
        if let Ok(f) = PdfFile::parse(&bytes) {
            if let Ok(pages) = f.pages() {
                if let Some(pg) = pages.first() {
                    if let Ok(c) = f.page_content(pg) {
                        let cut = c.len().min(900);
                        v.push(("fixture interop_base.pdf page 1".to_string(), c[..cut].to_vec()));
                    }
                }
            }
        }
    }
    // 3: hand-written, uses every token form incl. an inline image
    v.push(("hand-written".to_string(), HAND_STREAM.to_vec()));
    v
}

// ------------------------------------------------------------------ run

pub fn run(rep: &mut Report) {
    let thorough = rep.tier.is_thorough();
    rep.rule(
        "writer half: a case = one sequence of API calls on a fresh Page (every sequence of <=3 vocabulary entries; every argument-menu \
         assignment of one call; every byte in a shown string); non-trivial = the emitted stream has >=1 operator; distinct input = distinct call list. \
         parser half: a case = one byte string; all are non-trivial",
    );
    rep.assume("refpdf::file reads the page content the writer stored (uncompressed /Contents); refpdf::content is the reference tokenizer (ISO 32000-1 7.8.2, Annex A)");
    rep.assume("documented precision: {:.2} operands, {:.3} device colours, {:.4} sc components, Tf size in full; non-finite -> 0; numbers compared within half a unit of that precision");
    rep.assume("characters without a WinAnsi code in Annex D (controls, DEL, C1) are expected as the bytes the library's public TextEncoding::WinAnsiEncoding.encode gives; the encoder itself is C25's subject");
    rep.assume("miter limit < 1 and flatness outside 0..100 may be emitted as issued or clamped (Table 57 ranges)");

    let voc = vocab(thorough);
    rep.note("vocabulary_size", json!(voc.len()));

    // ---- seq: all sequences of <= 3 calls
    {
        let voc = voc.clone();
        rep.explore("seq", Explore::full(), move |c: &mut Ctx| {
            let len = 1 + c.choose("len-1", 3);
            let mut calls = Vec::with_capacity(len);
            for _ in 0..len {
                calls.push(voc[c.choose("call", voc.len())].clone());
            }
            run_case(c, &calls);
        });
    }

    // ---- seq4 (thorough): all sequences of exactly 4 calls over a core vocabulary (one entry per
    // stateful call family, so that save/restore, context switches and marked content interleave)
    if thorough {
        let core = vec![
            Call::MoveTo(NAN, 1e9),
            Call::Rect([0.0, -0.0, 12.5, 1e9]),
            Call::Stroke,
            Call::Fill,
            Call::ClipStroke,
            Call::SetStrokeColor(Col::Rgb(NAN, 0.005, 1e9)),
            Call::SetFillColor(Col::Cmyk(0.0, -0.0, INF, -1e-9)),
            Call::Dash(vec![NAN, INF], -INF),
            Call::SetOpacity(0.5),
            Call::Save,
            Call::Restore,
            Call::Transform([NAN, INF, -INF, -1e-9, 12.5, 0.0]),
            Call::DrawImage("Im1", [12.5, 0.005, 1e9, -1e-9]),
            Call::GBeginText,
            Call::GEndText,
            Call::GSetFont(F::Custom("F7"), -1e-9),
            Call::GShowText("A(b)\\c".into()),
            Call::ShowCidArray(vec![(0x41, 0.0, 0.0), (0x42, -50.0, 0.0), (0xFFFF, f32::NAN, 0.0), (0, 0.0, 12.5)], 12.5, INF),
            Call::TSetFont(F::Custom("F7"), 12.0),
            Call::TAt(NAN, 1e9),
            Call::TWrite("Hi (x) \\ \u{e9}\u{20ac}".into()),
            Call::THScale(0.5),
            Call::TFillColor(Col::Rgb(0.0, 0.005, 1.0)),
            Call::BeginMC("P"),
            Call::BeginMCActual("Span", "fi\u{e9}\u{1d11e})"),
            Call::EndMC,
        ];
        rep.note("core_vocabulary_size", json!(core.len()));
        rep.explore("seq4-core", Explore::full(), move |c: &mut Ctx| {
            let mut calls = Vec::with_capacity(4);
            for _ in 0..4 {
                calls.push(core[c.choose("call", core.len())].clone());
            }
            run_case(c, &calls);
        });
    }

    // ---- args: full argument-menu cross product for calls with <= 4 numeric arguments
    rep.explore("args-full", Explore::full(), |c: &mut Ctx| {
        let kind = c.choose("kind", 22);
        let a = |c: &mut Ctx| *c.pick_from("arg", &NUMS);
        let call = match kind {
            0 => Call::MoveTo(a(c), a(c)),
            1 => Call::LineTo(a(c), a(c)),
            2 => Call::Rect([a(c), a(c), a(c), a(c)]),
            3 => Call::LineWidth(a(c)),
            4 => Call::Miter(a(c)),
            5 => Call::Flatness(a(c)),
            6 => Call::Dash(vec![a(c), a(c)], a(c)),
            7 => Call::Translate(a(c), a(c)),
            8 => Call::Scale(a(c), a(c)),
            9 => Call::Rotate(a(c)),
            10 => Call::DrawImage("Im1", [a(c), a(c), a(c), a(c)]),
            11 => Call::GSetFont(F::Helvetica, a(c)),
            12 => Call::GTextPos(a(c), a(c)),
            13 => Call::GWordSpacing(a(c)),
            14 => Call::GCharSpacing(a(c)),
            15 => Call::SetStrokeColor(Col::Gray(a(c))),
            16 => Call::SetFillColor(Col::Rgb(a(c), a(c), a(c))),
            17 => Call::SetFillColor(Col::Cmyk(a(c), a(c), a(c), a(c))),
            18 => Call::SetStrokeColor(Col::Rgb(a(c), a(c), a(c))),
            19 => Call::TAt(a(c), a(c)),
            20 => Call::TSetFont(F::Courier, a(c)),
            _ => {
                let which = c.choose("text-param", 5);
                let v = a(c);
                match which {
                    0 => Call::TCharSpacing(v),
                    1 => Call::TWordSpacing(v),
                    2 => Call::THScale(v),
                    3 => Call::TLeading(v),
                    _ => Call::TRise(v),
                }
            }
        };
        // colours and text state only show in the stream once something is painted / written
        let calls = match &call {
            Call::SetStrokeColor(_) => vec![call, Call::Stroke],
            Call::SetFillColor(_) => vec![call, Call::Fill],
            Call::TAt(..) | Call::TSetFont(..) | Call::TCharSpacing(_) | Call::TWordSpacing(_) | Call::THScale(_) | Call::TLeading(_) | Call::TRise(_) => vec![call, Call::TWrite("x".into())],
            _ => vec![call],
        };
        run_case(c, &calls);
    });

    // ---- args-dev: six-argument calls, every assignment with <= 2 (quick) / 3 (thorough) non-default arguments
    rep.explore("args-dev", Explore::dev(if thorough { 3 } else { 2 }), |c: &mut Ctx| {
        let kind = c.choose("kind", 3);
        let mut a6 = [0.0f64; 6];
        for x in a6.iter_mut() {
            *x = *c.pick_dev("arg", &NUMS);
        }
        let calls = match kind {
            0 => vec![Call::CurveTo(a6)],
            1 => vec![Call::Transform(a6)],
            _ => vec![Call::ShowCidArray(vec![(0x41, a6[0] as f32, a6[1] as f32), (0x1234, a6[2] as f32, a6[3] as f32)], a6[4], a6[5])],
        };
        run_case(c, &calls);
    });

    // ---- tj-bytes: every byte 0x00..0xFF in a shown string, three APIs, four contexts
    rep.explore("tj-bytes", Explore::full(), |c: &mut Ctx| {
        let api = c.choose("api", 3);
        let b = c.choose("byte", 256) as u8;
        let ctx = c.choose("context", 4);
        // api 0: TextContext::write (WinAnsi + escape_show_text_literal_bytes) — the character that encodes to b
        // api 1: GraphicsContext::show_text; api 2: GraphicsContext::draw_text (code point == byte)
        let ch = if api <= 1 { char_for_byte(b) } else { Some(b as char) };
        let Some(ch) = ch else {
            // 0x81 0x8D 0x8F 0x90 0x9D: no character encodes to them in WinAnsi; reached through api 2 only
            c.outcome(vx::h64(&"no-char"));
            return;
        };
        let s: String = match ctx {
            0 => ch.to_string(),
            1 => format!("A{ch}1"),
            2 => format!("{ch}{ch}"),
            _ => format!("({ch}\\"),
        };
        let calls = match api {
            0 => vec![Call::TWrite(s)],
            1 => vec![Call::GBeginText, Call::GShowText(s), Call::GEndText],
            _ => vec![Call::DrawText(s, 12.5, 0.0)],
        };
        run_case(c, &calls);
    });

    // ---- tj-pairs: every pair of bytes over the structurally interesting set (thorough: all 65536 pairs) through write()
    let interesting: Vec<u8> = if thorough { (0u16..256).map(|b| b as u8).collect() } else { vec![0x00, 0x08, 0x09, 0x0A, 0x0C, 0x0D, b' ', b'(', b')', b'\\', b'0', b'7', b'8', b'n', b'r', b'<', b'>', b'%', 0x7F, 0x80, 0x95, 0xA0, 0xAD, 0xFF] };
    rep.explore("tj-pairs", Explore::full(), move |c: &mut Ctx| {
        let b1 = *c.pick_from("b1", &interesting);
        let b2 = *c.pick_from("b2", &interesting);
        let custom = false;
        let (Some(c1), Some(c2)) = (char_for_byte(b1), char_for_byte(b2)) else {
            c.outcome(vx::h64(&"no-char"));
            return;
        };
        let _ = custom;
        run_case(c, &[Call::TWrite(format!("{c1}{c2}"))]);
    });

    // ---- type0: strings through the Custom-font (hex) paths
    rep.explore("hex-strings", Explore::full(), |c: &mut Ctx| {
        const STRS: [&str; 8] = ["", "A", "\u{e9}", "\u{4e2d}\u{6587}", "\u{1d11e}", "a\u{1d11e}b", "\u{ffff}\u{0}", "()\\<>"];
        let s = *c.pick_from("string", &STRS);
        let api = c.choose("api", 3);
        let calls = match api {
            0 => vec![Call::TSetFont(F::Custom("F7"), 12.0), Call::TWrite(s.into())],
            1 => vec![Call::GSetFont(F::Custom("F7"), 12.0), Call::GBeginText, Call::GShowText(s.into()), Call::GEndText],
            _ => vec![Call::GSetFont(F::Custom("F7"), 12.0), Call::DrawText(s.into(), 1.0, 2.0)],
        };
        run_case(c, &calls);
    });

    // ---- names: every name-taking call x name menu
    rep.explore("names", Explore::full(), |c: &mut Ctx| {
        const NAMES: [&str; 8] = ["Im1", "A.B-c_1", "A B", "A#42", "A/B", "A(B", "\u{dc}", "A%B"];
        let n = *c.pick_from("name", &NAMES);
        let api = c.choose("api", 5);
        let calls = match api {
            0 => vec![Call::DrawImage(n, [1.0, 2.0, 3.0, 4.0])],
            1 => vec![Call::PaintShading(n)],
            2 => vec![Call::GSetFont(F::Custom(n), 12.0)],
            3 => vec![Call::TSetFont(F::Custom(n), 12.0), Call::TWrite("x".into())],
            _ => vec![Call::BeginMC(n), Call::EndMC],
        };
        run_case(c, &calls);
    });

    // ---- mc: marked content tags and ActualText values
    rep.explore("marked-content", Explore::full(), |c: &mut Ctx| {
        const TAGS: [&str; 7] = ["P", "Span", "Artifact", "A B", "A#42", "A/B", "\u{dc}"];
        const TEXTS: [Option<&str>; 7] = [None, Some(""), Some("fi"), Some("\u{e9}"), Some("\u{1d11e}"), Some("a)b("), Some(">>")];
        let tag = *c.pick_from("tag", &TAGS);
        let text = *c.pick_from("text", &TEXTS);
        let nest = c.choose("shape", 3);
        let begin = match text {
            None => Call::BeginMC(tag),
            Some(t) => Call::BeginMCActual(tag, t),
        };
        let calls = match nest {
            0 => vec![begin, Call::TWrite("x".into()), Call::EndMC],
            1 => vec![begin.clone(), begin, Call::EndMC, Call::EndMC],
            _ => vec![Call::MoveTo(1.0, 2.0), begin, Call::LineTo(3.0, 4.0), Call::Stroke, Call::EndMC],
        };
        run_case(c, &calls);
    });

    // ---- structure::MarkedContent: BMC/BDC/EMC returned as text, property strings over {A ( ) \}
    rep.explore("structure-marked-content", Explore::full(), |c: &mut Ctx| {
        use oxidize_pdf::structure::{MarkedContent, MarkedContentProperty as P};
        const ALPHA: [char; 4] = ['A', '(', ')', '\\'];
        // every string of length 0..=2 over the alphabet
        let pick_string = |c: &mut Ctx, label: &'static str| -> String {
            let len = c.choose(label, 3);
            (0..len).map(|_| ALPHA[c.choose("char", 4)]).collect()
        };
        const TAGS: [&str; 3] = ["Span", "P", "H1"];
        let tag = *c.pick_from("tag", &TAGS);
        let shape = c.choose("shape", 8);
        let mut mc = MarkedContent::new();
        let mut exp: Vec<Exp> = vec![Exp::Op("BT", vec![]), Exp::Op("Tf", vec![X::Name("F1".into()), X::Num(12.0, 9)]), Exp::Op("Td", vec![n2(72.0), n2(700.0)])];
        let sx = |s: &str| X::Str(s.as_bytes().to_vec());
        let r: Result<(), String> = (|| {
            let e = |r: oxidize_pdf::Result<&mut MarkedContent>| r.map(|_| ()).map_err(|e| e.to_string());
            match shape {
                0 => {
                    e(mc.begin(tag))?;
                    exp.push(Exp::Op("BMC", vec![X::Name(tag.into())]));
                }
                1 => {
                    e(mc.begin_with_mcid(tag, 7))?;
                    exp.push(Exp::Op("BDC", vec![X::Name(tag.into()), X::Dict(vec![("MCID".into(), X::Int(7))])]));
                }
                2..=5 => {
                    let s = pick_string(c, "len");
                    let (key, prop) = match shape {
                        2 => ("ActualText", P::ActualText(s.clone())),
                        3 => ("Alt", P::Alt(s.clone())),
                        4 => ("E", P::E(s.clone())),
                        _ => ("Lang", P::Lang(s.clone())),
                    };
                    e(mc.begin_with_typed_properties(tag, &[prop]))?;
                    exp.push(Exp::Op("BDC", vec![X::Name(tag.into()), X::Dict(vec![(key.into(), sx(&s))])]));
                }
                6 => {
                    let s1 = pick_string(c, "len");
                    let s2 = pick_string(c, "len2");
                    e(mc.begin_with_typed_properties(tag, &[P::MCID(3), P::ActualText(s1.clone()), P::Alt(s2.clone())]))?;
                    exp.push(Exp::Op("BDC", vec![X::Name(tag.into()), X::Dict(vec![("MCID".into(), X::Int(3)), ("ActualText".into(), sx(&s1)), ("Alt".into(), sx(&s2))])]));
                }
                _ => {
                    // nested: typed properties inside a plain BMC
                    let s = pick_string(c, "len");
                    e(mc.begin("Sect"))?;
                    exp.push(Exp::Op("BMC", vec![X::Name("Sect".into())]));
                    e(mc.begin_with_typed_properties(tag, &[P::E(s.clone()), P::MCID(0)]))?;
                    exp.push(Exp::Op("BDC", vec![X::Name(tag.into()), X::Dict(vec![("E".into(), sx(&s)), ("MCID".into(), X::Int(0))])]));
                    e(mc.end())?;
                    exp.push(Exp::Op("EMC", vec![]));
                }
            }
            e(mc.end())?;
            exp.push(Exp::Op("EMC", vec![]));
            Ok(())
        })();
        if let Err(e) = r {
            c.fail("C21/structure-mc-api-refuses-valid-input", format!("tag={tag} shape={shape}: {e}"));
            return;
        }
        let text = match mc.finish() {
            Ok(t) => t,
            Err(e) => {
                c.fail("C21/structure-mc-api-refuses-valid-input", format!("finish: {e}"));
                return;
            }
        };
        exp.push(Exp::Op("Tj", vec![X::Str(b"x".to_vec())]));
        exp.push(Exp::Op("ET", vec![]));
        let stream = format!("BT /F1 12 Tf 72 700 Td {text}(x) Tj ET\n").into_bytes();
        c.input(vx::hbytes(&stream));
        c.nontrivial();
        let fails = judge_text_stream(&stream, &exp);
        c.outcome(vx::h64(&fails.iter().map(|f| f.0.clone()).collect::<Vec<_>>()));
        for (k, d) in fails {
            c.fail(format!("C21/{k}"), format!("tag={tag} shape={shape}: {d}"));
        }
        if c.want_sample() {
            c.sample(json!({"stream": String::from_utf8_lossy(&stream)}));
        }
    });

    // ---- parser half
    let watch = Watch::new();
    {
        let watch = watch.clone();
        rep.explore("term-short", Explore::full(), move |c: &mut Ctx| {
            let len = c.choose("len", 4);
            let mut s = Vec::with_capacity(len);
            for _ in 0..len {
                s.push(*c.pick_from("byte", &ALPHABET));
            }
            c.input(vx::hbytes(&s));
            c.nontrivial();
            let (class, msg) = parse_terminates(&watch, &s);
            c.outcome(vx::h64(&(class, if class == 0 { msg.clone() } else { String::new() })));
            if class == 2 {
                c.fail(format!("C21/content-parser-panics@{}", vx::panic_site(&msg)), format!("input={} ({}): {msg}", vx::hex(&s), vx::show_bytes(&s, 16)));
            }
            if c.want_sample() {
                c.sample(json!({"input": vx::show_bytes(&s, 16), "class": class, "result": msg}));
            }
        });
    }
    let streams = real_streams();
    rep.note("mutated_streams", json!(streams.iter().map(|(n, s)| json!({"name": n, "len": s.len()})).collect::<Vec<_>>()));
    if streams.len() != 3 {
        rep.machinery_error(format!("expected 3 real content streams, have {}", streams.len()));
    }
    // every stream must parse un-mutated in both parsers, otherwise it is not a "real" stream
    for (n, s) in &streams {
        if rc::parse_content(s).is_err() {
            rep.machinery_error(format!("real stream {n} does not parse in refpdf"));
        }
    }
    {
        let watch = watch.clone();
        let streams = streams.clone();
        let maxlen = streams.iter().map(|s| s.1.len()).max().unwrap_or(1);
        rep.explore("term-mutate", Explore::full(), move |c: &mut Ctx| {
            let si = c.choose("stream", streams.len().max(1));
            let pos = c.choose("position", maxlen);
            let Some((_, base)) = streams.get(si) else { return };
            if pos >= base.len() {
                c.outcome(0);
                return;
            }
            c.input(vx::h64(&(si, pos)));
            c.nontrivial();
            let mut s = base.clone();
            let orig = s[pos];
            let mut classes = [0u32; 3];
            for v in 0u16..256 {
                let v = v as u8;
                if v == orig {
                    continue;
                }
                s[pos] = v;
                let (class, msg) = parse_terminates(&watch, &s);
                classes[class as usize] += 1;
                if class == 2 {
                    c.fail(format!("C21/content-parser-panics@{}", vx::panic_site(&msg)), format!("stream {si} byte {pos} := 0x{v:02x}: {msg}; around={}", vx::show_bytes(&s[pos.saturating_sub(20)..(pos + 20).min(s.len())], 60)));
                }
            }
            c.add_evaluations(254);
            c.outcome(vx::h64(&classes));
        });
    }
}
