//! C19 — damaged cross-reference data is reconstructed faithfully.
//!
//! Space (fault enumeration, nothing sampled): 10 valid single-revision files without object
//! streams (3 written by the library's own writer, 3 by the refpdf builder with LF line ends, and
//! the two larger crafted ones again with CR-only and CRLF line ends) × the damage
//! catalogue {shift every in-use offset by δ ∈ {+1,−1,+7,−7,+1000}; corrupt entry i in two styles
//! (offset digits made unparsable / offset +3 = inside the object header), each i; swap the
//! offsets of entries i and j, every pair; delete the table (keep the trailer); delete
//! `startxref`; point it at 0 / inside the first object / at end of file; delete the `trailer`
//! keyword} — all single damages (quick), all unordered pairs of damages (thorough); × the
//! presets with recovery enabled (default, lenient, skip_errors).
//! Oracle: the library's own intact open of the same file under the same preset — catalog,
//! page count (reader and document) and the value of every object must be equal.
//! Two regimes are keyed apart: damage that makes the primary cross-reference parse fail (the
//! recovery scan runs) and damage that leaves a syntactically parsable but wrong table.
use crate::util::objcmp;
use oxidize_pdf::parser::{ParseOptions, PdfDocument, PdfReader};
use refpdf::builder::{Eol, FileBuilder, Revision, XrefForm};
use refpdf::file::PdfFile;
use refpdf::syntax::Obj;
use serde_json::json;
use std::collections::BTreeMap;
use std::io::Cursor;
use vx::{Ctx, Explore, Report};

pub const BUILT: bool = true;

// ------------------------------------------------------------------ seeds

#[derive(Clone, Debug)]
struct Entry {
    num: u32,
    off: u64,
    gen: u16,
    in_use: bool,
    eol: [u8; 2],
}

#[derive(Clone, Debug)]
struct Seed {
    name: &'static str,
    bytes: Vec<u8>,
    /// offset of the `xref` keyword
    xref_off: usize,
    /// bytes between `xref` line and first subsection header: always "xref" + eol
    xref_line: Vec<u8>,
    /// (header line bytes incl. eol, entries)
    subsections: Vec<(Vec<u8>, Vec<Entry>)>,
    /// from the `trailer` keyword up to (not including) `startxref`
    trailer_kw_len: usize,
    trailer: Vec<u8>,
    /// everything from `startxref` on is re-rendered: "startxref" eol N eol "%%EOF" rest
    tail_after_number: Vec<u8>,
    /// the end-of-line bytes after `startxref` and after its number
    sx_eol: (Vec<u8>, Vec<u8>),
    /// flat indices (subsection, entry) of in-use entries
    in_use: Vec<(usize, usize)>,
}

fn find_last(h: &[u8], n: &[u8]) -> Option<usize> {
    (0..=h.len().checked_sub(n.len())?).rev().find(|&i| &h[i..i + n.len()] == n)
}

fn read_line(b: &[u8], pos: usize) -> (usize, usize) {
    // returns (end of content, start of next line)
    let mut e = pos;
    while e < b.len() && b[e] != b'\n' && b[e] != b'\r' {
        e += 1;
    }
    let mut n = e;
    if n < b.len() && b[n] == b'\r' {
        n += 1;
    }
    if n < b.len() && b[n] == b'\n' {
        n += 1;
    }
    (e, n)
}

fn parse_seed(name: &'static str, bytes: Vec<u8>) -> Result<Seed, String> {
    let sx = find_last(&bytes, b"startxref").ok_or("no startxref")?;
    let (_, num_start) = read_line(&bytes, sx);
    let (num_end, after_num) = read_line(&bytes, num_start);
    let xref_off: usize = std::str::from_utf8(&bytes[num_start..num_end]).map_err(|e| e.to_string())?.trim().parse().map_err(|e| format!("startxref value: {e}"))?;
    if !bytes[xref_off..].starts_with(b"xref") {
        return Err("startxref does not point at a classic table".into());
    }
    let (_, mut pos) = read_line(&bytes, xref_off);
    let xref_line = bytes[xref_off..pos].to_vec();
    let mut subsections = Vec::new();
    let mut in_use = Vec::new();
    loop {
        if bytes[pos..].starts_with(b"trailer") {
            break;
        }
        let (le, ln) = read_line(&bytes, pos);
        let hdr = std::str::from_utf8(&bytes[pos..le]).map_err(|e| e.to_string())?;
        let mut it = hdr.split_whitespace();
        let start: u32 = it.next().ok_or("subsection header")?.parse().map_err(|e| format!("subsection start: {e}"))?;
        let count: u32 = it.next().ok_or("subsection header")?.parse().map_err(|e| format!("subsection count: {e}"))?;
        let header = bytes[pos..ln].to_vec();
        pos = ln;
        let mut ents = Vec::new();
        for i in 0..count {
            let e = bytes.get(pos..pos + 20).ok_or("entry past EOF")?;
            let off: u64 = std::str::from_utf8(&e[..10]).map_err(|e| e.to_string())?.parse().map_err(|e| format!("entry offset: {e}"))?;
            let gen: u16 = std::str::from_utf8(&e[11..16]).map_err(|e| e.to_string())?.parse().map_err(|e| format!("entry gen: {e}"))?;
            let iu = e[17] == b'n';
            if iu {
                in_use.push((subsections.len(), ents.len()));
            }
            ents.push(Entry { num: start + i, off, gen, in_use: iu, eol: [e[18], e[19]] });
            pos += 20;
        }
        subsections.push((header, ents));
    }
    let trailer = bytes[pos..sx].to_vec();
    let sx_eol = (bytes[sx + 9..num_start].to_vec(), bytes[num_end..after_num].to_vec());
    let s = Seed { name, sx_eol, xref_off, xref_line, subsections, trailer_kw_len: 7, trailer, tail_after_number: bytes[after_num..].to_vec(), in_use, bytes };
    // the undamaged rendering must reproduce the file byte for byte
    let again = render(&s, &Dmg::default());
    if again != s.bytes {
        return Err("table model does not re-render the original bytes".into());
    }
    Ok(s)
}

fn lib_doc(pages: usize, compress: bool, meta: bool) -> Result<Vec<u8>, String> {
    use oxidize_pdf::{Document, Font, Page};
    let mut doc = Document::new();
    doc.set_compress(compress);
    if meta {
        doc.set_title("C19 seed");
        doc.set_author("verif");
    }
    for i in 0..pages {
        let mut page = Page::a4();
        page.text().set_font(Font::Helvetica, 12.0).at(72.0, 720.0).write(&format!("Seed page {}", i + 1)).map_err(|e| e.to_string())?;
        if i % 2 == 1 {
            page.graphics().rect(50.0, 50.0, 100.0 + i as f64, 80.0).fill();
        }
        doc.add_page(page);
    }
    doc.to_bytes().map_err(|e| e.to_string())
}

fn ref_doc(n_pages: usize, eol: Eol) -> Vec<u8> {
    let mut r = Revision::new(XrefForm::Table);
    for (n, o) in refpdf::builder::simple_doc_objects(n_pages, &|i| format!("BT /F1 12 Tf 72 720 Td (Page {}) Tj ET", i + 1).into_bytes()) {
        r.add(n, o);
    }
    let mut fb = FileBuilder::new(1);
    fb.eol = eol;
    fb.revisions.push(r);
    fb.build().bytes
}

fn scattered_doc(eol: Eol) -> Vec<u8> {
    // objects out of numeric order, a gap (object 6 never existed → two subsections), a free
    // entry inside a subsection (object 4), an /Info dictionary, an object with generation 2,
    // and an orphaned earlier copy of object 7 that the table does not reference
    let font = Obj::dict(vec![("Type", Obj::name("Font")), ("Subtype", Obj::name("Type1")), ("BaseFont", Obj::name("Courier"))]);
    let mut r = Revision::new(XrefForm::Table);
    r.add(7, Obj::dict(vec![("Orphan", Obj::str(b"older copy of 7, not referenced by the table"))]));
    r.add(5, Obj::stream(vec![], b"BT /F1 10 Tf 50 700 Td (scattered) Tj ET".to_vec()));
    r.add(3, Obj::dict(vec![
        ("Type", Obj::name("Page")),
        ("Parent", Obj::Ref(2, 0)),
        ("MediaBox", Obj::Array(vec![Obj::Int(0), Obj::Int(0), Obj::Int(300), Obj::Int(400)])),
        ("Resources", Obj::dict(vec![("Font", Obj::dict(vec![("F1", Obj::Ref(7, 0))]))])),
        ("Contents", Obj::Ref(5, 0)),
        ("Rotate", Obj::Ref(9, 2)),
    ]));
    r.add(1, Obj::dict(vec![("Type", Obj::name("Catalog")), ("Pages", Obj::Ref(2, 0))]));
    r.add(2, Obj::dict(vec![("Type", Obj::name("Pages")), ("Kids", Obj::Array(vec![Obj::Ref(3, 0)])), ("Count", Obj::Int(1))]));
    r.add(7, font);
    r.objects.push((9, 2, Obj::Int(90)));
    r.add(8, Obj::dict(vec![("Title", Obj::str(b"scattered")), ("Producer", Obj::str(b"refpdf builder"))]));
    r.free.push((4, 1));
    let mut fb = FileBuilder::new(1);
    fb.eol = eol;
    fb.info = Some((8, 0));
    fb.revisions.push(r);
    fb.build().bytes
}

// ------------------------------------------------------------------ damage

#[derive(Clone, Copy, Debug, PartialEq, Eq, Hash)]
enum Sx {
    Keep,
    Deleted,
    Zero,
    MidObject,
    Eof,
}

#[derive(Clone, Copy, Debug, PartialEq, Eq, Hash)]
enum D {
    Shift(i64),
    Garbage(usize),
    Plus3(usize),
    Swap(usize, usize),
    DeleteTable,
    Startxref(Sx),
    DeleteTrailerKw,
}

#[derive(Clone, Debug, Default)]
struct Dmg {
    shift: i64,
    garbage: Vec<usize>,
    plus3: Vec<usize>,
    swaps: Vec<(usize, usize)>,
    delete_table: bool,
    sx: Option<Sx>,
    delete_trailer_kw: bool,
}
impl Dmg {
    fn apply(&mut self, d: D) {
        match d {
            D::Shift(s) => self.shift += s,
            D::Garbage(i) => self.garbage.push(i),
            D::Plus3(i) => self.plus3.push(i),
            D::Swap(i, j) => self.swaps.push((i, j)),
            D::DeleteTable => self.delete_table = true,
            D::Startxref(s) => self.sx = Some(s),
            D::DeleteTrailerKw => self.delete_trailer_kw = true,
        }
    }
    /// the library's primary cross-reference parse cannot succeed → the recovery scan runs
    fn primary_must_fail(&self) -> bool {
        self.delete_table || matches!(self.sx, Some(s) if s != Sx::Keep)
    }
}

fn catalogue(s: &Seed) -> Vec<D> {
    let n = s.in_use.len();
    let mut v = vec![D::Shift(1), D::Shift(-1), D::Shift(7), D::Shift(-7), D::Shift(1000)];
    for i in 0..n {
        v.push(D::Garbage(i));
    }
    for i in 0..n {
        v.push(D::Plus3(i));
    }
    for i in 0..n {
        for j in i + 1..n {
            v.push(D::Swap(i, j));
        }
    }
    v.push(D::DeleteTable);
    for sx in [Sx::Deleted, Sx::Zero, Sx::MidObject, Sx::Eof] {
        v.push(D::Startxref(sx));
    }
    v.push(D::DeleteTrailerKw);
    v
}

/// Offset field (10 bytes) of every in-use entry after the damage, by flat in-use index.
fn damaged_fields(s: &Seed, d: &Dmg) -> Vec<Vec<u8>> {
    let mut f: Vec<Vec<u8>> = s
        .in_use
        .iter()
        .enumerate()
        .map(|(k, &(si, ei))| {
            let e = &s.subsections[si].1[ei];
            let mut off = e.off as i64;
            if d.plus3.contains(&k) {
                off += 3;
            }
            off += d.shift;
            if d.garbage.contains(&k) {
                b"00000000ab".to_vec()
            } else {
                format!("{:010}", off.max(0)).into_bytes()
            }
        })
        .collect();
    for &(i, j) in &d.swaps {
        f.swap(i, j);
    }
    f
}

fn render(s: &Seed, d: &Dmg) -> Vec<u8> {
    let mut out = s.bytes[..s.xref_off].to_vec();
    if !d.delete_table {
        out.extend_from_slice(&s.xref_line);
        let fields = damaged_fields(s, d);
        let mut k = 0;
        for (hdr, ents) in &s.subsections {
            out.extend_from_slice(hdr);
            for e in ents {
                if e.in_use {
                    out.extend_from_slice(&fields[k]);
                    k += 1;
                } else {
                    out.extend_from_slice(format!("{:010}", e.off).as_bytes());
                }
                out.extend_from_slice(format!(" {:05} {}", e.gen, if e.in_use { 'n' } else { 'f' }).as_bytes());
                out.extend_from_slice(&e.eol);
            }
        }
    }
    if d.delete_trailer_kw {
        out.extend_from_slice(&s.trailer[s.trailer_kw_len..]);
    } else {
        out.extend_from_slice(&s.trailer);
    }
    let first_obj = s.in_use.iter().map(|&(si, ei)| s.subsections[si].1[ei].off).min().unwrap_or(0);
    let target = match d.sx.unwrap_or(Sx::Keep) {
        Sx::Keep => Some(s.xref_off as u64),
        Sx::Deleted => None,
        Sx::Zero => Some(0),
        Sx::MidObject => Some(first_obj + 4),
        Sx::Eof => Some(s.bytes.len() as u64),
    };
    if let Some(t) = target {
        out.extend_from_slice(b"startxref");
        out.extend_from_slice(&s.sx_eol.0);
        out.extend_from_slice(t.to_string().as_bytes());
        out.extend_from_slice(&s.sx_eol.1);
    }
    out.extend_from_slice(&s.tail_after_number);
    out
}

// ------------------------------------------------------------------ observation

type Val = Result<Vec<u8>, String>;

#[derive(Clone, Debug, PartialEq)]
struct View {
    open: Result<(), String>,
    catalog: Option<Val>,
    reader_count: Option<Result<u32, String>>,
    doc_count: Option<Result<u32, String>>,
    objects: BTreeMap<u32, Val>,
    panic: Option<String>,
}

fn observe(bytes: &[u8], opts: &ParseOptions, objs: &[(u32, u16)]) -> View {
    let mut v = View { open: Ok(()), catalog: None, reader_count: None, doc_count: None, objects: BTreeMap::new(), panic: None };
    let r = vx::guard(|| {
        let mut reader = match PdfReader::new_with_options(Cursor::new(bytes.to_vec()), opts.clone()) {
            Ok(r) => r,
            Err(e) => {
                v.open = Err(e.to_string());
                return;
            }
        };
        v.catalog = Some(reader.catalog().map(|d| objcmp::canon_lib(&oxidize_pdf::parser::objects::PdfObject::Dictionary(d.clone()))).map_err(|e| e.to_string()));
        v.reader_count = Some(reader.page_count().map_err(|e| e.to_string()));
        for &(n, g) in objs {
            let got = reader.get_object(n, g).map(objcmp::canon_lib).map_err(|e| e.to_string());
            v.objects.insert(n, got);
        }
        let doc = PdfDocument::new(reader);
        v.doc_count = Some(doc.page_count().map_err(|e| e.to_string()));
    });
    if let Err(p) = r {
        v.panic = Some(p);
    }
    v
}

fn presets() -> [(&'static str, ParseOptions); 3] {
    [("default", ParseOptions::default()), ("lenient", ParseOptions::lenient()), ("skip_errors", ParseOptions::skip_errors())]
}

struct Prepared {
    seed: Seed,
    menu: Vec<D>,
    objs: Vec<(u32, u16)>,
    intact: Vec<View>,
    catalog_num: u32,
    /// every object the page count depends on: catalog and all page-tree nodes
    tree_nums: Vec<u32>,
}

fn short(v: &Val) -> String {
    match v {
        Ok(b) => format!("Ok({})", vx::show_bytes(b, 90)),
        Err(e) => format!("Err({})", vx::one_line(e, 120)),
    }
}

pub fn run(rep: &mut Report) {
    crate::util::tune_malloc();
    rep.level = "fault_enumeration";
    let thorough = rep.tier.is_thorough();
    rep.rule("case = (seed file, one damage or an unordered pair of damages from the catalogue) opened under each recovery-enabled preset; \
              non-trivial = the damaged bytes differ from the intact file; distinct = distinct (seed, damaged table/trailer/startxref rendering)");
    rep.assume("oracle = the library's own intact open of the same seed under the same preset (catalog, page counts, every object value); \
                every seed must first pass refpdf's strict validator and be fully readable intact");
    rep.assume("library-written seeds carry the current date, so inputs are hashed by seed name + damaged cross-reference rendering, not by file bytes");
    rep.assume("a flipped in-use flag (n→f) is not in the catalogue: a table that says 'free' is indistinguishable from a valid file");

    // ---- seeds
    let mut raw: Vec<(&'static str, Result<Vec<u8>, String>)> = vec![
        ("lib-1page", lib_doc(1, true, false)),
        ("lib-3pages-meta", lib_doc(3, true, true)),
        ("lib-2pages-uncompressed", lib_doc(2, false, true)),
        ("ref-1page", Ok(refpdf::builder::simple_doc(1, XrefForm::Table, false).bytes)),
        ("ref-3pages", Ok(refpdf::builder::simple_doc(3, XrefForm::Table, false).bytes)),
        ("ref-scattered", Ok(scattered_doc(Eol::Lf))),
        // end-of-line flavours of the crafted seeds (ISO 32000-1 7.2.3: CR, LF, CRLF)
        ("ref-3pages-CR", Ok(ref_doc(3, Eol::Cr))),
        ("ref-3pages-CRLF", Ok(ref_doc(3, Eol::CrLf))),
        ("ref-scattered-CR", Ok(scattered_doc(Eol::Cr))),
        ("ref-scattered-CRLF", Ok(scattered_doc(Eol::CrLf))),
    ];
    let mut prepared: Vec<Prepared> = Vec::new();
    for (name, bytes) in raw.drain(..) {
        let bytes = match bytes {
            Ok(b) => b,
            Err(e) => {
                rep.machinery_error(format!("seed {name}: cannot be written: {e}"));
                return;
            }
        };
        let f = match PdfFile::parse(&bytes) {
            Ok(f) => f,
            Err(e) => {
                rep.machinery_error(format!("seed {name}: reference reader: {e}"));
                return;
            }
        };
        let issues = refpdf::file::validate_file(&f);
        if !issues.is_empty() {
            rep.machinery_error(format!("seed {name}: strict validator: {issues:?}"));
            return;
        }
        if f.sections.len() != 1 || f.xref.values().any(|e| matches!(e, refpdf::file::XEntry::Compressed { .. })) {
            rep.machinery_error(format!("seed {name}: not a single-revision file without object streams"));
            return;
        }
        let seed = match parse_seed(name, bytes) {
            Ok(s) => s,
            Err(e) => {
                rep.machinery_error(format!("seed {name}: {e}"));
                return;
            }
        };
        let objs: Vec<(u32, u16)> = seed.in_use.iter().map(|&(si, ei)| (seed.subsections[si].1[ei].num, seed.subsections[si].1[ei].gen)).collect();
        let mut intact = Vec::new();
        for (pname, opts) in presets() {
            let v = observe(&seed.bytes, &opts, &objs);
            let all_ok = v.panic.is_none()
                && v.open.is_ok()
                && matches!(v.catalog, Some(Ok(_)))
                && matches!(v.reader_count, Some(Ok(_)))
                && matches!(v.doc_count, Some(Ok(_)))
                && v.objects.values().all(|o| o.is_ok());
            if !all_ok {
                rep.machinery_error(format!("seed {name}: intact open under {pname} is not clean: {v:?}"));
                return;
            }
            // the intact library view must agree with the reference reader on every object
            for &(n, _) in &objs {
                let want = objcmp::canon(&f.get(n));
                if v.objects[&n].as_ref().ok() != Some(&want) {
                    rep.machinery_error(format!("seed {name}: intact object {n} under {pname}: library {} vs reference {}", short(&v.objects[&n]), vx::show_bytes(&want, 90)));
                    return;
                }
            }
            if v.reader_count != Some(Ok(f.pages().map(|p| p.len() as u32).unwrap_or(u32::MAX))) {
                rep.machinery_error(format!("seed {name}: intact page count {:?} differs from the reference reader", v.reader_count));
                return;
            }
            intact.push(v);
        }
        let catalog_num = f.trailer.get("Root").and_then(|r| r.as_ref()).map(|r| r.0).unwrap_or(0);
        let mut tree_nums = vec![catalog_num];
        let mut todo: Vec<u32> = f.catalog().ok().and_then(|c| c.dict_get("Pages").and_then(|p| p.as_ref())).map(|r| vec![r.0]).unwrap_or_default();
        while let Some(n) = todo.pop() {
            if tree_nums.contains(&n) {
                continue;
            }
            tree_nums.push(n);
            if let Some(k) = f.dget(&f.get(n), "Kids").as_array() {
                todo.extend(k.iter().filter_map(|x| x.as_ref().map(|r| r.0)));
            }
        }
        let menu = catalogue(&seed);
        prepared.push(Prepared { seed, menu, objs, intact, catalog_num, tree_nums });
    }
    rep.note("seeds", json!(prepared.iter().map(|p| json!({"name": p.seed.name, "bytes": p.seed.bytes.len(), "in_use_objects": p.objs.len(), "damages": p.menu.len()})).collect::<Vec<_>>()));

    let section = if thorough { "pairs" } else { "singles" };
    rep.explore(section, Explore::full(), |c: &mut Ctx| {
        let si = c.choose("seed", prepared.len());
        let p = &prepared[si];
        let d1 = c.choose("damage", p.menu.len());
        let mut dm = Dmg::default();
        dm.apply(p.menu[d1]);
        let mut names = vec![format!("{:?}", p.menu[d1])];
        if thorough {
            // second damage: none, or any later entry of the catalogue (unordered pairs)
            let d2 = c.choose("second", p.menu.len() - d1);
            if d2 > 0 {
                dm.apply(p.menu[d1 + d2]);
                names.push(format!("{:?}", p.menu[d1 + d2]));
            }
        }
        let bytes = render(&p.seed, &dm);
        c.input(vx::h64(&(p.seed.name, &bytes[p.seed.xref_off.min(bytes.len())..])));
        if bytes != p.seed.bytes {
            c.nontrivial();
        }
        let recovery = dm.primary_must_fail();
        let regime = if recovery { "recovery-scan" } else { "table-still-parsable" };
        // which in-use entries now point somewhere else than the object's true offset
        let fields = damaged_fields(&p.seed, &dm);
        let wrong_entry = |n: u32| -> bool {
            if recovery {
                return false;
            }
            p.seed.in_use.iter().enumerate().any(|(k, &(s, e))| {
                let ent = &p.seed.subsections[s].1[e];
                ent.num == n && fields[k] != format!("{:010}", ent.off).into_bytes()
            })
        };
        let desc = format!("seed={} damage={} regime={regime}", p.seed.name, names.join("+"));
        let mut oh = 0u64;
        for (pi, (pname, opts)) in presets().into_iter().enumerate() {
            let want = &p.intact[pi];
            let got = observe(&bytes, &opts, &p.objs);
            let ctx = format!("{desc} preset={pname}");
            if let Some(pm) = &got.panic {
                c.fail(format!("C19/panic@{}", vx::panic_site(pm)), format!("{ctx}: {pm}"));
                continue;
            }
            if let Err(e) = &got.open {
                c.fail(format!("C19/{regime}/open-fails"), format!("{ctx}: {e}"));
                oh = vx::hmix(oh, 1);
                continue;
            }
            let mut diffs = 0u64;
            // Known signature (KF-C19-1): the damaged table still parses, so the recovery scan never
            // runs and every entry that now points elsewhere is trusted. It explains a wrong answer
            // for exactly the objects whose entry is wrong, and for catalog / page count when an
            // entry they depend on is wrong. Everything else gets its own key.
            const TRUSTED: &str = "C19/parsable-but-wrong-table-is-trusted";
            if got.catalog != want.catalog {
                diffs += 1;
                let key = if wrong_entry(p.catalog_num) { TRUSTED.to_string() } else { format!("C19/{regime}/catalog-differs") };
                c.fail(key, format!("{ctx}: catalog: want {} got {}", short(want.catalog.as_ref().unwrap()), short(got.catalog.as_ref().unwrap())));
            }
            if got.reader_count != want.reader_count || got.doc_count != want.doc_count {
                diffs += 1;
                let key = if p.tree_nums.iter().any(|n| wrong_entry(*n)) { TRUSTED.to_string() } else { format!("C19/{regime}/page-count-differs") };
                c.fail(key, format!("{ctx}: page count: reader want {:?} got {:?}; document want {:?} got {:?}", want.reader_count, got.reader_count, want.doc_count, got.doc_count));
            }
            for (n, wv) in &want.objects {
                let gv = &got.objects[n];
                if gv != wv {
                    diffs += 1;
                    let sym = if gv.is_err() { "object-lookup-fails" } else { "object-value-differs" };
                    let key = if wrong_entry(*n) { TRUSTED.to_string() } else { format!("C19/{regime}/{sym}") };
                    c.fail(key, format!("{ctx}: object {n} ({sym}): want {} got {}", short(wv), short(gv)));
                }
            }
            oh = vx::hmix(oh, diffs);
        }
        c.add_evaluations(2);
        c.outcome(oh);
        c.sample(json!({"case": desc, "damaged_len": bytes.len()}));
    });
}
