//! C17 — incremental updates are append-only and take effect.
//!
//! Space (all enumerated): base documents x every history of 1..=K edits (K = 2 quick,
//! 3 thorough; a third edit takes its value from {x, é} only) over the edit alphabet
//!   fill(field, v) | fill_many([(f_a, v), (f_b, v')]) | fill_many with a repeated name |
//!   note add(page, v) | note update(target, v) | note remove(target) | mixed note batches |
//!   page add | page replacement | page overlay            with v in {x, é, 中, ")("}.
//! Bases: a library-authored 2-page document with two text fields and one text note written
//! classic and "modern" (xref stream + object streams), and a refpdf-built document with a
//! merged field/widget, a hierarchical field, a UTF-16 field name with a separate widget, an
//! indirect /Annots array, /Info and /ID, written classic and as xref stream + object stream.
//! Oracle (reference reader refpdf + a logical model of fields, notes and pages):
//!   1. every output starts with the previous file's bytes;
//!   2. refpdf reads the output as a chain of revisions: one more section, /Prev = previous
//!      startxref, strict validator silent, the new trailer carries the previous trailer's
//!      entries (ISO 32000-1 7.5.6);
//!   3. refpdf reads every edited value as its latest value, everything else as before;
//!   4. the library's reader reads the same field values / notes / pages as refpdf;
//!   5. every object outside the edit's touched set is value-identical, touched objects
//!      change only in the keys the edit is about, new objects get fresh numbers;
//!   6. the observed logical state equals the model state, which is a function of the
//!      history's logical effect only (differential: equal effects => equal states).
use oxidize_pdf::geometry::Point;
use oxidize_pdf::writer::{IncrementalFormFiller, IncrementalTextNoteEditor, PdfWriter, TextNoteId, TextNoteMutation, WriterConfig};
use refpdf::builder::{FileBuilder, Revision, XrefForm};
use refpdf::file::{PdfFile, XEntry};
use refpdf::syntax::{is_regular, Obj, Parser};
use refpdf::textstr::{decode_text_string, encode_text_string};
use serde_json::json;
use std::collections::{BTreeMap, BTreeSet};
use std::sync::atomic::{AtomicU64, Ordering};
use vx::{Ctx, Explore, Report};

pub const BUILT: bool = true;

const VALS: [&str; 4] = ["x", "é", "中", ")("];
static FILE_SEQ: AtomicU64 = AtomicU64::new(0);
static REFUSED: AtomicU64 = AtomicU64::new(0);
static STOPPED_EARLY: AtomicU64 = AtomicU64::new(0);
static INAPPLICABLE: AtomicU64 = AtomicU64::new(0);

// ------------------------------------------------------------------ bases

struct Base {
    name: &'static str,
    bytes: Vec<u8>,
    fields: Vec<&'static str>,
    /// the library's own reading of the unedited base (filled in at setup)
    lib0: Option<LibObs>,
}

fn library_base(modern: bool) -> Result<Vec<u8>, String> {
    use oxidize_pdf::forms::{FormManager, TextField, Widget, WidgetAppearance};
    use oxidize_pdf::geometry::Rectangle;
    use oxidize_pdf::text::Font;
    use oxidize_pdf::{Document, Page};
    let r = vx::guard(|| -> Result<Vec<u8>, String> {
        let mut doc = Document::new();
        doc.set_title("C17 base");
        let mut page = Page::a4();
        page.text().set_font(Font::Helvetica, 12.0).at(50.0, 800.0).write("hello").map_err(|e| e.to_string())?;
        let mut fm = FormManager::new();
        let mut y = 700.0;
        for name in ["f1", "f2"] {
            let rect = Rectangle::new(Point::new(100.0, y), Point::new(300.0, y + 20.0));
            let widget = Widget::new(rect).with_appearance(WidgetAppearance::default());
            let fr = fm.add_text_field(TextField::new(name), widget.clone(), None).map_err(|e| e.to_string())?;
            page.add_form_widget_with_ref(widget, fr).map_err(|e| e.to_string())?;
            y -= 40.0;
        }
        page.add_annotation(oxidize_pdf::annotations::TextAnnotation::new(Point::new(400.0, 400.0)).with_contents("n0").to_annotation());
        doc.add_page(page);
        let mut p2 = Page::a4();
        p2.text().set_font(Font::Helvetica, 12.0).at(50.0, 800.0).write("second").map_err(|e| e.to_string())?;
        doc.add_page(p2);
        doc.set_form_manager(fm);
        if modern { doc.to_bytes_with_config(WriterConfig::modern()) } else { doc.to_bytes() }.map_err(|e| e.to_string())
    });
    match r {
        Ok(x) => x,
        Err(p) => Err(format!("panic: {p}")),
    }
}

fn ints(v: [i64; 4]) -> Obj {
    Obj::Array(v.iter().map(|x| Obj::Int(*x)).collect())
}

fn crafted_base(modern: bool) -> Vec<u8> {
    let font = Obj::dict(vec![("Type", Obj::name("Font")), ("Subtype", Obj::name("Type1")), ("BaseFont", Obj::name("Helvetica")), ("Encoding", Obj::name("WinAnsiEncoding"))]);
    let res = || Obj::dict(vec![("Font", Obj::dict(vec![("Helv", Obj::Ref(21, 0))]))]);
    let objs: Vec<(u32, Obj)> = vec![
        (1, Obj::dict(vec![("Type", Obj::name("Catalog")), ("Pages", Obj::Ref(2, 0)), ("AcroForm", Obj::Ref(5, 0)), ("Lang", Obj::str(b"en"))])),
        (2, Obj::dict(vec![("Type", Obj::name("Pages")), ("Kids", Obj::Array(vec![Obj::Ref(3, 0), Obj::Ref(4, 0)])), ("Count", Obj::Int(2))])),
        (3, Obj::dict(vec![("Type", Obj::name("Page")), ("Parent", Obj::Ref(2, 0)), ("MediaBox", ints([0, 0, 595, 842])), ("Resources", res()), ("Contents", Obj::Ref(20, 0)), ("Annots", Obj::Ref(6, 0))])),
        (4, Obj::dict(vec![("Type", Obj::name("Page")), ("Parent", Obj::Ref(2, 0)), ("MediaBox", ints([0, 0, 595, 842])), ("Resources", res()), ("Contents", Obj::Ref(22, 0))])),
        (5, Obj::dict(vec![("Fields", Obj::Array(vec![Obj::Ref(7, 0), Obj::Ref(8, 0), Obj::Ref(10, 0)])), ("DA", Obj::str(b"/Helv 10 Tf 0 g")), ("DR", res())])),
        (6, Obj::Array(vec![Obj::Ref(7, 0), Obj::Ref(9, 0), Obj::Ref(11, 0), Obj::Ref(12, 0)])),
        (7, Obj::dict(vec![("Type", Obj::name("Annot")), ("Subtype", Obj::name("Widget")), ("FT", Obj::name("Tx")), ("T", Obj::str(b"f1")), ("Rect", ints([100, 700, 300, 720])), ("P", Obj::Ref(3, 0)), ("F", Obj::Int(4))])),
        (8, Obj::dict(vec![("T", Obj::str(b"grp")), ("Kids", Obj::Array(vec![Obj::Ref(9, 0)]))])),
        (9, Obj::dict(vec![("Type", Obj::name("Annot")), ("Subtype", Obj::name("Widget")), ("FT", Obj::name("Tx")), ("T", Obj::str(b"child")), ("Parent", Obj::Ref(8, 0)), ("Rect", ints([100, 660, 300, 680])), ("F", Obj::Int(4))])),
        (10, Obj::dict(vec![("FT", Obj::name("Tx")), ("T", Obj::Str(encode_text_string("名é"))), ("Kids", Obj::Array(vec![Obj::Ref(11, 0)]))])),
        (11, Obj::dict(vec![("Type", Obj::name("Annot")), ("Subtype", Obj::name("Widget")), ("Parent", Obj::Ref(10, 0)), ("Rect", ints([100, 620, 300, 640])), ("F", Obj::Int(4))])),
        (12, Obj::dict(vec![("Type", Obj::name("Annot")), ("Subtype", Obj::name("Text")), ("Rect", ints([400, 400, 420, 420])), ("Contents", Obj::str(b"n0")), ("Name", Obj::name("Note")), ("M", Obj::str(b"D:20200101000000Z"))])),
        (20, Obj::stream(vec![], b"BT /Helv 12 Tf 50 800 Td (hello) Tj ET".to_vec())),
        (21, font),
        (22, Obj::stream(vec![], b"BT /Helv 12 Tf 50 800 Td (second) Tj ET".to_vec())),
        (23, Obj::dict(vec![("Title", Obj::str(b"C17 base")), ("Producer", Obj::str(b"refpdf"))])),
    ];
    let mut r = Revision::new(if modern { XrefForm::Stream } else { XrefForm::Table });
    for (n, o) in objs {
        if modern && !matches!(o, Obj::Stream(_)) {
            r.in_objstm.insert(n);
        }
        r.add(n, o);
    }
    r.trailer_extra.push(("ID".into(), Obj::Array(vec![Obj::Str(vec![0x11; 16]), Obj::Str(vec![0x22; 16])])));
    let mut fb = FileBuilder::new(1);
    fb.info = Some((23, 0));
    fb.revisions.push(r);
    fb.build().bytes
}

// ------------------------------------------------------------------ reference observation

#[derive(Clone, Debug, PartialEq)]
struct FieldObs {
    id: u32,
    v: Option<Vec<u8>>,
}
#[derive(Clone, Debug, PartialEq)]
struct NoteObs {
    id: u32,
    page: usize,
    rect: [f64; 4],
    contents: Option<Vec<u8>>,
}
#[derive(Clone, Debug, PartialEq)]
enum Container {
    Page(u32),
    Array(u32),
}
#[derive(Clone, Debug)]
struct RefObs {
    fields: BTreeMap<String, FieldObs>,
    notes: Vec<NoteObs>,
    /// per page: where its /Annots list lives, and the list itself
    annots: Vec<(Container, Vec<Obj>)>,
    page_ids: Vec<u32>,
    page_texts: Vec<Vec<String>>,
    title: Option<String>,
    catalog_id: u32,
    pages_root_id: Option<u32>,
    info_id: Option<u32>,
    acroform_id: Option<u32>,
}

fn shown_strings(content: &[u8]) -> Vec<String> {
    let mut p = Parser::new(content, 0);
    let mut out = Vec::new();
    let mut last: Option<Vec<u8>> = None;
    loop {
        p.skip_ws();
        if p.at_end() {
            break;
        }
        let save = p.pos;
        match p.parse_object() {
            Ok(Obj::Str(s)) => last = Some(s),
            Ok(_) => {}
            Err(_) => {
                p.pos = save;
                let st = p.pos;
                while let Some(ch) = p.peek() {
                    if is_regular(ch) {
                        p.pos += 1;
                    } else {
                        break;
                    }
                }
                if p.pos == st {
                    p.pos += 1;
                }
                let op = &content[st..p.pos.min(content.len())];
                if op == b"Tj" || op == b"'" || op == b"\"" {
                    if let Some(s) = last.take() {
                        out.push(String::from_utf8_lossy(&s).to_string());
                    }
                }
                last = None;
            }
        }
    }
    out
}

fn walk_fields(f: &PdfFile, node_ref: &Obj, prefix: &str, depth: usize, out: &mut BTreeMap<String, FieldObs>) -> Result<(), String> {
    if depth > 32 {
        return Err("field tree too deep".into());
    }
    let Some((id, _)) = node_ref.as_ref() else { return Ok(()) };
    let node = f.resolve(node_ref);
    let Some(d) = node.as_dict() else { return Err(format!("field {id} is not a dictionary")) };
    let t = match d.get("T") {
        Some(o) => f.resolve(o).as_str_bytes().map(decode_text_string),
        None => None,
    };
    let full = match (&t, prefix.is_empty()) {
        (Some(t), true) => t.clone(),
        (Some(t), false) => format!("{prefix}.{t}"),
        (None, _) => prefix.to_string(),
    };
    let kids: Vec<Obj> = f.resolve_opt(d.get("Kids")).as_array().map(|a| a.to_vec()).unwrap_or_default();
    let kids_are_fields = kids.iter().any(|k| f.resolve(k).dict_get("T").is_some());
    if kids.is_empty() || !kids_are_fields {
        if t.is_some() {
            let v = match d.get("V") {
                Some(o) => f.resolve(o).as_str_bytes().map(|b| b.to_vec()),
                None => None,
            };
            out.insert(full, FieldObs { id, v });
        }
    } else {
        for k in &kids {
            walk_fields(f, k, &full, depth + 1, out)?;
        }
    }
    Ok(())
}

fn observe(f: &PdfFile) -> Result<RefObs, String> {
    let root = f.trailer_get("Root").ok_or("no /Root")?;
    let catalog_id = root.as_ref().ok_or("/Root not a reference")?.0;
    let cat = f.catalog()?;
    let mut fields = BTreeMap::new();
    let acro_ref = cat.dict_get("AcroForm").cloned();
    let acroform_id = acro_ref.as_ref().and_then(|o| o.as_ref()).map(|r| r.0);
    if let Some(a) = &acro_ref {
        let acro = f.resolve(a);
        if let Some(arr) = f.dget(&acro, "Fields").as_array() {
            for r in arr {
                walk_fields(f, r, "", 0, &mut fields)?;
            }
        }
    }
    let pages = f.pages()?;
    let mut notes = Vec::new();
    let mut annots = Vec::new();
    let mut page_ids = Vec::new();
    let mut page_texts = Vec::new();
    for (pi, p) in pages.iter().enumerate() {
        let pid = p.obj.ok_or("page without object number")?;
        page_ids.push(pid);
        let (cont, list) = match p.dict.get("Annots") {
            Some(Obj::Ref(n, g)) => (Container::Array(*n), f.get_gen(*n, *g).as_array().map(|a| a.to_vec()).unwrap_or_default()),
            Some(Obj::Array(a)) => (Container::Page(pid), a.clone()),
            _ => (Container::Page(pid), Vec::new()),
        };
        for a in &list {
            if let Obj::Ref(n, _) = a {
                let d = f.resolve(a);
                if d.dict_get("Subtype").and_then(|s| s.as_name()) == Some(b"Text") {
                    let rect = d.dict_get("Rect").and_then(|r| refpdf::file::rect(&f.resolve(r))).ok_or(format!("note {n} without /Rect"))?;
                    let contents = d.dict_get("Contents").and_then(|c| f.resolve(c).as_str_bytes().map(|b| b.to_vec()));
                    notes.push(NoteObs { id: *n, page: pi, rect, contents });
                }
            }
        }
        annots.push((cont, list));
        page_texts.push(shown_strings(&f.page_content(p)?));
    }
    let info_ref = f.trailer_get("Info");
    let title = info_ref.as_ref().map(|i| f.resolve(i)).and_then(|d| d.dict_get("Title").and_then(|t| f.resolve(t).as_str_bytes().map(decode_text_string)));
    Ok(RefObs {
        fields,
        notes,
        annots,
        page_ids,
        page_texts,
        title,
        catalog_id,
        pages_root_id: cat.dict_get("Pages").and_then(|p| p.as_ref()).map(|r| r.0),
        info_id: info_ref.and_then(|i| i.as_ref()).map(|r| r.0),
        acroform_id,
    })
}

/// Widget annotations that show the field `fid` (besides a merged field/widget itself).
fn widgets_of(f: &PdfFile, obs: &RefObs, fid: u32) -> Vec<u32> {
    let fd = f.get(fid);
    if fd.dict_get("Rect").is_some() {
        return vec![];
    }
    let mut w: Vec<u32> = Vec::new();
    if let Some(k) = f.dget(&fd, "Kids").as_array() {
        for r in k {
            if let Obj::Ref(n, _) = r {
                if f.resolve(r).dict_get("Subtype").and_then(|s| s.as_name()) == Some(b"Widget") {
                    w.push(*n);
                }
            }
        }
    }
    if w.is_empty() {
        for (_, list) in &obs.annots {
            for a in list {
                if let Obj::Ref(n, _) = a {
                    if f.resolve(a).dict_get("Parent").and_then(|p| p.as_ref()).map(|r| r.0) == Some(fid) {
                        w.push(*n);
                    }
                }
            }
        }
    }
    w
}

// ------------------------------------------------------------------ library observation

#[derive(Debug, PartialEq, Clone)]
struct LibObs {
    fields: BTreeMap<String, Option<String>>,
    notes: Vec<(u32, usize, f64, f64, String)>,
    page_texts: Vec<Vec<String>>,
    title: Option<String>,
}

fn lib_observe(bytes: &[u8]) -> Result<LibObs, String> {
    use oxidize_pdf::parser::objects::{PdfDictionary, PdfObject};
    use oxidize_pdf::parser::{PdfDocument, PdfReader};
    use std::io::Cursor;
    fn walk(rd: &mut PdfReader<Cursor<&[u8]>>, r: (u32, u16), prefix: &str, depth: usize, out: &mut BTreeMap<String, Option<String>>) -> Result<(), String> {
        if depth > 32 {
            return Err("field tree too deep".into());
        }
        let node: PdfDictionary = rd.get_object(r.0, r.1).map_err(|e| format!("field {}: {e}", r.0))?.as_dict().cloned().ok_or("field not a dict")?;
        let t = node.get("T").and_then(|o| o.as_string()).map(|s| s.to_text());
        let full = match (&t, prefix.is_empty()) {
            (Some(t), true) => t.clone(),
            (Some(t), false) => format!("{prefix}.{t}"),
            (None, _) => prefix.to_string(),
        };
        let kids: Vec<(u32, u16)> = match node.get("Kids") {
            Some(PdfObject::Array(a)) => a.0.iter().filter_map(|o| o.as_reference()).collect(),
            _ => vec![],
        };
        let mut kids_are_fields = false;
        for k in &kids {
            if rd.get_object(k.0, k.1).ok().and_then(|o| o.as_dict()).map(|d| d.contains_key("T")).unwrap_or(false) {
                kids_are_fields = true;
            }
        }
        if kids.is_empty() || !kids_are_fields {
            if t.is_some() {
                out.insert(full, node.get("V").and_then(|o| o.as_string()).map(|s| s.to_text()));
            }
        } else {
            for k in kids {
                walk(rd, k, &full, depth + 1, out)?;
            }
        }
        Ok(())
    }
    let r = vx::guard(|| -> Result<LibObs, String> {
        let mut rd = PdfReader::new(Cursor::new(bytes)).map_err(|e| format!("open: {e}"))?;
        let cat = rd.catalog().map_err(|e| format!("catalog: {e}"))?.clone();
        let mut fields = BTreeMap::new();
        let acro = match cat.get("AcroForm") {
            Some(PdfObject::Reference(n, g)) => rd.get_object(*n, *g).ok().and_then(|o| o.as_dict().cloned()),
            Some(PdfObject::Dictionary(d)) => Some(d.clone()),
            _ => None,
        };
        if let Some(a) = acro {
            if let Some(PdfObject::Array(arr)) = a.get("Fields") {
                for r in arr.0.iter().filter_map(|o| o.as_reference()) {
                    walk(&mut rd, r, "", 0, &mut fields)?;
                }
            }
        }
        let title = rd.metadata().map_err(|e| format!("metadata: {e}"))?.title;
        let notes = IncrementalTextNoteEditor::new(bytes).notes().map_err(|e| format!("notes: {e}"))?;
        let notes = notes.iter().map(|n| (n.id.object_number, n.page_index as usize, n.position.x, n.position.y, n.contents.clone())).collect();
        let doc = PdfDocument::new(rd);
        let n = doc.page_count().map_err(|e| format!("page_count: {e}"))?;
        let mut page_texts = Vec::new();
        for i in 0..n {
            let p = doc.get_page(i).map_err(|e| format!("get_page {i}: {e}"))?;
            let ss = p.content_streams_with_document(&doc).map_err(|e| format!("content {i}: {e}"))?;
            let mut all = Vec::new();
            for s in ss {
                all.extend_from_slice(&s);
                all.push(b'\n');
            }
            page_texts.push(shown_strings(&all));
        }
        Ok(LibObs { fields, notes, page_texts, title })
    });
    match r {
        Ok(x) => x,
        Err(p) => Err(format!("panic: {p}")),
    }
}

fn lib_view_of(o: &RefObs) -> LibObs {
    let mut notes: Vec<(u32, usize, f64, f64, String)> = o.notes.iter().map(|n| (n.id, n.page, n.rect[0], n.rect[1], n.contents.as_deref().map(decode_text_string).unwrap_or_default())).collect();
    notes.sort_by(|a, b| (a.1, a.0).cmp(&(b.1, b.0)));
    LibObs {
        fields: o.fields.iter().map(|(k, v)| (k.clone(), v.v.as_deref().map(decode_text_string))).collect(),
        notes,
        page_texts: o.page_texts.clone(),
        title: o.title.clone(),
    }
}

// ------------------------------------------------------------------ edits

#[derive(Clone, Debug)]
enum Mutn {
    Add { page: usize, x: f64, y: f64, v: usize },
    Update { target: u32, x: f64, y: f64, v: usize },
    Remove { target: u32 },
}

#[derive(Clone, Debug)]
enum Edit {
    Fill(Vec<(usize, usize)>),
    Notes(Vec<Mutn>),
    PageAdd,
    PageReplace,
    PageOverlay,
}

fn winansi_representable(s: &str) -> bool {
    s.chars().all(|ch| (ch as u32) < 0x80 || ((ch as u32) >= 0xA0 && (ch as u32) <= 0xFF) || "€‚ƒ„…†‡ˆ‰Š‹ŒŽ‘’“”•–—˜™š›œžŸ".contains(ch))
}

fn one_page_doc(text: &str) -> Result<oxidize_pdf::Document, String> {
    let mut d = oxidize_pdf::Document::new();
    let mut p = oxidize_pdf::Page::a4();
    p.text().set_font(oxidize_pdf::text::Font::Helvetica, 12.0).at(50.0, 800.0).write(text).map_err(|e| e.to_string())?;
    d.add_page(p);
    Ok(d)
}

/// Run the edit through the library. Ok(bytes) | Err(message)
fn apply_edit(dir: &std::path::Path, tag: u64, base: &Base, prev: &[u8], e: &Edit) -> Result<Vec<u8>, String> {
    let r = vx::guard(|| -> Result<Vec<u8>, String> {
        match e {
            Edit::Fill(list) => {
                let filler = IncrementalFormFiller::new(prev);
                if list.len() == 1 {
                    filler.fill(base.fields[list[0].0], VALS[list[0].1]).map_err(|e| e.to_string())
                } else {
                    let l: Vec<(&str, &str)> = list.iter().map(|(f, v)| (base.fields[*f], VALS[*v])).collect();
                    filler.fill_many(&l).map_err(|e| e.to_string())
                }
            }
            Edit::Notes(ms) => {
                let l: Vec<TextNoteMutation> = ms
                    .iter()
                    .map(|m| match m {
                        Mutn::Add { page, x, y, v } => TextNoteMutation::Add { page_index: *page as u32, position: Point::new(*x, *y), contents: VALS[*v].to_string() },
                        Mutn::Update { target, x, y, v } => TextNoteMutation::Update { id: TextNoteId::new(*target, 0), position: Point::new(*x, *y), contents: VALS[*v].to_string() },
                        Mutn::Remove { target } => TextNoteMutation::Remove { id: TextNoteId::new(*target, 0) },
                    })
                    .collect();
                IncrementalTextNoteEditor::new(prev).apply(&l).map(|u| u.pdf_bytes).map_err(|e| e.to_string())
            }
            Edit::PageAdd | Edit::PageReplace | Edit::PageOverlay => {
                let path = dir.join(format!("in-{tag:016x}-{}.pdf", FILE_SEQ.fetch_add(1, Ordering::Relaxed)));
                std::fs::write(&path, prev).map_err(|e| format!("scratch write: {e}"))?;
                let mut out = Vec::new();
                let res = {
                    let mut w = PdfWriter::with_config(&mut out, WriterConfig::incremental());
                    match e {
                        Edit::PageAdd => one_page_doc("added").and_then(|mut d| w.write_incremental_update(&path, &mut d).map_err(|e| e.to_string())),
                        Edit::PageReplace => one_page_doc("replaced").and_then(|mut d| w.write_incremental_with_page_replacement(&path, &mut d).map_err(|e| e.to_string())),
                        _ => w
                            .write_incremental_with_overlay(&path, |p| {
                                p.text().set_font(oxidize_pdf::text::Font::Helvetica, 12.0).at(60.0, 60.0).write("overlay")?;
                                Ok(())
                            })
                            .map_err(|e| e.to_string()),
                    }
                };
                let _ = std::fs::remove_file(&path);
                res.map(|_| out)
            }
        }
    });
    match r {
        Ok(x) => x,
        Err(p) => Err(format!("panic: {p}")),
    }
}

fn dict_same_except(old: &Obj, new: &Obj, except: &[&str]) -> Result<(), String> {
    let (Some(o), Some(n)) = (old.as_dict(), new.as_dict()) else { return Err(format!("not dictionaries: {old:?} -> {new:?}")) };
    for (k, v) in o.iter() {
        let ks = String::from_utf8_lossy(k).to_string();
        if except.contains(&ks.as_str()) {
            continue;
        }
        match n.get_b(k) {
            Some(nv) if nv.same(v) => {}
            other => return Err(format!("key /{ks}: {v:?} -> {other:?}")),
        }
    }
    for (k, v) in n.iter() {
        let ks = String::from_utf8_lossy(k).to_string();
        if !except.contains(&ks.as_str()) && o.get_b(k).is_none() {
            return Err(format!("new key /{ks} {v:?}"));
        }
    }
    Ok(())
}

/// Logical state: what the document says after the history (ids and encodings abstracted).
#[derive(Clone, Debug, PartialEq, Hash)]
struct Logical {
    fields: Vec<(String, Option<String>)>,
    notes: Vec<(usize, i64, i64, String)>,
    pages: Vec<Vec<String>>,
}

fn logical_of(o: &RefObs, known_raw: &BTreeMap<String, String>) -> Logical {
    let mut notes: Vec<(usize, i64, i64, String)> = o.notes.iter().map(|n| (n.page, n.rect[0].round() as i64, n.rect[1].round() as i64, n.contents.as_deref().map(decode_text_string).unwrap_or_default())).collect();
    notes.sort();
    Logical {
        fields: o.fields.iter().map(|(k, v)| (k.clone(), known_raw.get(k).cloned().map(Some).unwrap_or_else(|| v.v.as_deref().map(decode_text_string)))).collect(),
        notes,
        pages: o.page_texts.iter().map(|p| { let mut p = p.clone(); p.sort(); p }).collect(),
    }
}

struct StepOutcome {
    stop: bool,
}

#[allow(clippy::too_many_arguments)]
fn check_step(c: &mut Ctx, what: &str, base: &Base, edit: &Edit, prev_bytes: &[u8], prev: &PdfFile, prev_obs: &RefObs, prev_lib: Option<&LibObs>, out: &[u8], model: &mut Logical, known_raw: &mut BTreeMap<String, String>) -> (StepOutcome, Option<(PdfFile, RefObs, Option<LibObs>)>) {
    let stop = |s: bool| StepOutcome { stop: s };
    let is_page_op = matches!(edit, Edit::PageAdd | Edit::PageReplace | Edit::PageOverlay);
    // 1. append-only
    if !out.starts_with(prev_bytes) {
        let at = out.iter().zip(prev_bytes).position(|(a, b)| a != b).unwrap_or(out.len().min(prev_bytes.len()));
        c.fail("C17/previous-bytes-not-preserved", format!("{what}: output ({} bytes) differs from the previous file ({} bytes) at byte {at}", out.len(), prev_bytes.len()));
        return (stop(true), None);
    }
    if out.len() == prev_bytes.len() {
        c.fail("C17/edit-appended-nothing", what.to_string());
        return (stop(true), None);
    }
    let lib_new = lib_observe(out);
    let prev_live: BTreeSet<u32> = prev.live_objects().into_iter().collect();
    // 2. revision chain in the reference reader
    let f = match PdfFile::parse(out) {
        Ok(f) => f,
        Err(e) => {
            c.fail("C17/revision-chain-unreadable-by-reference-reader", format!("{what}: {e}"));
            return (stop(true), None);
        }
    };
    let mut hard = false;
    let prev_sections = prev.sections.len();
    if f.sections.len() != prev_sections + 1 {
        c.fail("C17/revision-count-wrong", format!("{what}: {} cross-reference sections, previous file had {prev_sections}", f.sections.len()));
        hard = true;
    }
    match f.sections[0].trailer.get("Prev") {
        Some(Obj::Int(p)) if *p as usize == prev.startxref => {}
        other => {
            c.fail("C17/prev-does-not-point-at-previous-xref", format!("{what}: /Prev {other:?}, previous startxref {}", prev.startxref));
            hard = true;
        }
    }
    if f.sections[0].offset < prev_bytes.len() {
        c.fail("C17/new-xref-inside-previous-bytes", format!("{what}: startxref {} < previous length {}", f.sections[0].offset, prev_bytes.len()));
        hard = true;
    }
    let prev_size = prev.trailer.get("Size").and_then(|s| s.as_int()).unwrap_or(0);
    let new_size = f.trailer.get("Size").and_then(|s| s.as_int()).unwrap_or(0);
    for issue in refpdf::file::validate_file(&f) {
        if is_page_op && issue.starts_with("/Size is") && new_size < prev_size {
            c.fail("C17/page-writer-trailer-size-below-previous", format!("{what}: previous /Size {prev_size}, new /Size {new_size}: {issue}"));
        } else {
            c.fail("C17/revision-chain-invalid", format!("{what}: {issue}"));
        }
    }
    // trailer carries the previous trailer's entries (7.5.6)
    for (k, v) in prev.trailer.iter() {
        let ks = String::from_utf8_lossy(k).to_string();
        if ["Prev", "Size", "Type", "W", "Index", "Length", "Filter", "DecodeParms", "XRefStm"].contains(&ks.as_str()) {
            continue;
        }
        match (ks.as_str(), f.trailer.get_b(k)) {
            ("ID", Some(nv)) => {
                let a = v.as_array().and_then(|a| a.first().cloned());
                let b = nv.as_array().and_then(|a| a.first().cloned());
                if a != b || nv.as_array().map(|a| a.len()) != Some(2) {
                    c.fail("C17/incremental-trailer-changes-permanent-id", format!("{what}: {v:?} -> {nv:?}"));
                }
            }
            ("Root", Some(nv)) if is_page_op => {
                if nv.as_ref().is_none() {
                    c.fail("C17/incremental-trailer-drops-entry", format!("{what}: /Root {nv:?}"));
                }
            }
            ("Info", Some(nv)) if is_page_op && nv.as_ref().is_some() => {}
            (_, Some(nv)) if nv.same(v) => {}
            ("Info", None) => {
                let lt = lib_new.as_ref().map(|o| o.title.clone());
                c.fail("C17/incremental-trailer-omits-info", format!("{what}: previous trailer has /Info {v:?}, the new trailer {:?} has none (7.5.6: the added trailer shall contain all entries of the previous one); title was {:?}, library now reads {:?}", f.trailer, prev_obs.title, lt));
            }
            ("ID", None) if is_page_op => c.fail("C17/page-writer-trailer-omits-id", format!("{what}: previous trailer has /ID {v:?}, the new trailer {:?} has none", f.trailer)),
            (_, other) => c.fail("C17/incremental-trailer-drops-entry", format!("{what}: /{ks} {v:?} -> {other:?}")),
        }
    }
    if hard {
        return (stop(true), None);
    }
    // 3. reference observation of the new file
    let obs = match observe(&f) {
        Ok(o) => o,
        Err(e) => {
            c.fail("C17/edited-document-unreadable-by-reference-reader", format!("{what}: {e}"));
            return (stop(true), None);
        }
    };

    // expected delta and touched set
    let mut touched: BTreeSet<u32> = BTreeSet::new();
    let mut diverged = false;
    let mut page_expect: Option<(Vec<Vec<String>>, Vec<NoteObs>)> = None;
    match edit {
        Edit::Fill(list) => {
            let mut last: BTreeMap<&str, usize> = BTreeMap::new();
            for (fi, vi) in list {
                last.insert(base.fields[*fi], *vi);
            }
            if let Some(a) = prev_obs.acroform_id {
                touched.insert(a);
                match dict_same_except(&prev.get(a), &f.get(a), &["NeedAppearances"]) {
                    Ok(()) => {
                        if f.get(a).dict_get("NeedAppearances") != Some(&Obj::Bool(true)) {
                            c.fail("C17/touched-object-changed-beyond-the-edit", format!("{what}: AcroForm {a} without /NeedAppearances true"));
                        }
                    }
                    Err(d) => c.fail("C17/touched-object-changed-beyond-the-edit", format!("{what}: AcroForm {a}: {d}")),
                }
            }
            for (name, vi) in &last {
                let v = VALS[*vi];
                let Some(pf) = prev_obs.fields.get(*name) else {
                    c.fail("C17/field-missing-in-previous-revision", format!("{what}: {name}"));
                    diverged = true;
                    continue;
                };
                touched.insert(pf.id);
                if let Err(d) = dict_same_except(&prev.get(pf.id), &f.get(pf.id), &["V", "AP", "AS"]) {
                    c.fail("C17/touched-object-changed-beyond-the-edit", format!("{what}: field {name} (object {}): {d}", pf.id));
                }
                for w in widgets_of(prev, prev_obs, pf.id) {
                    touched.insert(w);
                    if let Err(d) = dict_same_except(&prev.get(w), &f.get(w), &["AP", "AS"]) {
                        c.fail("C17/touched-object-changed-beyond-the-edit", format!("{what}: widget {w} of field {name}: {d}"));
                    }
                }
                match obs.fields.get(*name) {
                    Some(nf) if nf.id == pf.id => match &nf.v {
                        Some(b) if decode_text_string(b) == v => {
                            known_raw.remove(*name);
                        }
                        Some(b) if b.as_slice() == v.as_bytes() && !v.is_ascii() => {
                            c.fail("C17/fill-writes-value-as-raw-utf8-not-a-text-string", format!("{what}: /V of {name} is <{}> = the UTF-8 bytes of {v:?}; as a PDF text string (7.9.2.2) that reads {:?}", vx::hex(b), decode_text_string(b)));
                            known_raw.insert(name.to_string(), v.to_string());
                        }
                        other => {
                            c.fail("C17/field-value-not-latest", format!("{what}: {name} should read {v:?}, reference reader finds {:?}", other.as_ref().map(|b| decode_text_string(b))));
                            diverged = true;
                        }
                    },
                    other => {
                        c.fail("C17/field-value-not-latest", format!("{what}: {name} should read {v:?}, reference reader finds field {other:?}"));
                        diverged = true;
                    }
                }
                if let Some(e) = model.fields.iter_mut().find(|(k, _)| k == name) {
                    e.1 = Some(v.to_string());
                }
            }
            // all other fields, and all notes/pages, as before
            for (name, pf) in &prev_obs.fields {
                if !last.contains_key(name.as_str()) && obs.fields.get(name) != Some(pf) {
                    c.fail("C17/unedited-field-changed", format!("{what}: {name}: {pf:?} -> {:?}", obs.fields.get(name)));
                    diverged = true;
                }
            }
            if obs.fields.len() != prev_obs.fields.len() {
                c.fail("C17/field-set-changed", format!("{what}: {:?} -> {:?}", prev_obs.fields.keys().collect::<Vec<_>>(), obs.fields.keys().collect::<Vec<_>>()));
                diverged = true;
            }
            if obs.notes != prev_obs.notes || obs.page_texts != prev_obs.page_texts {
                c.fail("C17/fill-changed-notes-or-pages", format!("{what}: notes {:?} -> {:?}; pages {:?} -> {:?}", prev_obs.notes, obs.notes, prev_obs.page_texts, obs.page_texts));
                diverged = true;
            }
        }
        Edit::Notes(ms) => {
            let mut exp_notes = prev_obs.notes.clone();
            let mut exp_annots: Vec<(Container, Vec<Obj>)> = prev_obs.annots.clone();
            let live_before: &BTreeSet<u32> = &prev_live;
            let mut new_ids: Vec<u32> = Vec::new();
            for m in ms {
                match m {
                    Mutn::Add { page, x, y, v } => {
                        // the new note is the /Text annotation of that page with a number unknown to the previous file
                        let cand: Vec<&NoteObs> = obs.notes.iter().filter(|n| n.page == *page && !prev_obs.notes.iter().any(|p| p.id == n.id) && !new_ids.contains(&n.id)).collect();
                        let found = cand.iter().find(|n| (n.rect[0] - x).abs() < 1e-6 && (n.rect[1] - y).abs() < 1e-6).copied();
                        match found {
                            Some(n) => {
                                if live_before.contains(&n.id) || (n.id as i64) < prev_size {
                                    c.fail("C17/new-object-reuses-existing-number", format!("{what}: added note got object number {} but the previous file has /Size {prev_size} (object live before: {})", n.id, live_before.contains(&n.id)));
                                }
                                let okr = (n.rect[2] - x - 20.0).abs() < 1e-6 && (n.rect[3] - y - 20.0).abs() < 1e-6;
                                let okc = n.contents.as_deref().map(decode_text_string).as_deref() == Some(VALS[*v]);
                                if !okr || !okc {
                                    c.fail("C17/note-value-not-latest", format!("{what}: added note reads {n:?}, expected contents {:?} at ({x},{y}) 20x20", VALS[*v]));
                                    diverged = true;
                                }
                                new_ids.push(n.id);
                                exp_notes.push(n.clone());
                                exp_annots[*page].1.push(Obj::Ref(n.id, 0));
                            }
                            None => {
                                c.fail("C17/note-value-not-latest", format!("{what}: no new /Text annotation at ({x},{y}) on page {page}; reference reader sees {:?}", obs.notes));
                                diverged = true;
                            }
                        }
                        model.notes.push((*page, x.round() as i64, y.round() as i64, VALS[*v].to_string()));
                    }
                    Mutn::Update { target, x, y, v } => {
                        touched.insert(*target);
                        if let Some(e) = exp_notes.iter_mut().find(|n| n.id == *target) {
                            let old = (e.page, e.rect[0].round() as i64, e.rect[1].round() as i64, e.contents.as_deref().map(decode_text_string).unwrap_or_default());
                            let (w, h) = (e.rect[2] - e.rect[0], e.rect[3] - e.rect[1]);
                            e.rect = [*x, *y, x + w, y + h];
                            // any encoding of the new contents is fine: take what the file says if it decodes to v
                            let got = obs.notes.iter().find(|n| n.id == *target).and_then(|n| n.contents.clone());
                            e.contents = match got {
                                Some(b) if decode_text_string(&b) == VALS[*v] => Some(b),
                                _ => Some(encode_text_string(VALS[*v])),
                            };
                            if let Some(mn) = model.notes.iter_mut().find(|n| **n == old) {
                                *mn = (old.0, x.round() as i64, y.round() as i64, VALS[*v].to_string());
                            }
                        }
                        if let Err(d) = dict_same_except(&prev.get(*target), &f.get(*target), &["Rect", "Contents"]) {
                            c.fail("C17/touched-object-changed-beyond-the-edit", format!("{what}: note {target}: {d}"));
                        }
                    }
                    Mutn::Remove { target } => {
                        if let Some(pos) = exp_notes.iter().position(|n| n.id == *target) {
                            let e = exp_notes.remove(pos);
                            let old = (e.page, e.rect[0].round() as i64, e.rect[1].round() as i64, e.contents.as_deref().map(decode_text_string).unwrap_or_default());
                            exp_annots[e.page].1.retain(|o| o.as_ref().map(|r| r.0) != Some(*target));
                            if let Some(mp) = model.notes.iter().position(|n| *n == old) {
                                model.notes.remove(mp);
                            }
                        }
                    }
                }
            }
            let key = |n: &NoteObs| (n.page, n.id);
            let mut a = obs.notes.clone();
            let mut b = exp_notes.clone();
            a.sort_by_key(key);
            b.sort_by_key(key);
            let same = a.len() == b.len() && a.iter().zip(&b).all(|(p, q)| p.id == q.id && p.page == q.page && p.rect.iter().zip(&q.rect).all(|(s, t)| (s - t).abs() < 1e-6) && p.contents.as_deref().map(decode_text_string) == q.contents.as_deref().map(decode_text_string));
            if !same && !diverged {
                c.fail("C17/note-value-not-latest", format!("{what}: expected notes {b:?}, reference reader sees {a:?}"));
                diverged = true;
            }
            // containers
            for (pi, (cont, list)) in exp_annots.iter().enumerate() {
                if *list != prev_obs.annots[pi].1 {
                    match cont {
                        Container::Page(p) => {
                            touched.insert(*p);
                            if let Err(d) = dict_same_except(&prev.get(*p), &f.get(*p), &["Annots"]) {
                                c.fail("C17/touched-object-changed-beyond-the-edit", format!("{what}: page object {p}: {d}"));
                            }
                        }
                        Container::Array(a) => {
                            touched.insert(*a);
                        }
                    }
                }
                if obs.annots.get(pi).map(|x| &x.1) != Some(list) {
                    if !diverged {
                        c.fail("C17/annots-array-wrong", format!("{what}: page {pi} /Annots expected {list:?}, found {:?}", obs.annots.get(pi).map(|x| &x.1)));
                    }
                    diverged = true;
                }
            }
            if obs.fields != prev_obs.fields || obs.page_texts != prev_obs.page_texts {
                c.fail("C17/note-edit-changed-fields-or-pages", format!("{what}: fields {:?} -> {:?}; pages {:?} -> {:?}", prev_obs.fields, obs.fields, prev_obs.page_texts, obs.page_texts));
                diverged = true;
            }
        }
        Edit::PageAdd | Edit::PageReplace | Edit::PageOverlay => {
            touched.insert(prev_obs.catalog_id);
            touched.extend(prev_obs.pages_root_id);
            touched.extend(prev_obs.info_id);
            let mut exp_pages = prev_obs.page_texts.clone();
            let mut exp_notes = prev_obs.notes.clone();
            match edit {
                Edit::PageAdd => exp_pages.push(vec!["added".into()]),
                Edit::PageReplace => {
                    exp_pages[0] = vec!["replaced".into()];
                    touched.insert(prev_obs.page_ids[0]);
                    exp_notes.retain(|n| n.page != 0);
                    model.notes.retain(|n| n.0 != 0);
                }
                _ => {
                    for p in exp_pages.iter_mut() {
                        p.push("overlay".into());
                    }
                    touched.extend(prev_obs.page_ids.iter().copied());
                }
            }
            model.pages = exp_pages.iter().map(|p| { let mut p = p.clone(); p.sort(); p }).collect();
            page_expect = Some((exp_pages, exp_notes));
        }
    }

    // 5. untouched objects are value-identical; fresh numbers for new objects
    let mut changed: Vec<u32> = Vec::new();
    for &n in prev_live.iter() {
        if touched.contains(&n) {
            continue;
        }
        if !prev.get(n).same(&f.get(n)) {
            changed.push(n);
        }
    }
    if !changed.is_empty() {
        let newest: Vec<u32> = f.sections[0].entries.iter().filter(|(_, e)| !matches!(e, XEntry::Free { .. })).map(|(k, _)| *k).collect();
        let from_one = newest.first() == Some(&1) && newest.windows(2).all(|w| w[1] == w[0] + 1);
        let n0 = changed[0];
        if is_page_op && from_one && changed.iter().all(|n| newest.contains(n)) {
            c.fail(
                "C17/page-writer-numbers-new-objects-from-1-overwriting-base-objects",
                format!("{what}: the appended revision defines objects {newest:?} (previous /Size {prev_size}); untouched objects {changed:?} changed, e.g. {n0}: {:?} -> {:?}", prev.get(n0), f.get(n0)),
            );
        } else {
            c.fail("C17/untouched-object-changed", format!("{what}: objects {changed:?} are outside the touched set {touched:?}; e.g. {n0}: {:?} -> {:?}", prev.get(n0), f.get(n0)));
        }
        diverged = true;
    }
    if let Some((exp_pages, exp_notes)) = page_expect {
        // the catalog may change its /Pages only
        let newcat = f.get(obs.catalog_id);
        let oldcat = prev.get(prev_obs.catalog_id);
        let mut catalog_stripped = false;
        if let Err(d) = dict_same_except(&oldcat, &newcat, &["Pages"]) {
            let only_pages = newcat.as_dict().map(|d| d.keys().all(|k| k.as_slice() == b"Type" || k.as_slice() == b"Pages")).unwrap_or(false);
            if only_pages {
                catalog_stripped = true;
                c.fail("C17/page-writer-catalog-keeps-only-pages", format!("{what}: catalog {oldcat:?} -> {newcat:?}"));
            } else {
                c.fail("C17/touched-object-changed-beyond-the-edit", format!("{what}: catalog: {d}"));
            }
            diverged = true;
        }
        // when the writer has overwritten base objects nothing further can be told apart from that
        // defect; otherwise pages, fields and notes are held to the model
        if changed.is_empty() {
            let sorted = |v: &Vec<Vec<String>>| -> Vec<Vec<String>> {
                v.iter().map(|p| { let mut p = p.clone(); p.sort(); p }).collect()
            };
            // an overlay may paint before or after the original content: compare per-page multisets
            if sorted(&obs.page_texts) != sorted(&exp_pages) {
                c.fail("C17/page-state-wrong", format!("{what}: expected page texts {exp_pages:?}, reference reader sees {:?}", obs.page_texts));
                diverged = true;
            }
            let fields_same = obs.fields.len() == prev_obs.fields.len() && obs.fields.iter().all(|(k, v)| prev_obs.fields.get(k).map(|p| p.v == v.v).unwrap_or(false));
            if !fields_same && !catalog_stripped {
                c.fail("C17/field-values-lost-after-page-edit", format!("{what}: fields {:?} -> {:?}", prev_obs.fields, obs.fields));
                diverged = true;
            }
            let ncmp = |a: &Vec<NoteObs>| {
                let mut v: Vec<(usize, i64, i64, Option<String>)> = a.iter().map(|n| (n.page, n.rect[0].round() as i64, n.rect[1].round() as i64, n.contents.as_deref().map(decode_text_string))).collect();
                v.sort();
                v
            };
            if ncmp(&obs.notes) != ncmp(&exp_notes) {
                c.fail("C17/notes-lost-after-page-edit", format!("{what}: expected {:?}, reference reader sees {:?}", ncmp(&exp_notes), ncmp(&obs.notes)));
                diverged = true;
            }
        }
    }
    for (n, e) in f.sections[0].entries.iter() {
        if matches!(e, XEntry::Free { .. }) || touched.contains(n) || changed.contains(n) {
            continue;
        }
        if (*n as i64) < prev_size && prev_live.contains(n) {
            // rewritten with an identical value: harmless, not flagged
            continue;
        }
        if (*n as i64) < prev_size && !is_page_op {
            c.fail("C17/new-object-reuses-existing-number", format!("{what}: new object {n} below the previous /Size {prev_size}"));
        }
    }

    // 4. the library reads the new file as the reference reader does
    let want = lib_view_of(&obs);
    match &lib_new {
        Ok(lo) => {
            let mut title_ok = lo.title == want.title;
            if !title_ok && want.title.is_none() {
                // already reported as trailer-omits-info when applicable
                title_ok = true;
            }
            let lo_cmp = LibObs { title: None, ..lo.clone() };
            let want_cmp = LibObs { title: None, ..want.clone() };
            let notes_close = lo_cmp.notes.len() == want_cmp.notes.len() && lo_cmp.notes.iter().zip(&want_cmp.notes).all(|(a, b)| a.0 == b.0 && a.1 == b.1 && (a.2 - b.2).abs() < 1e-6 && (a.3 - b.3).abs() < 1e-6 && a.4 == b.4);
            if lo_cmp.fields != want_cmp.fields || !notes_close || lo_cmp.page_texts != want_cmp.page_texts || !title_ok {
                // stale-view signature: the library reads the new file exactly as it read the previous one,
                // and a touched object is a member of an object stream in an earlier revision
                let before = match prev_lib {
                    Some(b) => Some(b.clone()),
                    None => lib_observe(prev_bytes).ok(),
                };
                let unchanged_view = before.as_ref().map(|b| b.fields == lo.fields && b.notes == lo.notes && b.page_texts == lo.page_texts).unwrap_or(false);
                let compressed_touched: Vec<u32> = touched.iter().copied().filter(|n| f.sections.iter().skip(1).any(|s| matches!(s.entries.get(n), Some(XEntry::Compressed { .. })))).collect();
                if unchanged_view && !compressed_touched.is_empty() && !diverged {
                    c.fail(
                        "C17/library-reader-ignores-update-of-object-stream-member",
                        format!("{what}: the update redefines objects {compressed_touched:?} that the base stores in an object stream; reference reader sees fields {:?} notes {:?}; library still sees fields {:?} notes {:?}", want.fields, want.notes, lo.fields, lo.notes),
                    );
                } else if !diverged {
                    c.fail("C17/library-reader-disagrees-with-reference-reader", format!("{what}: reference {want:?} library {lo:?}"));
                }
                diverged = true;
            }
        }
        Err(e) => {
            c.fail("C17/edited-document-unreadable-by-library", format!("{what}: {e}"));
            diverged = true;
        }
    }
    // 6. model
    if !diverged {
        let l = logical_of(&obs, known_raw);
        let mut m = model.clone();
        m.notes.sort();
        if l != m {
            c.fail("C17/logical-state-differs-from-model", format!("{what}: model {m:?} observed {l:?}"));
            diverged = true;
        }
    }
    (stop(diverged), Some((f, obs, lib_new.ok())))
}

pub fn run(rep: &mut Report) {
    let thorough = rep.tier.is_thorough();
    rep.rule(
        "one case = (base document, history of 1..=K edits); every prefix of a history is checked after each edit; non-trivial = \
         at least one edit was accepted by the library and produced a new revision; distinct input = distinct (base, history); \
         distinct outcome = distinct final logical state (field values, note multiset, page texts) x failure keys. The model \
         state is a function of the logical effect of the history, so histories with equal effects are held to equal states.",
    );
    rep.assume("reference reader refpdf (xref tables/streams, /Prev chains, object streams, text-string decoding) gives the meaning of every revision");
    rep.assume("an edit the library refuses with an error (e.g. a fill value outside WinAnsi) produces no output and is outside the property; it is counted (coverage.refused_edits) and the history goes on from the unchanged file");
    rep.assume("a history is cut after the first step whose result diverges from the model or that the library itself misreads (later edits would be judged on a misread input); counted in coverage.histories_cut_short");
    rep.assume("the library-authored xref-stream/object-stream base (WriterConfig::modern) is run in the thorough tier only, with one-edit histories over a reduced value menu: the writer numbers its object stream 1000000 and emits a 1 000 001-entry cross-reference stream that costs the library's own reader about 10 CPU-seconds per open; the refpdf-built object-stream base covers that file form at full depth in both tiers");
    rep.assume("thorough tier: histories of length 3 draw the value of the third edit from {x, é} (the first two edits use the full value menu)");
    rep.assume("touched set: fill = field object(s), their widget annotations, the AcroForm dictionary; note add/remove = the page object or its indirect /Annots array; note update = the annotation; page edits = catalog, page-tree root, /Info, the affected page objects");

    let dir = vx::verif_root().join(".scratch").join(format!("C17-{}", std::process::id()));
    let _ = std::fs::remove_dir_all(&dir);
    if let Err(e) = std::fs::create_dir_all(&dir) {
        rep.machinery_error(format!("cannot create scratch dir: {e}"));
        return;
    }
    let mut bases: Vec<Base> = Vec::new();
    for modern in [false, true] {
        if modern && !thorough {
            continue;
        }
        match library_base(modern) {
            Ok(b) => bases.push(Base { name: if modern { "library-modern" } else { "library-classic" }, bytes: b, fields: vec!["f1", "f2"], lib0: None }),
            Err(e) => rep.machinery_error(format!("cannot author library base (modern={modern}): {e}")),
        }
    }
    for modern in [false, true] {
        let b = crafted_base(modern);
        let issues = refpdf::file::validate(&b);
        if !issues.is_empty() {
            rep.machinery_error(format!("crafted base (modern={modern}) fails the strict validator: {issues:?}"));
            continue;
        }
        bases.push(Base { name: if modern { "crafted-objstm" } else { "crafted-classic" }, bytes: b, fields: vec!["f1", "grp.child", "名é"], lib0: None });
    }
    // every base must be read identically by both readers before any edit
    let mut base_notes = Vec::new();
    let mut usable: Vec<Base> = Vec::new();
    for b in bases {
        let r = PdfFile::parse(&b.bytes).and_then(|f| observe(&f));
        match (r, lib_observe(&b.bytes)) {
            (Ok(o), Ok(l)) => {
                let want = lib_view_of(&o);
                let fields_ok = b.fields.iter().all(|n| o.fields.contains_key(*n));
                if want != l || !fields_ok {
                    base_notes.push(json!({"base": b.name, "excluded": true, "reference": format!("{want:?}"), "library": format!("{l:?}")}));
                    continue;
                }
                base_notes.push(json!({"base": b.name, "bytes": b.bytes.len(), "fields": o.fields.keys().collect::<Vec<_>>(), "notes": o.notes.len(), "pages": o.page_texts}));
                let mut b = b;
                b.lib0 = Some(l.clone());
                usable.push(b);
            }
            (a, l) => base_notes.push(json!({"base": b.name, "excluded": true, "reference_error": a.err(), "library_error": l.err()})),
        }
    }
    rep.note("bases", json!(base_notes));
    if usable.is_empty() {
        rep.machinery_error("no usable base document".into());
        return;
    }
    // development aid only: C17_ONLY_BASE=<name> restricts the run to one base (recorded in the evidence)
    if let Ok(only) = std::env::var("C17_ONLY_BASE") {
        usable.retain(|b| only.split(',').any(|o| o == b.name));
        rep.note("DEV_FILTER_ONLY_BASE", json!(only));
        rep.assume("DEVELOPMENT FILTER ACTIVE: not all bases were run");
    }
    let bases = &usable;
    let dir_ref = &dir;
    let max_len = if thorough { 3 } else { 2 };

    for (bi, base) in bases.iter().enumerate() {
        let section = format!("histories-{}", base.name);
        rep.explore(&section, Explore::full(), |c: &mut Ctx| {
            let nf = base.fields.len();
            let mut bytes = base.bytes.clone();
            let mut file = match PdfFile::parse(&bytes) {
                Ok(f) => f,
                Err(e) => {
                    c.fail("C17/base-unreadable", e);
                    return;
                }
            };
            let mut obs = match observe(&file) {
                Ok(o) => o,
                Err(e) => {
                    c.fail("C17/base-unreadable", e);
                    return;
                }
            };
            let mut lib: Option<LibObs> = base.lib0.clone();
            let mut known_raw: BTreeMap<String, String> = BTreeMap::new();
            let mut model = logical_of(&obs, &known_raw);
            let mut history: Vec<String> = Vec::new();
            let mut accepted = 0;
            // the library-modern base carries a 1 000 001-entry cross-reference stream (the writer numbers its
            // object stream 1000000): every open of it costs the library's reader ~10 CPU-seconds, so it is run in
            // the thorough tier only, with single-edit histories over a reduced value menu
            let reduced = base.name == "library-modern";
            let max_len = if reduced { 1 } else { max_len };
            // value menus: full, or (reduced base) {x, é} for a single fill and {x} elsewhere
            let nv_fill = if reduced { 2 } else { VALS.len() };
            let nv = if reduced { 1 } else { VALS.len() };
            for step in 0..max_len {
                // kinds: [stop] fill fill_many fill_many_dup note_add note_update note_remove batch page_add page_replace page_overlay
                let first = step == 0;
                // the reduced base runs six representative single edits only
                const REDUCED_KINDS: [usize; 5] = [1, 4, 5, 6, 9];
                let kind = if reduced {
                    REDUCED_KINDS[c.choose("edit", REDUCED_KINDS.len())]
                } else {
                    let k = c.choose("edit", if first { 10 } else { 11 });
                    if first { k + 1 } else { k }
                };
                // from the third edit on, values come from {x, é} only (thorough tier)
                let (nv_fill, nv) = if step >= 2 { (nv_fill.min(2), nv.min(2)) } else { (nv_fill, nv) };
                if kind == 0 {
                    break;
                }
                let nnotes = obs.notes.len();
                let next_pos = |i: usize| (20.0 + 30.0 * ((nnotes + i) % 15) as f64, 40.0 + 30.0 * step as f64);
                let edit: Edit = match kind {
                    1 => Edit::Fill(vec![(c.choose("field", if reduced { 1 } else { nf }), c.choose("value", nv_fill))]),
                    2 => {
                        let a = c.choose("value_a", nv);
                        let b = c.choose("value_b", nv);
                        Edit::Fill(vec![(0, a), (1, b)])
                    }
                    3 => {
                        let a = c.choose("value_a", nv);
                        let b = c.choose("value_b", nv);
                        Edit::Fill(vec![(nf - 1, a), (nf - 1, b), (0, a)])
                    }
                    4 => {
                        let page = c.choose("page", if reduced { 1 } else { 2 });
                        let v = c.choose("value", nv);
                        let (x, y) = next_pos(0);
                        Edit::Notes(vec![Mutn::Add { page, x, y, v }])
                    }
                    5 | 6 | 7 => {
                        if nnotes == 0 {
                            INAPPLICABLE.fetch_add(1, Ordering::Relaxed);
                            history.push("(no note to target)".into());
                            break;
                        }
                        let t = obs.notes[c.choose("target", nnotes)].id;
                        match kind {
                            5 => {
                                let v = c.choose("value", nv);
                                let (x, y) = next_pos(0);
                                Edit::Notes(vec![Mutn::Update { target: t, x: x + 200.0, y: y + 300.0, v }])
                            }
                            6 => Edit::Notes(vec![Mutn::Remove { target: t }]),
                            _ => {
                                let shape = c.choose("batch", 2);
                                let v = c.choose("value", nv);
                                let (x, y) = next_pos(0);
                                let (x2, y2) = next_pos(1);
                                if shape == 0 {
                                    Edit::Notes(vec![Mutn::Add { page: 0, x, y, v }, Mutn::Update { target: t, x: x2 + 200.0, y: y2 + 300.0, v: (v + 1) % VALS.len() }, Mutn::Add { page: 1, x: x2, y: y2, v }])
                                } else {
                                    Edit::Notes(vec![Mutn::Remove { target: t }, Mutn::Add { page: 1, x, y, v }])
                                }
                            }
                        }
                    }
                    8 => Edit::PageAdd,
                    9 => Edit::PageReplace,
                    _ => Edit::PageOverlay,
                };
                let label = match &edit {
                    Edit::Fill(l) => format!("fill{:?}", l.iter().map(|(f, v)| (base.fields[*f], VALS[*v])).collect::<Vec<_>>()),
                    Edit::Notes(ms) => format!(
                        "notes{:?}",
                        ms.iter()
                            .map(|m| match m {
                                Mutn::Add { page, v, .. } => format!("add(p{page},{:?})", VALS[*v]),
                                Mutn::Update { target, v, .. } => format!("update(#{target},{:?})", VALS[*v]),
                                Mutn::Remove { target } => format!("remove(#{target})"),
                            })
                            .collect::<Vec<_>>()
                    ),
                    Edit::PageAdd => "page_add".into(),
                    Edit::PageReplace => "page_replace".into(),
                    Edit::PageOverlay => "page_overlay".into(),
                };
                history.push(label);
                let what = format!("{} after {:?}", base.name, history);
                let tag = vx::h64(&(bi, c.choices()));
                match apply_edit(dir_ref, tag, base, &bytes, &edit) {
                    Err(e) => {
                        let refusal_expected = match &edit {
                            Edit::Fill(l) => l.iter().any(|(_, v)| !winansi_representable(VALS[*v])) && e.contains("WinAnsi"),
                            _ => false,
                        };
                        if refusal_expected {
                            REFUSED.fetch_add(1, Ordering::Relaxed);
                            if let Some(l) = history.last_mut() {
                                l.push_str("=refused");
                            }
                            continue;
                        }
                        let key = if e.starts_with("panic") { "C17/edit-panicked" } else { "C17/edit-failed" };
                        c.fail(key, format!("{what}: {e}"));
                        STOPPED_EARLY.fetch_add(1, Ordering::Relaxed);
                        break;
                    }
                    Ok(out) => {
                        accepted += 1;
                        let (oc, next) = check_step(c, &what, base, &edit, &bytes, &file, &obs, lib.as_ref(), &out, &mut model, &mut known_raw);
                        if oc.stop || next.is_none() {
                            if step + 1 < max_len {
                                STOPPED_EARLY.fetch_add(1, Ordering::Relaxed);
                            }
                            break;
                        }
                        let (nf_, no_, nl_) = next.unwrap();
                        file = nf_;
                        obs = no_;
                        lib = nl_;
                        bytes = out;
                    }
                }
            }
            c.input(vx::h64(&(base.name, &history)));
            if accepted > 0 {
                c.nontrivial();
            }
            let mut m = model.clone();
            m.notes.sort();
            let failed = c.failed();
            c.outcome(vx::h64(&(m, failed)));
            c.sample(json!({"base": base.name, "history": history, "final_model": format!("{model:?}")}));
        });
    }
    rep.note("refused_edits", json!(REFUSED.load(Ordering::Relaxed)));
    rep.note("histories_cut_short", json!(STOPPED_EARLY.load(Ordering::Relaxed)));
    rep.note("inapplicable_note_edits", json!(INAPPLICABLE.load(Ordering::Relaxed)));
    let _ = std::fs::remove_dir_all(&dir);
}
