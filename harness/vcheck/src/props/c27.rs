//! C27 — page labels follow ISO 32000-1 §12.4.2.
//!
//! Space (all enumerated, nothing sampled):
//!  * `format`: style (6) × prefix (3) × start value (boundary catalogue) — and inside each
//!    cell every page offset 0..=800 — against a reference formatter.
//!  * `tree`: every set of ≤3 ranges with start pages from {0,1,2,5}, inserted in every
//!    order, each with style × start menu, and every page index 0..=40 — range lookup.
//!  * `written`: label trees written into a real document, re-read through the library's
//!    reader and through the independent reference reader (refpdf), compared with the
//!    reference for every page index.
//! Oracle: §12.4.2 — decimal; Roman (additive-subtractive, M repeated above 3999);
//! letters A..Z, AA..ZZ, AAA..ZZZ (one letter repeated); prefix prepended; a page before
//! the first range has no label.
use oxidize_pdf::page_labels::{PageLabel, PageLabelStyle, PageLabelTree};
use serde_json::json;
use vx::{Ctx, Explore, Report};

pub const BUILT: bool = true;

const STYLES: [PageLabelStyle; 6] = [
    PageLabelStyle::DecimalArabic,
    PageLabelStyle::UppercaseRoman,
    PageLabelStyle::LowercaseRoman,
    PageLabelStyle::UppercaseLetters,
    PageLabelStyle::LowercaseLetters,
    PageLabelStyle::None,
];
const STYLE_NAMES: [&str; 6] = ["D", "R", "r", "A", "a", "none"];
const PREFIXES: [Option<&str>; 3] = [None, Some("A-"), Some("(")];

pub fn ref_roman(mut n: u64, upper: bool) -> String {
    let tbl = [
        (1000, "m"), (900, "cm"), (500, "d"), (400, "cd"), (100, "c"), (90, "xc"),
        (50, "l"), (40, "xl"), (10, "x"), (9, "ix"), (5, "v"), (4, "iv"), (1, "i"),
    ];
    let mut s = String::new();
    for (v, t) in tbl {
        while n >= v {
            s.push_str(t);
            n -= v;
        }
    }
    if upper { s.to_uppercase() } else { s }
}

pub fn ref_letters(n: u64, upper: bool) -> String {
    // §12.4.2 Table 159: "A to Z for the first 26 pages, AA to ZZ for the next 26, and so on"
    let letter = ((n - 1) % 26) as u8;
    let reps = ((n - 1) / 26 + 1) as usize;
    let ch = (if upper { b'A' } else { b'a' } + letter) as char;
    std::iter::repeat(ch).take(reps).collect()
}

/// Reference label; None when the spec gives no value (number 0 in a non-decimal style).
pub fn ref_format(style: usize, prefix: Option<&str>, number: u64) -> Option<String> {
    let body = match style {
        0 => number.to_string(),
        1 | 2 => {
            if number == 0 { return None; }
            ref_roman(number, style == 1)
        }
        3 | 4 => {
            if number == 0 { return None; }
            ref_letters(number, style == 3)
        }
        _ => String::new(),
    };
    Some(format!("{}{}", prefix.unwrap_or(""), body))
}

fn mk_label(style: usize, prefix: Option<&str>, start: u32) -> PageLabel {
    let mut l = PageLabel::new(STYLES[style]);
    if let Some(p) = prefix {
        l = l.with_prefix(p);
    }
    l.starting_at(start)
}

/// What the library is known to produce for letter styles (KF-C27-1): bijective base-26.
fn spreadsheet_letters(mut n: u64, upper: bool) -> String {
    let mut s = String::new();
    while n > 0 {
        let r = ((n - 1) % 26) as u8;
        s.insert(0, (if upper { b'A' } else { b'a' } + r) as char);
        n = (n - 1) / 26;
    }
    s
}

/// Finding key for a mismatch. The two known defects are recognised by their exact
/// signature (the precise wrong output / the overflow only past u32::MAX) so that any
/// *other* wrong label in the same cells still surfaces under a different key.
fn classify(style: usize, prefix: Option<&str>, number: u64, got: &Result<String, String>) -> String {
    match got {
        Err(p) if p.contains("overflow") && number > u32::MAX as u64 => "C27/start-plus-offset-overflows-u32".to_string(),
        Err(_) => "C27/panic-in-format".to_string(),
        Ok(g) if (style == 3 || style == 4)
            && number > 26
            && *g == format!("{}{}", prefix.unwrap_or(""), spreadsheet_letters(number, style == 3)) =>
        {
            "C27/letters-beyond-Z-spreadsheet-style".to_string()
        }
        Ok(_) => format!("C27/format-mismatch-style-{}", STYLE_NAMES[style]),
    }
}

fn starts(tier_thorough: bool, style: usize) -> Vec<u32> {
    let mut v = vec![1, 0, 2, 26, 27, 52, 53, 702, 703, 3999, 4000];
    if tier_thorough {
        v.extend([5, 9, 25, 51, 676, 677, 1377, 1378, 3000, 3900]);
    }
    if style == 0 || style == 5 {
        // huge starts only where the label stays short
        v.extend([u32::MAX - 801, u32::MAX - 1, u32::MAX]);
    }
    v
}

pub fn run(rep: &mut Report) {
    let thorough = rep.tier.is_thorough();
    rep.rule("enumerated cell = (style, prefix, start value) with every offset 0..=800 inside, \
              or an ordered range set with every page index; non-trivial = the label has a numeric \
              part (style != none); distinct = distinct (cell) hash");
    rep.assume("reference formatter transcribed from ISO 32000-1 §12.4.2 Table 159; Roman numerals above 3999 repeat M");
    rep.assume("number 0 with Roman/letter styles is outside the specification and not compared");
    let max_off: u32 = if thorough { 1500 } else { 800 };

    // ---- format
    rep.explore("format", Explore::full(), |c: &mut Ctx| {
        let style = c.choose("style", 6);
        let prefix = *c.pick_from("prefix", &PREFIXES);
        let st = starts(thorough, style);
        let start = *c.pick_from("start", &st);
        c.input(vx::h64(&(style, prefix, start)));
        if style != 5 {
            c.nontrivial();
        }
        let label = mk_label(style, prefix, start);
        let mut bad = 0u32;
        let mut oh = 0u64;
        for off in 0..=max_off {
            let number = start as u64 + off as u64;
            let Some(want) = ref_format(style, prefix, number) else { continue };
            let got = vx::guard(|| label.format_label(off));
            let ok = matches!(&got, Ok(g) if *g == want);
            if !ok {
                bad += 1;
                if bad <= 3 {
                    c.fail(
                        classify(style, prefix, number, &got),
                        format!("style={} prefix={:?} start={} offset={} want={:?} got={:?}",
                                STYLE_NAMES[style], prefix, start, off, want, got),
                    );
                }
            }
            oh = vx::hmix(oh, ok as u64);
        }
        c.add_evaluations(max_off as u64);
        c.outcome(oh);
        c.sample(json!({"style": STYLE_NAMES[style], "prefix": prefix, "start": start, "offsets": format!("0..={max_off}")}));
    });

    // ---- tree lookup
    let pages = [0u32, 1, 2, 5];
    rep.explore("tree", Explore::full(), |c: &mut Ctx| {
        // ordered selection of up to 3 distinct start pages (insertion order matters to the API)
        let n = c.choose("n_ranges", 4);
        let mut chosen: Vec<(u32, usize, u32)> = Vec::new();
        let mut avail: Vec<u32> = pages.to_vec();
        for _ in 0..n {
            let i = c.choose("page", avail.len());
            let p = avail.remove(i);
            let style = c.choose("style", 6);
            let start = *c.pick_from("start", &[1u32, 3, 27]);
            chosen.push((p, style, start));
        }
        c.input(vx::h64(&chosen));
        if n > 0 {
            c.nontrivial();
        }
        let mut tree = PageLabelTree::new();
        for (p, s, st) in &chosen {
            tree.add_range(*p, mk_label(*s, Some("p"), *st));
        }
        let mut sorted = chosen.clone();
        sorted.sort_by_key(|x| x.0);
        let mut oh = 0u64;
        for idx in 0..=40u32 {
            let want = sorted
                .iter()
                .rev()
                .find(|(p, _, _)| *p <= idx)
                .map(|(p, s, st)| ref_format(*s, Some("p"), *st as u64 + (idx - p) as u64).unwrap());
            let got = vx::guard(|| tree.get_label(idx));
            let ok = matches!(&got, Ok(g) if *g == want);
            if !ok {
                let key = match (&got, &want) {
                    (Ok(Some(g)), Some(_)) => {
                        let (p, s, st) = sorted.iter().rev().find(|(p, _, _)| *p <= idx).unwrap();
                        classify(*s, Some("p"), *st as u64 + (idx - p) as u64, &Ok(g.clone()))
                    }
                    (Err(e), _) => classify(0, None, 0, &Err(e.clone())),
                    _ => "C27/range-lookup-wrong".to_string(),
                };
                c.fail(key, format!("ranges={chosen:?} page={idx} want={want:?} got={got:?}"));
            }
            oh = vx::hmix(oh, vx::h64(&got.ok()));
        }
        c.add_evaluations(40);
        c.outcome(oh);
        c.sample(json!({"ranges(page,style,start)": chosen.iter().map(|(p,s,st)| json!([p, STYLE_NAMES[*s], st])).collect::<Vec<_>>(), "pages": "0..=40"}));
    });

    written::run(rep);
}

/// Labels written into a document and read back (library reader + reference reader).
mod written {
    use super::*;
    use oxidize_pdf::{Document, Page};

    pub fn run(rep: &mut Report) {
        rep.explore("written", Explore::full(), |c: &mut Ctx| {
            let n = 1 + c.choose("n_ranges", 2);
            let mut chosen: Vec<(u32, usize, Option<&str>, u32)> = Vec::new();
            let mut avail: Vec<u32> = vec![0, 1, 2];
            for _ in 0..n {
                let i = c.choose("page", avail.len());
                let p = avail.remove(i);
                let style = c.choose("style", 6);
                let prefix = *c.pick_from("prefix", &PREFIXES);
                let start = *c.pick_from("start", &[1u32, 2, 27, 4000]);
                chosen.push((p, style, prefix, start));
            }
            c.input(vx::h64(&chosen));
            c.nontrivial();
            let mut tree = PageLabelTree::new();
            for (p, s, pre, st) in &chosen {
                tree.add_range(*p, mk_label(*s, *pre, *st));
            }
            let mut doc = Document::new();
            for _ in 0..4 {
                doc.add_page(Page::a4());
            }
            doc.set_page_labels(tree);
            let bytes = match vx::guard(|| doc.to_bytes()) {
                Ok(Ok(b)) => b,
                other => {
                    c.fail("C27/write-failed", format!("{chosen:?}: {:?}", other.map(|r| r.map(|b| b.len()))));
                    return;
                }
            };
            let mut sorted = chosen.clone();
            sorted.sort_by_key(|x| x.0);
            let want: Vec<Option<String>> = (0..4u32)
                .map(|idx| {
                    sorted.iter().rev().find(|(p, ..)| *p <= idx).map(|(p, s, pre, st)| {
                        ref_format(*s, *pre, *st as u64 + (idx - p) as u64).unwrap()
                    })
                })
                .collect();
            // independent reader: /Root /PageLabels /Nums evaluated by refpdf + reference formatter
            match refpdf::file::PdfFile::parse(&bytes) {
                Ok(f) => {
                    let got = ref_labels_from_file(&f, 4);
                    match got {
                        Ok(g) => {
                            if g != want {
                                c.fail("C27/written-labels-differ-in-reference-reader",
                                       format!("{chosen:?} want={want:?} got={g:?}"));
                            }
                            c.outcome(vx::h64(&g));
                        }
                        Err(e) => c.fail("C27/written-labels-unreadable-by-reference-reader", format!("{chosen:?}: {e}")),
                    }
                }
                Err(e) => c.fail("C27/written-file-unreadable-by-reference-reader", format!("{chosen:?}: {e}")),
            }
            c.sample(json!({"ranges": format!("{chosen:?}"), "file_len": bytes.len()}));
        });
    }

    fn ref_labels_from_file(f: &refpdf::file::PdfFile, pages: u32) -> Result<Vec<Option<String>>, String> {
        use refpdf::syntax::Obj;
        let root = f.trailer_get("Root").ok_or("no /Root")?;
        let cat = f.resolve(&root);
        let pl = cat.dict_get("PageLabels").ok_or("catalog has no /PageLabels")?;
        let pl = f.resolve(pl);
        let nums = pl.dict_get("Nums").ok_or("no /Nums")?;
        let nums = f.resolve(nums);
        let arr = nums.as_array().ok_or("/Nums not an array")?;
        let mut ranges: Vec<(u32, usize, Option<String>, u64)> = Vec::new();
        for pair in arr.chunks(2) {
            if pair.len() != 2 {
                return Err("odd /Nums".into());
            }
            let start = pair[0].as_int().ok_or("key not int")? as u32;
            let d = f.resolve(&pair[1]);
            let style = match d.dict_get("S") {
                Some(Obj::Name(n)) => match n.as_slice() {
                    b"D" => 0, b"R" => 1, b"r" => 2, b"A" => 3, b"a" => 4,
                    other => return Err(format!("bad /S {:?}", String::from_utf8_lossy(other))),
                },
                None => 5,
                _ => return Err("bad /S type".into()),
            };
            let prefix = match d.dict_get("P") {
                Some(Obj::Str(s)) => Some(refpdf::textstr::decode_text_string(s)),
                None => None,
                _ => return Err("bad /P".into()),
            };
            let st = match d.dict_get("St") {
                Some(o) => o.as_int().ok_or("bad /St")? as u64,
                None => 1,
            };
            ranges.push((start, style, prefix, st));
        }
        ranges.sort_by_key(|r| r.0);
        Ok((0..pages)
            .map(|idx| {
                ranges.iter().rev().find(|r| r.0 <= idx).map(|(p, s, pre, st)| {
                    ref_format(*s, pre.as_deref(), st + (idx - p) as u64).unwrap_or_default()
                })
            })
            .collect())
    }
}
