//! C05 — not built yet.
pub const BUILT: bool = false;
pub fn run(_rep: &mut vx::Report) {}
