//! C05 — encryption round-trips for every strength, writer configuration and password.
//!
//! One execution = one document program written twice by the library — without encryption
//! and with it — under one `WriterConfig`. Strength (4) × configuration (xref stream ×
//! object streams × compression = 8) is enumerated in FULL; on top of every such cell the
//! secondary dimensions (password pair, permission set, content variant, RNG seed) are
//! explored with a deviation bound (DEV(1) quick, DEV(2) thorough).
//!
//! Oracle per execution:
//!  * the encrypted file is recognised as encrypted; without a password (and a non-empty user
//!    password) it stays locked and hands out no objects;
//!  * after unlocking with the user password and, separately, with the owner password through
//!    `PdfReader`, the object graph reachable from /Root and /Info (every string, every
//!    decoded stream, every name/number), the extracted page text and the metadata record
//!    equal those of the plaintext build, and the permission bits equal the requested ones;
//!  * passwords that are neither (the reference decides that) are refused;
//!  * the reference reader (`refpdf::crypto::unlock`) decrypts the same file to the same
//!    object graph with both passwords (C06 reverse direction).
//! A configuration whose *plaintext* build the library cannot read back is outside this
//! property (C02/C03); such cells are counted as skipped.
use crate::util::enc::{self, Src};
use crate::util::encdoc::*;
use oxidize_pdf::document::DocumentEncryption;
use refpdf::crypto as rc;
use refpdf::syntax::Obj;
use serde_json::json;
use std::sync::atomic::{AtomicU64, Ordering};
use vx::{Ctx, Explore, Report};

pub const BUILT: bool = true;

/// Library side of the oracle.
pub fn check_library(enc_bytes: &[u8], cs: &Case) -> Findings {
    let mut out: Findings = Vec::new();
    let tag = &cs.tag;
    // recognised as encrypted, locked without password
    match enc::lib_open(enc_bytes, None) {
        Ok(l) => {
            if !l.encrypted {
                out.push(("written-file-not-recognised-as-encrypted".into(), format!("{tag}: is_encrypted() is false")));
                return out;
            }
            if !cs.user.is_empty() {
                if l.unlocked_on_open {
                    out.push(("opens-without-password".into(), format!("{tag}: unlocked right after opening although the user password is {:?}", cs.user)));
                }
                if let Some(Obj::Ref(n, g)) = &l.info {
                    if let Ok(o) = l.get(*n, *g) {
                        out.push(("locked-reader-hands-out-objects".into(), format!("{tag}: Info object readable while locked: {o:?}")));
                    }
                }
            }
        }
        Err(e) => {
            out.push(("encrypted-file-cannot-be-opened".into(), format!("{tag}: {e}")));
            return out;
        }
    }
    for (pw, role) in [(cs.user, "user"), (cs.owner, "owner")] {
        let l = match enc::lib_open(enc_bytes, Some(pw)) {
            Ok(l) => l,
            Err(e) => {
                out.push((format!("{role}-password-refused"), format!("{tag}: {role} password {pw:?}: {e}")));
                continue;
            }
        };
        if l.perms != Some(cs.perms) {
            out.push(("permissions-differ".into(), format!("{tag}: requested {:#010x}, read back {:?}", cs.perms, l.perms.map(|p| format!("{p:#010x}")))));
        }
        let (d, _st) = enc::graph_diff(cs.base_lib, &l, &[("Root", cs.base_lib.root.clone(), l.root.clone()), ("Info", cs.base_lib.info.clone(), l.info.clone())], &enc::ignore_volatile, 8);
        if !d.is_empty() {
            let kinds: std::collections::BTreeSet<&str> = d.iter().map(|x| x.kind).collect();
            out.push((format!("content-differs-after-{role}-unlock/{}", kinds.into_iter().collect::<Vec<_>>().join("+")), format!("{tag}: {}", enc::show_diffs(&d))));
        }
        match enc::lib_text_and_metadata(&l) {
            Ok((t, m)) => {
                if t != cs.base.text {
                    out.push((format!("text-differs-after-{role}-unlock"), format!("{tag}: want {:?} got {:?}", cs.base.text, t)));
                }
                if m != cs.base.meta {
                    out.push((format!("metadata-differs-after-{role}-unlock"), format!("{tag}: want {} got {}", cs.base.meta, m)));
                }
            }
            Err(e) if e.contains("Filter Crypt not yet implemented") => {
                // known signature: the writer tags encrypted streams that have no /Filter with /Filter /Crypt,
                // and the library's own stream decoder does not know that filter
                out.push(("own-reader-cannot-decode-the-Crypt-filter-entry-its-writer-adds".into(), format!("{tag} ({role} password): {e}")))
            }
            Err(e) => out.push((format!("text-or-metadata-unreadable-after-{role}-unlock"), format!("{tag}: {e}"))),
        }
    }
    // other passwords are refused (the reference decides which candidates are really "other")
    let info = refpdf::file::PdfFile::parse(enc_bytes).ok().and_then(|f| rc::read_enc_info(&f).ok());
    let candidates = [String::new(), "wrong".to_string(), format!("#{}", cs.user), format!("#{}", cs.owner), format!("{}x", cs.user), cs.user.to_uppercase(), " ".to_string()];
    for w in candidates.iter() {
        if w == cs.user || w == cs.owner {
            continue;
        }
        if let Some(i) = &info {
            if rc::authenticate(i, w.as_bytes()).which().is_some() {
                continue; // equivalent password by the algorithm itself (e.g. same first 32 bytes)
            }
        }
        match enc::lib_accepts(enc_bytes, w) {
            Ok(false) | Err(_) => {}
            Ok(true) => out.push(("wrong-password-accepted".into(), format!("{tag}: password {w:?} unlocks the file"))),
        }
    }
    out
}

pub fn run(rep: &mut Report) {
    let thorough = rep.tier.is_thorough();
    rep.rule(
        "one execution = (strength, xref-stream, object-streams, compression) in FULL with at most k non-default choices among \
         (password pair, permission set, content variant, RNG seed); non-trivial = the plaintext build of the cell is readable, so the \
         encrypted build was written and compared; distinct = distinct parameter tuple",
    );
    rep.assume("refpdf::crypto decrypts correctly (bound to qpdf/pypdf through 28 fixtures) and refpdf::file reads the library's plaintext output");
    rep.assume("the plaintext build of the same program, as the library reads it, is the definition of 'the unencrypted document'; /ModDate, /CreationDate (time of the build), the XMP date values and the writer's own /oxidize-pdf-features fingerprint (which records that encryption is on) are not compared");
    rep.assume("passwords reach the reference as the UTF-8 bytes of the Rust string (what the library hashes); the PDFDocEncoding question belongs to C23/C06");
    rep.assume("a password that the standard's own algorithm cannot tell from the real one (same first 32 bytes for R2-R4) is not a 'wrong' password");
    let skipped = AtomicU64::new(0);
    let compared = AtomicU64::new(0);
    let n_pw = if thorough { 10 } else { 8 };
    let n_seed = if thorough { 5 } else { 3 };
    rep.explore("roundtrip", Explore::dev(if thorough { 2 } else { 1 }), |c: &mut Ctx| {
        let s = c.choose("strength", 4);
        let xs = c.flag("xref_stream");
        let os = c.flag("object_streams");
        let comp = !c.flag("no_compression");
        let (m_pw, m_p, m_c, m_s) = (n_pw, N_PERMS, 3, n_seed);
        let pwk = c.choose_dev("passwords", m_pw);
        let pk = c.choose_dev("permissions", m_p);
        let ck = c.choose_dev("content", m_c);
        let seed = [1u64, 2, 3, 0xFFFF_FFFF_FFFF_FFF0, 77][c.choose_dev("seed", m_s)];
        c.input(vx::h64(&(s, xs, os, comp, pwk, pk, ck, seed)));
        let cfg = config(xs, os, comp);
        let (user, owner) = password_pair(pwk);
        let perms = permission_set(pk);
        let tag = format!("{} xref_stream={xs} object_streams={os} compress={comp} passwords={} permissions={:#010x} content={} seed={seed}", STRENGTHS[s].1, PASSWORD_NAMES[pwk], perms.bits(), CONTENT_NAMES[ck]);
        c.sample(json!({"case": tag}));
        let base = match baseline(ck, &cfg) {
            Ok(b) => b,
            Err(e) => {
                // outside C05: the configuration does not round-trip even without encryption
                skipped.fetch_add(1, Ordering::Relaxed);
                c.outcome(vx::h64(&("skipped", vx::one_line(&e, 60))));
                return;
            }
        };
        c.nontrivial();
        compared.fetch_add(1, Ordering::Relaxed);
        let de = DocumentEncryption::new(user.clone(), owner.clone(), perms, STRENGTHS[s].0);
        let ebytes = match write_document(ck, &cfg, Some((&de, seed))) {
            Ok(b) => b,
            Err(e) => {
                c.fail("C05/encrypted-build-fails", format!("{tag}: {e}"));
                return;
            }
        };
        if xs && xref_stream_trailer_lacks_encrypt(&ebytes) {
            // the known defect; everything downstream (not encrypted, ciphertext, any password) follows from it.
            // The library-side confirmation is skipped in the quick tier for the object-stream
            // configurations, where opening a file costs seconds.
            let confirmed = matches!(enc::lib_open(&ebytes, None), Ok(l) if !l.encrypted);
            if confirmed {
                c.fail("C05/xref-stream-trailer-lacks-Encrypt-and-ID", format!("{tag}: the cross-reference stream dictionary has neither /Encrypt nor /ID; the file reads back as not encrypted"));
                c.outcome(1);
                return;
            }
        }
        let base_lib = match base.open() {
            Ok(l) => l,
            Err(e) => {
                c.fail("C05/plaintext-build-no-longer-readable", format!("{tag}: {e}"));
                return;
            }
        };
        let cs = Case { tag: tag.clone(), user: &user, owner: &owner, perms: perms.bits(), base: &base, base_lib: &base_lib };
        let mut oh = 0u64;
        for (k, d) in check_library(&ebytes, &cs) {
            oh = vx::hmix(oh, vx::h64(&k));
            c.fail(format!("C05/{k}"), d);
        }
        for (k, d) in check_reference(&ebytes, &cs) {
            oh = vx::hmix(oh, vx::h64(&k));
            c.fail(format!("C05/{k}"), d);
        }
        c.outcome(oh);
    });
    rep.note("cells_compared", json!(compared.load(Ordering::Relaxed)));
    rep.note("cells_skipped_plaintext_build_unreadable", json!(skipped.load(Ordering::Relaxed)));
}
