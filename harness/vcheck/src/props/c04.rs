//! C04 — the newest revision of an object always wins (ISO 32000-1 §7.5.6).
//!
//! Space (fully enumerated, nothing sampled):
//!  * `histories`: base file ∈ {classic table, xref stream, xref stream + object stream holding the
//!    tracked objects}; 0..=K appended revisions (K = 2 quick / 3 thorough); each revision's
//!    cross-reference form ∈ {table, stream}; for the /Pages node: {untouched, redefine plain,
//!    redefine inside a new object stream}; for each of two tracked objects: while live
//!    {untouched, redefine plain, redefine inside a new object stream, free}, while free
//!    {untouched, re-add with the bumped generation}. "Inside an object stream" exists only in
//!    revisions whose cross-reference section is a stream (type-2 entries, §7.5.8) and only for
//!    generation 0 (§7.5.7). Every file is opened under the presets strict, default, lenient.
//!  * `recovery-scan`: bases without object streams × end-of-line flavour {LF, CR, CRLF} of the
//!    whole file (ISO 32000-1 7.2.3), 1..=K revisions made of plain redefinitions only, with the cross-reference data wrecked in three ways that force the recovery scan;
//!    presets with recovery enabled (default, lenient).
//! Oracle: model map object → latest value / null when freed; the reference reader
//! (refpdf::file::PdfFile + strict validator) must agree with the model on every file before the
//! library is judged (guards the builder).
use crate::util::objcmp;
use oxidize_pdf::parser::objects::PdfObject;
use oxidize_pdf::parser::{ParseOptions, PdfReader};
use refpdf::builder::{Eol, FileBuilder, Revision, XrefForm};
use refpdf::file::{PdfFile, XEntry};
use refpdf::syntax::Obj;
use serde_json::json;
use std::io::Cursor;
use vx::{Ctx, Explore, Report};

pub const BUILT: bool = true;

const P: u32 = 2; // the /Pages node
const A: u32 = 4;
const B: u32 = 5;
const TRACKED: [u32; 3] = [P, A, B];

#[derive(Clone, Copy, PartialEq, Eq, Debug, Hash)]
enum Kind {
    Plain,
    InStm,
    Free,
    ReAdd,
}

#[derive(Clone, Debug)]
struct Ev {
    rev: usize,
    kind: Kind,
    gen: u16,
    /// None for a free entry
    val: Option<Obj>,
}

#[derive(Clone, Debug)]
struct Track {
    num: u32,
    events: Vec<Ev>,
}
impl Track {
    fn last(&self) -> &Ev {
        self.events.last().unwrap()
    }
    fn live(&self) -> bool {
        self.last().val.is_some()
    }
    fn expected(&self) -> Obj {
        self.last().val.clone().unwrap_or(Obj::Null)
    }
}

fn value(num: u32, rev: usize) -> Obj {
    if num == P {
        Obj::dict(vec![
            ("Type", Obj::name("Pages")),
            ("Kids", Obj::Array(vec![Obj::Ref(3, 0)])),
            ("Count", Obj::Int(1)),
            ("Rev", Obj::Int(rev as i64)),
        ])
    } else {
        Obj::dict(vec![
            ("Kind", Obj::name(if num == A { "A" } else { "B" })),
            ("Rev", Obj::Int(rev as i64)),
            ("Mark", Obj::str(format!("obj{num}-rev{rev}").as_bytes())),
        ])
    }
}

struct History {
    fb: FileBuilder,
    tracks: Vec<Track>,
    /// (object number, value) of the per-revision filler objects
    fillers: Vec<(u32, Obj)>,
    desc: Vec<String>,
}

/// Build the base revision and let `c` choose the appended revisions.
fn choose_history(c: &mut Ctx, bases: &[usize], eols: &[Eol], min_revs: usize, max_revs: usize, plain_only: bool) -> History {
    let base = *c.pick_from("base", bases);
    let eol = if eols.len() > 1 { *c.pick_from("eol", eols) } else { eols[0] };
    let (form0, objstm0) = match base {
        0 => (XrefForm::Table, false),
        1 => (XrefForm::Stream, false),
        _ => (XrefForm::Stream, true),
    };
    let mut desc = vec![format!("base={} eol={eol:?}", ["classic", "xref-stream", "xref-stream+objstm"][base])];
    let mut r0 = Revision::new(form0);
    r0.add(1, Obj::dict(vec![("Type", Obj::name("Catalog")), ("Pages", Obj::Ref(P, 0))]));
    r0.add(
        3,
        Obj::dict(vec![
            ("Type", Obj::name("Page")),
            ("Parent", Obj::Ref(P, 0)),
            ("MediaBox", Obj::Array(vec![Obj::Int(0), Obj::Int(0), Obj::Int(200), Obj::Int(300)])),
            ("Resources", Obj::dict(vec![])),
        ]),
    );
    let mut tracks = Vec::new();
    for n in TRACKED {
        let v = value(n, 0);
        r0.add(n, v.clone());
        if objstm0 {
            r0.in_objstm.insert(n);
        }
        tracks.push(Track { num: n, events: vec![Ev { rev: 0, kind: if objstm0 { Kind::InStm } else { Kind::Plain }, gen: 0, val: Some(v) }] });
    }
    let mut fb = FileBuilder::new(1);
    fb.eol = eol;
    fb.revisions.push(r0);
    let mut fillers = Vec::new();

    let nrev = min_revs + c.choose("n_revs", max_revs - min_revs + 1);
    for ri in 1..=nrev {
        let form = if c.choose("form", 2) == 0 { XrefForm::Table } else { XrefForm::Stream };
        let mut r = Revision::new(form);
        // alternate the xref-stream encoding (not a dimension of the property): odd revisions
        // use Flate + PNG predictor 12, even ones are stored
        r.xref_predictor = ri % 2 == 1;
        let mut d = format!("rev{ri}={}", if form == XrefForm::Table { "table" } else { "stream" });
        for t in tracks.iter_mut() {
            let last = t.last().clone();
            let mut menu: Vec<Option<Kind>> = vec![None];
            if last.val.is_some() {
                menu.push(Some(Kind::Plain));
                if !plain_only {
                    if form == XrefForm::Stream && last.gen == 0 {
                        menu.push(Some(Kind::InStm));
                    }
                    if t.num != P {
                        menu.push(Some(Kind::Free));
                    }
                }
            } else if !plain_only {
                menu.push(Some(Kind::ReAdd));
            }
            let op = menu[c.choose("op", menu.len())];
            match op {
                None => d.push_str(&format!(" {}:keep", t.num)),
                Some(Kind::Plain) => {
                    let v = value(t.num, ri);
                    r.objects.push((t.num, last.gen, v.clone()));
                    t.events.push(Ev { rev: ri, kind: Kind::Plain, gen: last.gen, val: Some(v) });
                    d.push_str(&format!(" {}:plain", t.num));
                }
                Some(Kind::InStm) => {
                    let v = value(t.num, ri);
                    r.objects.push((t.num, 0, v.clone()));
                    r.in_objstm.insert(t.num);
                    t.events.push(Ev { rev: ri, kind: Kind::InStm, gen: 0, val: Some(v) });
                    d.push_str(&format!(" {}:objstm", t.num));
                }
                Some(Kind::Free) => {
                    // the free entry carries the generation of the next use (§7.5.4)
                    r.free.push((t.num, last.gen + 1));
                    t.events.push(Ev { rev: ri, kind: Kind::Free, gen: last.gen + 1, val: None });
                    d.push_str(&format!(" {}:free", t.num));
                }
                Some(Kind::ReAdd) => {
                    let v = value(t.num, ri);
                    r.objects.push((t.num, last.gen, v.clone()));
                    t.events.push(Ev { rev: ri, kind: Kind::ReAdd, gen: last.gen, val: Some(v) });
                    d.push_str(&format!(" {}:re-add(gen {})", t.num, last.gen));
                }
            }
        }
        // every revision adds one new object, so no revision is empty
        let fnum = 10 + ri as u32;
        let fv = Obj::dict(vec![("Filler", Obj::Int(ri as i64))]);
        r.add(fnum, fv.clone());
        fillers.push((fnum, fv));
        fb.revisions.push(r);
        desc.push(d);
    }
    History { fb, tracks, fillers, desc }
}

/// The reference reader must resolve the file exactly as the model says.
fn reference_agrees(bytes: &[u8], h: &History, strict_validate: bool) -> Result<(), String> {
    let f = PdfFile::parse(bytes).map_err(|e| format!("reference reader cannot open the file: {e}"))?;
    for t in &h.tracks {
        let got = f.get(t.num);
        if !got.same(&t.expected()) {
            return Err(format!("reference reader: object {} = {:?}, model {:?}", t.num, got, t.expected()));
        }
        let ent = f.xref.get(&t.num).copied();
        let ok = match (t.last().kind, ent) {
            (Kind::Free, Some(XEntry::Free { gen, .. })) => gen == t.last().gen,
            (Kind::InStm, Some(XEntry::Compressed { .. })) => true,
            (Kind::Plain | Kind::ReAdd, Some(XEntry::InUse { gen, .. })) => gen == t.last().gen,
            _ => false,
        };
        if !ok {
            return Err(format!("reference reader: xref entry of object {} is {:?}, model event {:?}", t.num, ent, t.last().kind));
        }
    }
    for (n, v) in &h.fillers {
        if !f.get(*n).same(v) {
            return Err(format!("reference reader: filler {n} = {:?}", f.get(*n)));
        }
    }
    if strict_validate {
        let issues = refpdf::file::validate_file(&f);
        if !issues.is_empty() {
            return Err(format!("strict validator: {issues:?}"));
        }
    }
    Ok(())
}

type Got = Result<Obj, String>;

/// None = the library's answer is right; Some(key) = finding key for this wrong answer.
fn classify(t: &Track, got: &Got) -> Option<String> {
    let want = t.expected();
    if let Ok(g) = got {
        if g.same(&want) {
            return None;
        }
        // exact signature of the expected defect: the answer is the newest definition that
        // lived inside an object stream, although a later revision superseded it
        let newest_stm = t.events.iter().rev().find(|e| e.kind == Kind::InStm);
        if let Some(s) = newest_stm {
            if s.rev != t.last().rev && g.same(s.val.as_ref().unwrap()) {
                return Some(match t.last().kind {
                    Kind::Free => "C04/stale-objstm-entry-beats-newer-free-entry".to_string(),
                    _ => "C04/stale-objstm-entry-beats-newer-plain-definition".to_string(),
                });
            }
        }
        if t.events.iter().any(|e| e.val.as_ref().map(|v| g.same(v)).unwrap_or(false)) {
            return Some("C04/older-revision-wins".to_string());
        }
        if g.is_null() {
            return Some("C04/live-object-reads-as-null".to_string());
        }
        return Some("C04/wrong-value".to_string());
    }
    let e = got.as_ref().unwrap_err();
    if e.starts_with("PANIC") {
        return Some(format!("C04/panic@{}", vx::panic_site(e)));
    }
    Some(if t.live() { "C04/live-object-lookup-fails".to_string() } else { "C04/freed-object-lookup-fails-instead-of-null".to_string() })
}

fn presets() -> [(&'static str, ParseOptions); 3] {
    [("strict", ParseOptions::strict()), ("default", ParseOptions::default()), ("lenient", ParseOptions::lenient())]
}

fn lib_get(r: &mut PdfReader<Cursor<Vec<u8>>>, n: u32, g: u16, via_resolve: bool) -> Got {
    let res = vx::guard(|| {
        if via_resolve {
            let rf = PdfObject::Reference(n, g);
            r.resolve(&rf).map(objcmp::to_ref).map_err(|e| e.to_string())
        } else {
            r.get_object(n, g).map(objcmp::to_ref).map_err(|e| e.to_string())
        }
    });
    match res {
        Ok(r) => r,
        Err(p) => Err(format!("PANIC {p}")),
    }
}

/// Open `bytes` under `opts` and compare every tracked object with the model. Returns the
/// observation hash.
fn judge(c: &mut Ctx, bytes: &[u8], h: &History, pname: &str, opts: ParseOptions, section: &str) -> u64 {
    let ctx = || format!("[{section}] preset={pname} history: {}", h.desc.join(" | "));
    let opened = vx::guard(|| PdfReader::new_with_options(Cursor::new(bytes.to_vec()), opts).map_err(|e| e.to_string()));
    let mut r = match opened {
        Ok(Ok(r)) => r,
        Ok(Err(e)) => {
            c.fail(format!("C04/open-fails-{pname}"), format!("{} error={e}", ctx()));
            return 1;
        }
        Err(p) => {
            c.fail(format!("C04/panic@{}", vx::panic_site(&p)), format!("{} open panicked: {p}", ctx()));
            return 2;
        }
    };
    let mut oh = 3u64;
    for t in &h.tracks {
        let gen = match t.last().kind {
            // a reference written before the object was freed carries the old generation
            Kind::Free => t.last().gen - 1,
            _ => t.last().gen,
        };
        let got = lib_get(&mut r, t.num, gen, t.num == B);
        let cls = classify(t, &got);
        oh = vx::hmix(oh, vx::h64(&cls));
        if let Some(key) = cls {
            c.fail(key, format!("{} object {} {} R: want {:?} got {:?}", ctx(), t.num, gen, t.expected(), got));
        }
        // after a re-add, a reference with the *old* generation is a reference to an undefined
        // object: null per §7.3.10; an error or (lenient) the current object are tolerated, an
        // older value is not
        if t.last().kind == Kind::ReAdd && gen > 0 {
            let got_old = lib_get(&mut r, t.num, gen - 1, false);
            if let Ok(g) = &got_old {
                if !g.is_null() && !g.same(&t.expected()) {
                    let key = classify(t, &got_old).unwrap_or_else(|| "C04/wrong-value".into());
                    c.fail(key, format!("{} object {} {} R (stale generation): got {:?}", ctx(), t.num, gen - 1, got_old));
                }
            }
        }
    }
    for (n, v) in &h.fillers {
        let got = lib_get(&mut r, *n, 0, false);
        let ok = matches!(&got, Ok(g) if g.same(v));
        oh = vx::hmix(oh, ok as u64);
        if !ok {
            c.fail("C04/object-added-by-an-update-not-readable", format!("{} object {n} 0 R: want {:?} got {:?}", ctx(), v, got));
        }
    }
    oh
}

fn replace_last(bytes: &mut Vec<u8>, from: &[u8], to: &[u8]) -> bool {
    if let Some(p) = (0..=bytes.len().saturating_sub(from.len())).rev().find(|&i| bytes[i..].starts_with(from)) {
        bytes.splice(p..p + from.len(), to.iter().copied());
        true
    } else {
        false
    }
}

const DAMAGES: [&str; 3] = ["final-startxref-points-at-0", "final-startxref-points-past-EOF", "every-startxref-keyword-wrecked"];

fn damage(bytes: &[u8], kind: usize, final_xref: usize, eol: Eol) -> Vec<u8> {
    let mut b = bytes.to_vec();
    let e = eol.s();
    let old = format!("startxref{e}{final_xref}{e}%%EOF{e}");
    match kind {
        0 => {
            assert!(replace_last(&mut b, old.as_bytes(), format!("startxref{e}0{e}%%EOF{e}").as_bytes()));
        }
        1 => {
            let new = format!("startxref{e}{}{e}%%EOF{e}", bytes.len() + 1000);
            assert!(replace_last(&mut b, old.as_bytes(), new.as_bytes()));
        }
        _ => {
            let mut i = 0;
            while i + 9 <= b.len() {
                if &b[i..i + 9] == b"startxref" {
                    b[i..i + 9].copy_from_slice(b"stXrtxreX");
                }
                i += 1;
            }
        }
    }
    b
}

pub fn run(rep: &mut Report) {
    crate::util::tune_malloc();
    let thorough = rep.tier.is_thorough();
    let k = if thorough { 3 } else { 2 };
    rep.rule("case = one history (base form, per appended revision: xref form and one operation per tracked object) \
              opened under each preset; non-trivial = at least one appended revision touches a tracked object; \
              distinct = distinct file bytes");
    rep.assume("the model (last event per object wins; a free entry reads as null) is ISO 32000-1 7.5.6/7.3.10; \
                refpdf's reader and strict validator must agree with it on every generated file before the library is judged");
    rep.assume("'inside an object stream' is only offered in revisions whose cross-reference section is a stream (hybrid /XRefStm files are not part of the property) and for generation 0; \
                a freed object is re-added with the generation recorded in its free entry");
    rep.assume("recovery-scan section: only plain redefinitions (a header scan cannot know free entries or compressed objects)");
    rep.note("K", json!(k));

    rep.explore("histories", Explore::full(), |c: &mut Ctx| {
        let h = choose_history(c, &[0, 1, 2], &[Eol::Lf], 0, k, false);
        let built = h.fb.build();
        c.input(vx::hbytes(&built.bytes));
        if h.tracks.iter().any(|t| t.events.len() > 1) {
            c.nontrivial();
        }
        if let Err(e) = reference_agrees(&built.bytes, &h, true) {
            c.fail("C04/harness-reference-reader-disagrees-with-model", format!("{} :: {e}", h.desc.join(" | ")));
            return;
        }
        let mut oh = 0u64;
        for (pname, opts) in presets() {
            oh = vx::hmix(oh, judge(c, &built.bytes, &h, pname, opts, "histories"));
        }
        c.add_evaluations(2);
        c.outcome(oh);
        c.sample(json!({"history": h.desc, "file_len": built.bytes.len(),
                        "expected": h.tracks.iter().map(|t| json!([t.num, format!("{:?}", t.expected())])).collect::<Vec<_>>() }));
    });

    rep.explore("recovery-scan", Explore::full(), |c: &mut Ctx| {
        let h = choose_history(c, &[0, 1], &[Eol::Lf, Eol::Cr, Eol::CrLf], 1, k, true);
        let dk = c.choose("damage", DAMAGES.len());
        let built = h.fb.build();
        if let Err(e) = reference_agrees(&built.bytes, &h, true) {
            c.fail("C04/harness-reference-reader-disagrees-with-model", format!("{} :: {e}", h.desc.join(" | ")));
            return;
        }
        let bytes = damage(&built.bytes, dk, *built.xref_offsets.last().unwrap(), h.fb.eol);
        c.input(vx::hbytes(&bytes));
        if h.tracks.iter().any(|t| t.events.len() > 1) {
            c.nontrivial();
        }
        // the damage must defeat the reference reader's normal open as well (otherwise it is not damage)
        if let Ok(f) = PdfFile::parse(&bytes) {
            if h.tracks.iter().all(|t| f.get(t.num).same(&t.expected())) {
                c.fail("C04/harness-damage-left-the-file-intact", format!("{} damage={}", h.desc.join(" | "), DAMAGES[dk]));
                return;
            }
        }
        let mut hd = History { fb: h.fb.clone(), tracks: h.tracks.clone(), fillers: h.fillers.clone(), desc: h.desc.clone() };
        hd.desc.push(format!("damage={}", DAMAGES[dk]));
        let mut oh = 0u64;
        for (pname, opts) in presets().into_iter().skip(1) {
            oh = vx::hmix(oh, judge(c, &bytes, &hd, pname, opts, "recovery-scan"));
        }
        c.add_evaluations(1);
        c.outcome(oh);
        c.sample(json!({"history": hd.desc, "file_len": bytes.len()}));
    });
}
