//! C03 — written files are structurally valid PDF.
//!
//! Space (enumerated): the authoring programs of C02 (`c02::prog`: page size × rotation ×
//! metadata × bodies over the 10-call alphabet, 1–3 pages) × the 16 writer configurations, plus
//!   * `names-and-strings`: documents whose user-chosen resource name (image XObject name) and
//!     user-chosen strings (title, annotation contents, outline title, shown text, form-field
//!     name and value) contain PDF delimiters / white space / `#` / non-ASCII characters;
//!   * `encrypted`: 4 encryption strengths × all 16 configurations over small programs.
//!
//! Oracle: `refpdf::file::validate` reports nothing (header; every xref entry is the exact
//! offset of `N G obj`; startxref → last section; /Size; stream /Length + EOL `endstream`; every
//! reference resolves to an in-use object; token validity; no duplicate keys; /W /Index /N
//! /First; /Root; /Length exact where decidable (zlib trailer, unfiltered image size); /Encrypt + /ID iff encrypted, /Encrypt not in an object stream), and the
//! library's own `ParseOptions::strict()` (recovery attempts = 0) opens the file and resolves
//! every in-use object to the same kind of object, with the same dictionary keys, as the
//! reference reader.
//!
//! Known defects are recognised by their exact signature only (and, where an equal-length
//! repair exists, the repaired file is then held to the full oracle), so that any other
//! damage in the same configurations still surfaces under its own key.
use super::c02::{self, prog, slug};
use oxidize_pdf::parser::{ParseOptions, PdfObject, PdfReader};
use prog::{Cfg, Program};
use refpdf::file::{PdfFile, XEntry};
use refpdf::syntax::Obj;
use serde_json::json;
use std::io::Cursor;
use vx::{Ctx, Explore, Report};

pub const BUILT: bool = true;

#[derive(Clone, Copy, Debug, PartialEq, Eq, Hash)]
enum Strength {
    Rc4_40,
    Rc4_128,
    Aes128,
    Aes256,
}
const STRENGTHS: [Strength; 4] = [Strength::Rc4_40, Strength::Rc4_128, Strength::Aes128, Strength::Aes256];
const USER_PW: &str = "user";
const OWNER_PW: &str = "owner";

fn lib_strength(s: Strength) -> oxidize_pdf::document::EncryptionStrength {
    use oxidize_pdf::document::EncryptionStrength as E;
    match s {
        Strength::Rc4_40 => E::Rc4_40bit,
        Strength::Rc4_128 => E::Rc4_128bit,
        Strength::Aes128 => E::Aes128,
        Strength::Aes256 => E::Aes256,
    }
}

/// Write `doc` under `cfg` with the deterministic byte source installed (file id, salts, IVs).
fn write_doc(mut doc: oxidize_pdf::Document, cfg: Cfg) -> Result<Vec<u8>, String> {
    oxidize_pdf::verif_hooks::seed_rng(Some(0x5eed));
    let r = vx::guard(|| doc.to_bytes_with_config(cfg.writer()).map_err(|e| format!("writer error: {e}")));
    oxidize_pdf::verif_hooks::seed_rng(None);
    match r {
        Ok(r) => r,
        Err(p) => Err(format!("writer panic: {p}")),
    }
}

fn kind_of_lib(o: &PdfObject) -> &'static str {
    match o {
        PdfObject::Null => "null",
        PdfObject::Boolean(_) => "bool",
        PdfObject::Integer(_) => "int",
        PdfObject::Real(_) => "real",
        PdfObject::String(_) => "string",
        PdfObject::Name(_) => "name",
        PdfObject::Array(_) => "array",
        PdfObject::Dictionary(_) => "dict",
        PdfObject::Stream(_) => "stream",
        PdfObject::Reference(..) => "ref",
    }
}

/// `ParseOptions::strict()`: open, unlock if needed, resolve every in-use object of the
/// reference reader's cross-reference view; each must come back as the same kind of object
/// with the same dictionary keys. Returns the list of complaints.
/// `file` is the view of the objects as stored; members of object streams of an encrypted file
/// can only be seen through the unlocked view (`unlocked`), kinds and keys are compared as before.
fn strict_open_and_resolve(bytes: &[u8], file: &PdfFile, unlocked: Option<&PdfFile>, password: Option<&str>) -> Vec<String> {
    let r = vx::guard(|| {
        let mut out = Vec::new();
        let mut reader = match PdfReader::new_with_options(Cursor::new(bytes), ParseOptions::strict()) {
            Ok(r) => r,
            Err(e) => return vec![format!("open: {e}")],
        };
        if reader.is_encrypted() {
            if let Some(pw) = password {
                if let Err(e) = reader.unlock(pw) {
                    return vec![format!("unlock: {e}")];
                }
            }
        }
        for (&num, e) in &file.xref {
            let gen = match e {
                XEntry::Free { .. } => continue,
                XEntry::InUse { gen, .. } => *gen,
                XEntry::Compressed { .. } => 0,
            };
            let want = match (e, unlocked) {
                (XEntry::Compressed { .. }, Some(u)) => u.get(num),
                _ => file.get(num),
            };
            match reader.get_object(num, gen) {
                Ok(o) => {
                    let (wk, gk) = (want.type_name(), kind_of_lib(o));
                    if wk != gk {
                        out.push(format!("object {num}: strict parser returns a {gk}, the reference reader a {wk}"));
                        continue;
                    }
                    if let (Some(wd), Some(gd)) = (want.as_dict(), match o {
                        PdfObject::Dictionary(d) => Some(d),
                        PdfObject::Stream(s) => Some(&s.dict),
                        _ => None,
                    }) {
                        let mut wkeys: Vec<String> = wd.keys().map(|k| String::from_utf8_lossy(k).into_owned()).collect();
                        let mut gkeys: Vec<String> = gd.0.keys().map(|k| k.0.clone()).collect();
                        wkeys.sort();
                        gkeys.sort();
                        if wkeys != gkeys {
                            out.push(format!("object {num}: strict parser sees keys {gkeys:?}, the reference reader {wkeys:?}"));
                        }
                    }
                }
                Err(e) => out.push(format!("object {num}: {e}")),
            }
        }
        out
    });
    match r {
        Ok(v) => v,
        Err(p) => vec![format!("panic: {p}")],
    }
}

/// /Length exactness where it is decidable from the stream itself: a stream whose only filter is
/// FlateDecode must end with its zlib trailer (no byte of the EOL may be counted in), and an
/// unfiltered image must hold exactly height × ⌈width × components × bits / 8⌉ bytes.
fn inexact_lengths(file: &PdfFile) -> Vec<String> {
    use std::io::Read;
    let mut out = Vec::new();
    for (&num, e) in &file.xref {
        if !matches!(e, XEntry::InUse { .. }) {
            continue;
        }
        let o = file.get(num);
        let Some(s) = o.as_stream() else { continue };
        let int = |k: &str| file.resolve_opt(s.dict.get(k)).as_int();
        match file.resolve_opt(s.dict.get("Filter")) {
            Obj::Name(n) if n == b"FlateDecode" => {
                let mut d = flate2::bufread::ZlibDecoder::new(&s.data[..]);
                let mut sink = Vec::new();
                if d.read_to_end(&mut sink).is_ok() && d.total_in() as usize != s.data.len() {
                    out.push(format!("object {num}: /Length {} but the zlib stream ends after {} bytes", s.data.len(), d.total_in()));
                }
            }
            Obj::Null if file.resolve_opt(s.dict.get("Subtype")).as_name() == Some(b"Image") => {
                let comps = match file.resolve_opt(s.dict.get("ColorSpace")).as_name() {
                    Some(b"DeviceGray") => 1,
                    Some(b"DeviceRGB") => 3,
                    Some(b"DeviceCMYK") => 4,
                    _ => continue,
                };
                if let (Some(w), Some(h), Some(b)) = (int("Width"), int("Height"), int("BitsPerComponent")) {
                    let want = h * ((w * comps * b + 7) / 8);
                    if want != s.data.len() as i64 {
                        out.push(format!("object {num}: /Length {} but a {w}x{h} image with {comps} components of {b} bits has {want} bytes", s.data.len()));
                    }
                }
            }
            _ => {}
        }
    }
    out
}

#[derive(Default)]
struct Verdict {
    /// (key, detail)
    fails: Vec<(String, String)>,
    /// classes of what happened, for the outcome hash
    classes: Vec<String>,
}
impl Verdict {
    fn fail(&mut self, key: impl Into<String>, detail: impl Into<String>) {
        let k = key.into();
        self.classes.push(k.clone());
        self.fails.push((k, detail.into()));
    }
}

/// The full structural oracle for one written file.
/// `encrypted`: Some(user password) when the program asked for encryption.
fn check_file(bytes: &[u8], cfg: Cfg, encrypted: Option<&str>, tag: &str) -> Verdict {
    let mut v = Verdict::default();
    let mut bytes = std::borrow::Cow::Borrowed(bytes);

    // ---- known defect 1: raw xref stream that declares /FlateDecode. Exact signature, then
    // the equal-length repair lets the rest of the file be held to the whole oracle.
    if cfg.xref_stream && !cfg.compress {
        if let Some(fixed) = prog::repair_undeclared_raw_xref_stream(&bytes) {
            let orig = refpdf::file::validate(&bytes);
            if orig.len() == 1 && orig[0].starts_with("unreadable: xref stream decode") {
                let strict = match vx::guard(|| PdfReader::new_with_options(Cursor::new(&bytes[..]), ParseOptions::strict()).map(|_| ()).map_err(|e| e.to_string())) {
                    Ok(Ok(())) => "opens".to_string(),
                    Ok(Err(e)) => e,
                    Err(p) => format!("panic {p}"),
                };
                v.fail(
                    "C03/uncompressed-xref-stream-declares-flatedecode",
                    format!("{tag}: validator: {:?}; strict parser: {strict}; the xref stream dictionary says /Filter /FlateDecode but the data is the raw Size×ΣW table", orig[0].trim()),
                );
                bytes = std::borrow::Cow::Owned(fixed);
            }
        }
    }

    let mut file = match PdfFile::parse(&bytes) {
        Ok(f) => f,
        Err(e) => {
            v.fail(format!("C03/unreadable:{}", slug(&e)), format!("{tag}: {e}"));
            let s = strict_open_and_resolve_no_ref(&bytes);
            v.classes.push(format!("strict:{}", s.is_ok()));
            return v;
        }
    };

    // known defect 2 (object streams + classic table): members of the object streams = what the
    // table lists as free
    // (when the file is encrypted and its /Encrypt dictionary is an ordinary in-use object, the
    // object streams are enciphered as streams and can only be looked into after unlocking, so
    // the signature is taken after the unlock below)
    let sig_cell = cfg.obj_streams && !cfg.xref_stream;
    let defer_sig = encrypted.is_some()
        && matches!(file.trailer.get("Encrypt"), Some(Obj::Ref(n, _)) if matches!(file.xref.get(n), Some(XEntry::InUse { .. })));
    let mut classic_members: Option<Vec<u32>> = if sig_cell && !defer_sig { prog::objstm_with_classic_xref_signature(&file) } else { None };

    // ---- encryption entries of the trailer (§7.5.5 Table 15: /Encrypt, and /ID required with it)
    let has_encrypt = file.trailer.get("Encrypt").is_some();
    let has_id = file.trailer.get("ID").is_some();
    let mut unlocked = None;
    match encrypted {
        Some(pw) => {
            if !has_encrypt && !has_id && cfg.xref_stream {
                // known defect 3: write_xref_stream builds the trailer entries from
                // XRefStreamWriter::create_dictionary, which knows only /Root and /Info
                v.fail(
                    "C03/xref-stream-trailer-lacks-encrypt-and-id",
                    format!("{tag}: encryption was requested, objects are enciphered, but the cross-reference stream dictionary has neither /Encrypt nor /ID (keys: {:?})", file.trailer.keys().map(|k| String::from_utf8_lossy(k).into_owned()).collect::<Vec<_>>()),
                );
            } else if !has_encrypt || !has_id {
                v.fail("C03/encrypted-file-trailer-incomplete", format!("{tag}: /Encrypt present: {has_encrypt}, /ID present: {has_id}"));
            } else {
                let mut enc_in_objstm = false;
                if let Some(Obj::Ref(n, _)) = file.trailer.get("Encrypt") {
                    if matches!(file.xref.get(n), Some(XEntry::Compressed { .. })) || classic_members.as_ref().map(|m| m.contains(n)).unwrap_or(false) {
                        // known defect 6: ObjectStreamWriter::can_compress does not exclude the encryption dictionary
                        enc_in_objstm = true;
                        v.fail("C03/encryption-dictionary-inside-object-stream", format!("{tag}: /Encrypt {n} 0 R is stored in an object stream (§7.5.7: the encryption dictionary shall not be)"));
                    }
                }
                match file.trailer.get("ID").map(|i| file.resolve(i)) {
                    Some(Obj::Array(a)) if a.len() == 2 && a.iter().all(|x| matches!(x, Obj::Str(_))) => {}
                    other => v.fail("C03/trailer-id-malformed", format!("{tag}: /ID is {other:?}")),
                }
                if !(enc_in_objstm && classic_members.is_some()) {
                    match refpdf::crypto::unlock_ex(&mut file, pw.as_bytes()) {
                        Ok(u) => unlocked = Some(u),
                        Err(e) => v.fail(format!("C03/encryption-dictionary-unusable:{}", slug(&e)), format!("{tag}: {e}")),
                    }
                }
            }
        }
        None => {
            if has_encrypt {
                v.fail("C03/unencrypted-file-has-encrypt-entry", format!("{tag}: trailer has /Encrypt although no encryption was requested"));
            }
        }
    }

    if sig_cell && defer_sig {
        classic_members = prog::objstm_with_classic_xref_signature(&file);
    }

    // ---- the strict validator
    let mut issues = refpdf::file::validate_file(&file);
    let mut skip_strict = false;
    {
        // known defect 2: object streams + classic table. Signature: the members of the object
        // streams are exactly what the table lists as free; every message explained by that
        // (and only those) is folded into the one known key.
        if let Some(members) = classic_members.clone() {
            let explained = |m: &str| -> bool {
                if m == "/Root does not reference a /Type /Catalog dictionary" {
                    return matches!(file.trailer.get("Root"), Some(Obj::Ref(n, 0)) if members.contains(n));
                }
                if let Some(rest) = m.strip_prefix("object stream ") {
                    // "object stream S member i is object n, but the xref has Some(Free …"
                    if let Some(pos) = rest.find(" is object ") {
                        let n: Option<u32> = rest[pos + 11..].split(',').next().and_then(|s| s.trim().parse().ok());
                        return rest.contains("but the xref has Some(Free") && n.map(|n| members.contains(&n)).unwrap_or(false);
                    }
                }
                if let Some(pos) = m.find(" references ") {
                    // "<who> references n g R, which is not an in-use object"
                    let mut it = m[pos + 12..].split(' ');
                    let n: Option<u32> = it.next().and_then(|s| s.parse().ok());
                    let g: Option<u32> = it.next().and_then(|s| s.parse().ok());
                    return m.ends_with("which is not an in-use object") && g == Some(0) && n.map(|n| members.contains(&n)).unwrap_or(false);
                }
                false
            };
            let (known, rest): (Vec<String>, Vec<String>) = issues.into_iter().partition(|m| explained(m));
            if !known.is_empty() {
                v.fail(
                    "C03/objstm-with-classic-xref-unreadable",
                    format!("{tag}: objects {members:?} are stored in an object stream but a classic table cannot point into it: {} validator messages, first: {:?}", known.len(), known[0]),
                );
                skip_strict = true; // the strict parser is expected to reject this file
            }
            issues = rest;
        }
    }
    for m in &issues {
        v.fail(format!("C03/invalid:{}", slug(m)), format!("{tag}: {m}"));
    }
    if !has_encrypt && encrypted.is_none() {
        for m in inexact_lengths(&file) {
            v.fail(format!("C03/stream-length-not-exact:{}", slug(&m)), format!("{tag}: {m}"));
        }
    }

    // ---- after unlocking: every string / stream must decipher, pages must be readable
    if let Some(u) = &unlocked {
        for n in file.live_objects() {
            let _ = file.get(n);
        }
        // (whether the deciphered page content is the program's content is C05's question)
        let pr = u.problems.lock().unwrap();
        if let Some(p) = pr.first() {
            v.fail(format!("C03/undecipherable-data:{}", slug(p)), format!("{tag}: {} problems, first: {p}", pr.len()));
        }
    }

    // ---- the library's strict parser
    if !skip_strict {
        // when the trailer announces no encryption the library reads the file as plain
        let pw = if has_encrypt { encrypted } else { None };
        // compare with the objects as stored (a second, never unlocked view of the file); members
        // of enciphered object streams are taken from the unlocked view
        let raw_view;
        let (view, unlocked_view) = if unlocked.is_some() {
            raw_view = PdfFile::parse(&bytes).expect("parsed before");
            (&raw_view, Some(&file))
        } else {
            (&file, None)
        };
        let complaints = strict_open_and_resolve(&bytes, view, unlocked_view, pw);
        let enc_obj = match file.trailer.get("Encrypt") {
            Some(Obj::Ref(n, _)) => Some(*n),
            _ => None,
        };
        for m in complaints.iter().take(3) {
            // known defect 5: PdfReader::get_object runs the encryption dictionary itself through
            // decrypt_object_if_needed; with AES its /O /U strings then fail to unpad
            if let Some(n) = enc_obj {
                if m.starts_with(&format!("object {n}: ")) && m.contains("Failed to decrypt string") {
                    v.fail("C03/strict-parser-deciphers-the-encryption-dictionary", format!("{tag}: {m}"));
                    continue;
                }
            }
            v.fail(format!("C03/strict-parser:{}", slug(m)), format!("{tag}: {m}"));
        }
        v.classes.push(format!("strict:{}", complaints.is_empty()));
    }
    v
}

fn strict_open_and_resolve_no_ref(bytes: &[u8]) -> Result<(), String> {
    match vx::guard(|| PdfReader::new_with_options(Cursor::new(bytes), ParseOptions::strict()).map(|_| ()).map_err(|e| e.to_string())) {
        Ok(r) => r,
        Err(p) => Err(format!("panic: {p}")),
    }
}

fn apply(c: &mut Ctx, v: Verdict) -> u64 {
    let h = vx::h64(&v.classes);
    for (k, d) in v.fails {
        c.fail(k, d);
    }
    h
}

fn run_program(c: &mut Ctx, p: &Program, cfgs: &[Cfg]) {
    c.input(vx::h64(&(p, cfgs)));
    if !p.pages.iter().all(|pg| pg.body.is_empty()) {
        c.nontrivial();
    }
    let mut oh = 0u64;
    for cfg in cfgs {
        let tag = format!("{} program={}", cfg.label(), p.short());
        match prog::write(p, *cfg) {
            Ok(bytes) => {
                let v = check_file(&bytes, *cfg, None, &tag);
                oh = vx::hmix(oh, apply(c, v));
            }
            Err(e) => {
                c.fail(format!("C03/write-failed:{}", slug(&e)), format!("{tag}: {e}"));
                oh = vx::hmix(oh, 1);
            }
        }
    }
    c.outcome(oh);
    c.sample(json!({"program": p.json(), "configurations": cfgs.len()}));
}

// ---------------------------------------------------------------------- names and strings

/// user-chosen resource names; index 0 is the control
const NAMES: [&str; 10] = ["Im1", "Im 1", "Im/1", "Im#1", "Im(1", "Im)1", "Im<1>", "Im[1]", "Im%1", "Im{1}"];
/// user-chosen strings; index 0 is the control
const STRINGS: [&str; 9] = ["plain", "a(b", "a)b", "a\\b", "((", "a\rb", "a\nb", "\u{e9}\u{20ac}", "a)/Evil 1 (b"];

fn needs_escape(name: &str) -> bool {
    name.bytes().any(|b| refpdf::syntax::is_ws(b) || refpdf::syntax::is_delim(b) || b == b'#' || !(0x21..=0x7e).contains(&b))
}

fn build_named(name: &str, s: &str) -> Result<oxidize_pdf::Document, String> {
    use oxidize_pdf::annotations::TextAnnotation;
    use oxidize_pdf::forms::{TextField, Widget};
    use oxidize_pdf::geometry::{Point, Rectangle};
    use oxidize_pdf::graphics::Image;
    use oxidize_pdf::structure::{Destination, OutlineItem, OutlineTree, PageDestination};
    use oxidize_pdf::text::Font;
    use oxidize_pdf::{Document, Page};
    let mut doc = Document::new();
    doc.set_title(s);
    doc.set_author(s);
    let mut page = Page::a4();
    page.text().set_font(Font::Helvetica, 12.0).at(50.0, 700.0).write(s).map_err(|e| format!("text: {e}"))?;
    let img = Image::from_gray_data(prog::GRAY_PIXELS.to_vec(), 2, 2).map_err(|e| format!("image: {e}"))?;
    page.add_image(name, img);
    page.draw_image(name, 100.0, 400.0, 64.0, 32.0).map_err(|e| format!("draw_image: {e}"))?;
    page.add_annotation(TextAnnotation::new(Point::new(100.0, 200.0)).with_contents(s).to_annotation());
    let widget = Widget::new(Rectangle::new(Point::new(50.0, 600.0), Point::new(250.0, 620.0)));
    page.add_form_widget(widget.clone());
    doc.enable_forms().add_text_field(TextField::new(s).with_default_value(s), widget, None).map_err(|e| format!("form field: {e}"))?;
    let mut outline = OutlineTree::new();
    outline.add_item(OutlineItem::new(s).with_destination(Destination::fit(PageDestination::PageNumber(0))));
    doc.set_outline(outline);
    doc.add_page(page);
    Ok(doc)
}

/// Does `/<raw name>` (the name written without any #xx escape) occur in the file, looking also
/// inside Flate-compressed streams?
fn raw_name_token_present(bytes: &[u8], name: &str) -> bool {
    let mut pat = vec![b'/'];
    pat.extend_from_slice(name.as_bytes());
    let has = |hay: &[u8]| hay.windows(pat.len()).any(|w| w == pat.as_slice());
    if has(bytes) {
        return true;
    }
    let mut i = 0;
    while let Some(p) = refpdf::file::find_first(bytes, b"stream\n", i) {
        let start = p + 7;
        let Some(end) = refpdf::file::find_first(bytes, b"\nendstream", start) else { break };
        if let Ok(d) = refpdf::filters::flate_decode(&bytes[start..end]) {
            if has(&d) {
                return true;
            }
        }
        i = end + 10;
    }
    false
}

fn run_named(c: &mut Ctx, thorough: bool) {
    let ni = c.choose("name", NAMES.len());
    let si = c.choose("string", STRINGS.len());
    let (name, s) = (NAMES[ni], STRINGS[si]);
    c.input(vx::h64(&(name, s)));
    if ni != 0 || si != 0 {
        c.nontrivial();
    }
    // object-stream configurations (0.3–3 s per file) only along the two axes, at version 1.7 (quick)
    let cfgs: Vec<Cfg> = Cfg::all().into_iter().filter(|cf| !cf.obj_streams || if thorough { ni == 0 || si == 0 } else { !cf.v14 && cf.compress && ((si == 0 && ni <= 2) || (ni == 0 && si <= 1)) }).collect();
    let mut oh = 0u64;
    for cfg in &cfgs {
        let tag = format!("{} name={name:?} string={s:?}", cfg.label());
        let bytes = match build_named(name, s).and_then(|d| write_doc(d, *cfg)) {
            Ok(b) => b,
            Err(e) => {
                c.fail(format!("C03/write-failed:{}", slug(&e)), format!("{tag}: {e}"));
                continue;
            }
        };
        let mut v = check_file(&bytes, *cfg, None, &tag);
        // known defect 4: names are written verbatim. Signature: the name needs #xx escapes, the
        // unescaped token is in the file, and the same document with the control name is clean
        // (up to the same known keys) — then everything this file adds is folded into one key.
        if needs_escape(name) && !v.fails.is_empty() && raw_name_token_present(&bytes, name) {
            let control = build_named(NAMES[0], s).and_then(|d| write_doc(d, *cfg)).map(|b| check_file(&b, *cfg, None, &tag));
            if let Ok(cv) = control {
                let control_keys: Vec<&String> = cv.fails.iter().map(|f| &f.0).collect();
                let (same, extra): (Vec<_>, Vec<_>) = v.fails.drain(..).partition(|f| control_keys.contains(&&f.0));
                v.fails = same;
                if !extra.is_empty() {
                    v.fails.push((
                        "C03/name-written-unescaped".to_string(),
                        format!("{tag}: the token /{name} is in the file verbatim; {} complaints follow from it, first: {} — {}", extra.len(), extra[0].0, extra[0].1),
                    ));
                }
            }
        }
        oh = vx::hmix(oh, apply(c, v));
    }
    c.outcome(oh);
    c.sample(json!({"image_name": name, "string": s, "configurations": cfgs.len()}));
}

// ---------------------------------------------------------------------- encrypted

fn run_encrypted(c: &mut Ctx, thorough: bool) {
    let strength = *c.pick_from("strength", &STRENGTHS);
    let p = prog::choose_single_page(c, 1);
    c.input(vx::h64(&(strength, &p)));
    c.nontrivial();
    let plain = !p.metadata && p.pages[0].size == 0 && p.pages[0].rot == 0;
    let small = p.pages[0].body.is_empty();
    let cfgs: Vec<Cfg> = Cfg::all().into_iter().filter(|cf| !cf.obj_streams || (plain && (thorough || (small && !cf.v14 && cf.compress)))).collect();
    let mut oh = 0u64;
    for cfg in &cfgs {
        let tag = format!("{} encryption={strength:?} program={}", cfg.label(), p.short());
        let doc = prog::build(&p).map(|mut d| {
            d.set_encryption(oxidize_pdf::document::DocumentEncryption::new(USER_PW, OWNER_PW, oxidize_pdf::encryption::Permissions::all(), lib_strength(strength)));
            d
        });
        let bytes = match doc.and_then(|d| write_doc(d, *cfg)) {
            Ok(b) => b,
            Err(e) => {
                c.fail(format!("C03/write-failed:{}", slug(&e)), format!("{tag}: {e}"));
                continue;
            }
        };
        let v = check_file(&bytes, *cfg, Some(USER_PW), &tag);
        oh = vx::hmix(oh, apply(c, v));
    }
    c.outcome(oh);
    c.sample(json!({"strength": format!("{strength:?}"), "program": p.json(), "configurations": cfgs.len()}));
}

pub fn run(rep: &mut Report) {
    c02::tune_allocator();
    let thorough = rep.tier.is_thorough();
    rep.rule(
        "one execution = one document (authoring program / named document / encrypted program) written under the 8 \
         writer configurations without object streams and, for the stated sub-family, the 8 with object streams; every \
         file goes through the strict validator and the library's strict parser; non-trivial = non-empty body, a \
         non-control name or string, or encryption; distinct = distinct document",
    );
    rep.assume("refpdf::file::validate implements ISO 32000-1 §7.5 (validated against the qpdf-written fixture interop_base.pdf, which must pass, and hand-damaged files in its unit tests)");
    rep.assume("a raw CR inside a literal string is syntactically valid (§7.3.4.2) and is not reported here (C09/C30 cover the value)");
    rep.assume("names with raw bytes above 0x7e are excluded from the name alphabet: §7.3.5 only recommends #xx for them");
    rep.note("objstm_family", json!("object-stream configurations, programs without size/rotation/metadata deviation: quick (header version 1.7 only) = one page with an empty body or one of {Helvetica text, gray image, text annotation, outline entry}, or two pages with one Helvetica text each; thorough = one page with a body ≤ 2, two pages with bodies ≤ 1, three pages with equal bodies ≤ 1. names-and-strings: quick = first three names with the control string and the first two strings with the control name, compressed, version 1.7; thorough = control name or control string, all 8. encrypted: quick = empty body, compressed, version 1.7; thorough = all bodies ≤ 1, all 8"));
    let dev = 1;
    let single_len = if thorough { 4 } else { 3 };

    // development aid: C03_SECTIONS=names,encrypted runs only the named sections
    let on = |s: &str| std::env::var("C03_SECTIONS").map(|v| v.split(',').any(|x| s.starts_with(x))).unwrap_or(true);
    if on("single-page") {
        rep.explore("single-page", Explore::dev(dev), |c: &mut Ctx| {
            let p = prog::choose_single_page(c, single_len);
            let cfgs = c02::configs_for(c, &p, thorough);
            run_program(c, &p, &cfgs);
        });
    }
    if on("multi-page") {
    rep.explore("multi-page", Explore::dev(if thorough { 1 } else { 0 }), |c: &mut Ctx| {
        let p = prog::choose_multi_page(c, 2, 3, 1);
        let cfgs = c02::configs_for(c, &p, thorough);
        run_program(c, &p, &cfgs);
    });
    }
    if on("names-and-strings") {
        rep.explore("names-and-strings", Explore::full(), |c: &mut Ctx| run_named(c, thorough));
    }
    if on("encrypted") {
        rep.explore("encrypted", Explore::dev(1), |c: &mut Ctx| run_encrypted(c, thorough));
    }
}
