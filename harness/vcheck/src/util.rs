//! helpers shared by property modules

/// Stream-filter plumbing shared by C07 and C08: filter menu, reference encoders, stream
/// dictionaries for the library, guarded calls of the library's stream-decode entry points.
#[cfg(any(feature = "c07", feature = "c08"))]
#[allow(dead_code)]
pub mod filt {
    use oxidize_pdf::parser::objects::{PdfArray, PdfDictionary, PdfName, PdfObject, PdfStream};
    use oxidize_pdf::parser::ParseOptions;
    use refpdf::filters as rf;

    #[derive(Clone, Copy, PartialEq, Eq, Debug, Hash)]
    pub enum F {
        Flate,
        Lzw1,
        Lzw0,
        AHx,
        A85,
        RL,
    }
    pub const ALL_F: [F; 6] = [F::Flate, F::Lzw1, F::Lzw0, F::AHx, F::A85, F::RL];
    impl F {
        pub fn pdf_name(self) -> &'static str {
            match self {
                F::Flate => "FlateDecode",
                F::Lzw1 | F::Lzw0 => "LZWDecode",
                F::AHx => "ASCIIHexDecode",
                F::A85 => "ASCII85Decode",
                F::RL => "RunLengthDecode",
            }
        }
        pub fn short(self) -> &'static str {
            match self {
                F::Flate => "flate",
                F::Lzw1 => "lzw-ec1",
                F::Lzw0 => "lzw-ec0",
                F::AHx => "asciihex",
                F::A85 => "ascii85",
                F::RL => "runlength",
            }
        }
        /// number of reference-encoder variants (all produce conforming encodings)
        pub fn variants(self) -> usize {
            match self {
                F::Flate => 3,
                F::Lzw1 | F::Lzw0 => 2,
                F::AHx => 2,
                F::A85 => 1,
                F::RL => 2,
            }
        }
        pub fn variant_name(self, v: usize) -> &'static str {
            match (self, v) {
                (F::Flate, 0) => "miniz-default",
                (F::Flate, 1) => "miniz-stored",
                (F::Flate, _) => "miniz-best",
                (F::Lzw1 | F::Lzw0, 0) => "refpdf",
                (F::Lzw1 | F::Lzw0, _) => "weezl",
                (F::AHx, 0) => "upper",
                (F::AHx, _) => "lower",
                (F::RL, 0) => "greedy",
                (F::RL, _) => "literals-only",
                _ => "refpdf",
            }
        }
        pub fn takes_predictor(self) -> bool {
            matches!(self, F::Flate | F::Lzw1 | F::Lzw0)
        }
    }

    pub fn weezl_lzw(data: &[u8], early_change: bool) -> Vec<u8> {
        let mut enc = if early_change {
            weezl::encode::Encoder::with_tiff_size_switch(weezl::BitOrder::Msb, 8)
        } else {
            weezl::encode::Encoder::new(weezl::BitOrder::Msb, 8)
        };
        enc.encode(data).expect("weezl encode")
    }

    /// RunLength encoding that never uses repeat runs (still conforming: literal runs of 1..128 + EOD).
    fn rl_literals_only(data: &[u8]) -> Vec<u8> {
        let mut o = Vec::with_capacity(data.len() + data.len() / 128 + 2);
        for ch in data.chunks(128) {
            o.push((ch.len() - 1) as u8);
            o.extend_from_slice(ch);
        }
        o.push(128);
        o
    }

    /// zlib-encode with a per-thread, re-used miniz compressor (a fresh compressor per call
    /// costs a 300 KB allocation, which dominated the run time of the small cases).
    pub fn flate_fast(data: &[u8], level: u32) -> Vec<u8> {
        use std::cell::RefCell;
        thread_local! {
            static COMP: RefCell<Vec<(u32, flate2::Compress)>> = const { RefCell::new(Vec::new()) };
        }
        COMP.with(|cell| {
            let mut v = cell.borrow_mut();
            if !v.iter().any(|(l, _)| *l == level) {
                v.push((level, flate2::Compress::new(flate2::Compression::new(level), true)));
            }
            let comp = &mut v.iter_mut().find(|(l, _)| *l == level).unwrap().1;
            comp.reset();
            let mut out: Vec<u8> = Vec::with_capacity(data.len() + data.len() / 512 + 128);
            loop {
                let consumed = comp.total_in() as usize;
                let st = comp.compress_vec(&data[consumed..], &mut out, flate2::FlushCompress::Finish).expect("deflate");
                if st == flate2::Status::StreamEnd {
                    break;
                }
                out.reserve(out.capacity().max(256));
            }
            out
        })
    }

    pub fn ref_encode(f: F, variant: usize, data: &[u8]) -> Vec<u8> {
        match (f, variant) {
            (F::Flate, 0) => flate_fast(data, 6),
            (F::Flate, 1) => flate_fast(data, 0),
            (F::Flate, _) => flate_fast(data, 9),
            (F::Lzw1, 0) => rf::lzw_encode(data, true),
            (F::Lzw1, _) => weezl_lzw(data, true),
            (F::Lzw0, 0) => rf::lzw_encode(data, false),
            (F::Lzw0, _) => weezl_lzw(data, false),
            (F::AHx, 0) => rf::asciihex_encode(data),
            (F::AHx, _) => rf::asciihex_encode(data).to_ascii_lowercase(),
            (F::A85, _) => rf::ascii85_encode(data),
            (F::RL, 0) => rf::runlength_encode(data),
            (F::RL, _) => rl_literals_only(data),
        }
    }

    /// One stage of a /Filter chain with its /DecodeParms entries (EarlyChange 0 is added
    /// automatically for `Lzw0`).
    #[derive(Clone, Debug)]
    pub struct Stage {
        pub f: F,
        pub parms: Vec<(&'static str, i64)>,
    }
    impl Stage {
        pub fn plain(f: F) -> Self {
            Stage { f, parms: Vec::new() }
        }
        pub fn all_parms(&self) -> Vec<(&'static str, i64)> {
            let mut p = self.parms.clone();
            if self.f == F::Lzw0 {
                p.push(("EarlyChange", 0));
            }
            p
        }
    }

    fn name(s: &str) -> PdfObject {
        PdfObject::Name(PdfName(s.to_string()))
    }
    fn parms_dict(p: &[(&'static str, i64)]) -> PdfObject {
        let mut d = PdfDictionary::new();
        for (k, v) in p {
            d.insert(k.to_string(), PdfObject::Integer(*v));
        }
        PdfObject::Dictionary(d)
    }

    /// Build the library's stream object. `array_form`: write /Filter and /DecodeParms as
    /// arrays even for a single filter (both forms are allowed by ISO 32000-1 Table 5).
    pub fn make_stream(stages: &[Stage], raw: Vec<u8>, array_form: bool) -> PdfStream {
        let mut d = PdfDictionary::new();
        d.insert("Length".to_string(), PdfObject::Integer(raw.len() as i64));
        if stages.len() == 1 && !array_form {
            d.insert("Filter".to_string(), name(stages[0].f.pdf_name()));
            let p = stages[0].all_parms();
            if !p.is_empty() {
                d.insert("DecodeParms".to_string(), parms_dict(&p));
            }
        } else if !stages.is_empty() {
            d.insert("Filter".to_string(), PdfObject::Array(PdfArray(stages.iter().map(|s| name(s.f.pdf_name())).collect())));
            if stages.iter().any(|s| !s.all_parms().is_empty()) {
                let arr = stages
                    .iter()
                    .map(|s| {
                        let p = s.all_parms();
                        if p.is_empty() { PdfObject::Null } else { parms_dict(&p) }
                    })
                    .collect();
                d.insert("DecodeParms".to_string(), PdfObject::Array(PdfArray(arr)));
            }
        }
        PdfStream { dict: d, data: raw }
    }

    /// Library result: outer Err = panic ("msg @ file:line"), inner Err = the library's error text.
    pub type LibResult = Result<Result<Vec<u8>, String>, String>;

    pub fn lib_decode(s: &PdfStream) -> LibResult {
        let opts = ParseOptions::default();
        vx::guard(|| s.decode(&opts).map_err(|e| e.to_string()))
    }
    pub fn lib_decode_limit(s: &PdfStream, limit: usize) -> LibResult {
        let opts = ParseOptions::default();
        vx::guard(|| s.decode_with_limit(&opts, limit).map_err(|e| e.to_string()))
    }

    /// Deterministic data patterns (index → bytes of length n).
    pub const PATTERNS: [&str; 4] = ["zeros", "counter", "all-pairs-new", "mixed"];
    pub fn pattern(kind: usize, n: usize) -> Vec<u8> {
        match kind {
            0 => vec![0u8; n],
            1 => (0..n).map(|i| (i % 256) as u8).collect(),
            // x, x+s, x+1, x+1+s, ... for s = 1,2,...: every adjacent byte pair is new for the
            // first 4608 bytes, so an LZW dictionary gains one entry per input byte
            2 => (0..n)
                .map(|i| {
                    let s = 1 + i / 512;
                    let x = (i % 512) / 2;
                    if i % 2 == 0 { x as u8 } else { ((x + s) % 256) as u8 }
                })
                .collect(),
            _ => (0..n).map(|i| ((i * 31 + i / 7 + (i * i) / 97) % 256) as u8).collect(),
        }
    }

    pub fn short_err(r: &LibResult) -> String {
        match r {
            Ok(Ok(v)) => format!("Ok({} bytes: {})", v.len(), vx::show_bytes(v, 48)),
            Ok(Err(e)) => format!("Err({})", vx::one_line(e, 160)),
            Err(p) => format!("PANIC({})", vx::one_line(p, 200)),
        }
    }
}

/// Library object model -> reference object model, and a canonical (sorted-keys) rendering,
/// for object-by-object comparisons (C04, C18, C19).
#[cfg(any(feature = "c04", feature = "c18", feature = "c19"))]
#[allow(dead_code)]
pub mod objcmp {
    use oxidize_pdf::parser::objects::PdfObject;
    use refpdf::syntax::{Dict, Obj, StreamObj};

    fn dict_to_ref(d: &oxidize_pdf::parser::objects::PdfDictionary) -> Dict {
        let mut v: Vec<(Vec<u8>, Obj)> = d.0.iter().map(|(k, v)| (k.0.as_bytes().to_vec(), to_ref(v))).collect();
        v.sort_by(|a, b| a.0.cmp(&b.0));
        Dict(v)
    }
    pub fn to_ref(o: &PdfObject) -> Obj {
        match o {
            PdfObject::Null => Obj::Null,
            PdfObject::Boolean(b) => Obj::Bool(*b),
            PdfObject::Integer(i) => Obj::Int(*i),
            PdfObject::Real(r) => Obj::Real(*r),
            PdfObject::String(s) => Obj::Str(s.0.clone()),
            PdfObject::Name(n) => Obj::Name(n.0.as_bytes().to_vec()),
            PdfObject::Array(a) => Obj::Array(a.0.iter().map(to_ref).collect()),
            PdfObject::Dictionary(d) => Obj::Dict(dict_to_ref(d)),
            PdfObject::Stream(s) => Obj::Stream(Box::new(StreamObj { dict: dict_to_ref(&s.dict), data: s.data.clone() })),
            PdfObject::Reference(n, g) => Obj::Ref(*n, *g),
        }
    }
    /// The same object with every dictionary's keys sorted (dictionaries are unordered).
    pub fn sorted(o: &Obj) -> Obj {
        let sd = |d: &Dict| {
            let mut v: Vec<(Vec<u8>, Obj)> = d.0.iter().map(|(k, v)| (k.clone(), sorted(v))).collect();
            v.sort_by(|a, b| a.0.cmp(&b.0));
            Dict(v)
        };
        match o {
            Obj::Array(a) => Obj::Array(a.iter().map(sorted).collect()),
            Obj::Dict(d) => Obj::Dict(sd(d)),
            Obj::Stream(s) => Obj::Stream(Box::new(StreamObj { dict: sd(&s.dict), data: s.data.clone() })),
            other => other.clone(),
        }
    }
    /// Canonical text of an object (sorted keys; stream data included as-is, /Length normalised
    /// by the serializer).
    pub fn canon(o: &Obj) -> Vec<u8> {
        refpdf::syntax::to_bytes(&sorted(o))
    }
    pub fn canon_lib(o: &PdfObject) -> Vec<u8> {
        canon(&to_ref(o))
    }
    pub fn show(o: &Obj) -> String {
        vx::show_bytes(&canon(o), 200)
    }
}

/// Keep glibc from returning freed arena memory to the kernel after every large free
/// (`madvise` on the process-wide mmap lock serialises all explorer threads when each case
/// allocates a few 100 KB codec states / scan buffers). Performance only; no semantic effect.
#[cfg(any(feature = "c04", feature = "c18", feature = "c19"))]
pub fn tune_malloc() {
    #[cfg(all(target_os = "linux", target_env = "gnu"))]
    unsafe {
        libc::mallopt(libc::M_TRIM_THRESHOLD, 1 << 30);
        libc::mallopt(libc::M_MMAP_THRESHOLD, 16 << 20);
    }
}

/// Shared by C05 and C06: the library's and the reference reader's view of a file as one
/// object model (`refpdf::syntax::Obj`), and a structural comparison of two object graphs
/// that follows references (object numbers differ between a plaintext and an encrypted build).
#[cfg(any(feature = "c05", feature = "c06"))]
#[allow(dead_code)]
pub mod enc {
    use oxidize_pdf::parser::objects::{PdfDictionary, PdfObject};
    use oxidize_pdf::parser::{PdfDocument, PdfReader};
    use refpdf::syntax::{Dict, Obj, StreamObj};
    use std::collections::BTreeSet;
    use std::io::Cursor;

    fn dict_to_ref(d: &PdfDictionary) -> Dict {
        let mut v: Vec<(Vec<u8>, Obj)> = d.0.iter().map(|(k, v)| (k.0.as_bytes().to_vec(), to_ref(v))).collect();
        v.sort_by(|a, b| a.0.cmp(&b.0));
        Dict(v)
    }
    pub fn to_ref(o: &PdfObject) -> Obj {
        match o {
            PdfObject::Null => Obj::Null,
            PdfObject::Boolean(b) => Obj::Bool(*b),
            PdfObject::Integer(i) => Obj::Int(*i),
            PdfObject::Real(r) => Obj::Real(*r),
            PdfObject::String(s) => Obj::Str(s.0.clone()),
            PdfObject::Name(n) => Obj::Name(n.0.as_bytes().to_vec()),
            PdfObject::Array(a) => Obj::Array(a.0.iter().map(to_ref).collect()),
            PdfObject::Dictionary(d) => Obj::Dict(dict_to_ref(d)),
            PdfObject::Stream(s) => Obj::Stream(Box::new(StreamObj { dict: dict_to_ref(&s.dict), data: s.data.clone() })),
            PdfObject::Reference(n, g) => Obj::Ref(*n, *g),
        }
    }

    /// Anything that can hand out indirect objects.
    pub trait Src {
        fn get(&self, n: u32, g: u16) -> Result<Obj, String>;
    }
    pub struct RefSrc(pub refpdf::file::PdfFile);
    impl Src for RefSrc {
        fn get(&self, n: u32, g: u16) -> Result<Obj, String> {
            Ok(self.0.get_gen(n, g))
        }
    }

    /// A document opened (and unlocked) through the library.
    pub struct LibOpen {
        pub encrypted: bool,
        /// already unlocked right after opening (the reader tries the empty user password)
        pub unlocked_on_open: bool,
        pub perms: Option<u32>,
        pub root: Option<Obj>,
        pub info: Option<Obj>,
        pub doc: PdfDocument<Cursor<Vec<u8>>>,
    }
    impl Src for LibOpen {
        fn get(&self, n: u32, g: u16) -> Result<Obj, String> {
            match vx::guard(|| self.doc.get_object(n, g).map(|o| to_ref(&o)).map_err(|e| e.to_string())) {
                Ok(r) => r,
                Err(p) => Err(format!("PANIC {p}")),
            }
        }
    }

    /// Open with the library; `pw = None` means "do not call unlock".
    /// Err("open: …") when the file cannot be opened, Err("unlock: …") when the password is refused.
    pub fn lib_open(bytes: &[u8], pw: Option<&str>) -> Result<LibOpen, String> {
        let r = vx::guard(|| {
            let mut reader = PdfReader::new(Cursor::new(bytes.to_vec())).map_err(|e| format!("open: {e}"))?;
            let encrypted = reader.is_encrypted();
            let unlocked_on_open = encrypted && reader.is_unlocked();
            if let Some(pw) = pw {
                reader.unlock(pw).map_err(|e| format!("unlock: {e}"))?;
            }
            let perms = reader.encryption_handler().map(|h| h.permissions().bits());
            let root = reader.trailer().dict().get("Root").map(to_ref);
            let info = reader.trailer().dict().get("Info").map(to_ref);
            Ok::<_, String>(LibOpen { encrypted, unlocked_on_open, perms, root, info, doc: reader.into_document() })
        });
        match r {
            Ok(x) => x,
            Err(p) => Err(format!("open: PANIC {p}")),
        }
    }

    /// Does the library accept this password (fresh reader, both roles tried)?
    pub fn lib_accepts(bytes: &[u8], pw: &str) -> Result<bool, String> {
        match vx::guard(|| {
            let mut reader = PdfReader::new(Cursor::new(bytes.to_vec())).map_err(|e| format!("open: {e}"))?;
            reader.unlock_with_password(pw).map_err(|e| format!("unlock error: {e}"))
        }) {
            Ok(r) => r,
            Err(p) => Err(format!("PANIC {p}")),
        }
    }

    /// Page texts and the metadata record through the library's high-level API.
    pub fn lib_text_and_metadata(d: &LibOpen) -> Result<(Vec<String>, String), String> {
        match vx::guard(|| {
            let t = d.doc.extract_text().map_err(|e| format!("extract_text: {e}"))?;
            let m = d.doc.metadata().map_err(|e| format!("metadata: {e}"))?;
            let meta = format!("title={:?} author={:?} subject={:?} keywords={:?} creator={:?} producer={:?} pages={:?}", m.title, m.author, m.subject, m.keywords, m.creator, m.producer, m.page_count);
            Ok::<_, String>((t.into_iter().map(|x| x.text).collect(), meta))
        }) {
            Ok(r) => r,
            Err(p) => Err(format!("PANIC {p}")),
        }
    }

    /// Decode a stream with the reference filters; /Crypt entries of /Filter are dropped first
    /// (decryption, if any, has happened before).
    pub fn decoded(s: &StreamObj) -> Result<Vec<u8>, String> {
        let mut d = s.dict.clone();
        let filt = d.get("Filter").cloned();
        let parms = d.get("DecodeParms").cloned();
        match filt {
            Some(Obj::Name(n)) if n == b"Crypt" => {
                d.remove("Filter");
                d.remove("DecodeParms");
            }
            Some(Obj::Array(a)) if a.iter().any(|x| x.as_name() == Some(b"Crypt")) => {
                let keep: Vec<usize> = (0..a.len()).filter(|&i| a[i].as_name() != Some(b"Crypt")).collect();
                d.set("Filter", Obj::Array(keep.iter().map(|&i| a[i].clone()).collect()));
                if let Some(Obj::Array(p)) = parms {
                    d.set("DecodeParms", Obj::Array(keep.iter().map(|&i| p.get(i).cloned().unwrap_or(Obj::Null)).collect()));
                }
            }
            _ => {}
        }
        refpdf::filters::decode_stream(&d, &s.data).map_err(|e| e.to_string())
    }

    #[derive(Clone, Debug)]
    pub struct Diff {
        pub path: String,
        /// "string" | "stream-dict-string" | "stream-data" | "value" | "type" | "keys" | "array-length" | "unresolvable"
        pub kind: &'static str,
        pub a: String,
        pub b: String,
        /// raw bytes of both sides for string differences (empty otherwise)
        pub a_raw: Vec<u8>,
        pub b_raw: Vec<u8>,
    }

    fn show(o: &Obj) -> String {
        vx::show_bytes(&refpdf::syntax::to_bytes(o), 80)
    }

    struct Walk<'x> {
        a: &'x dyn Src,
        b: &'x dyn Src,
        ignore: &'x dyn Fn(&str, &[u8]) -> bool,
        seen: BTreeSet<(u32, u32)>,
        out: Vec<Diff>,
        max: usize,
        nodes: usize,
        strings: usize,
        streams: usize,
    }

    impl<'x> Walk<'x> {
        fn push(&mut self, path: &str, kind: &'static str, a: String, b: String) {
            if self.out.len() < self.max {
                self.out.push(Diff { path: path.to_string(), kind, a, b, a_raw: Vec::new(), b_raw: Vec::new() });
            }
        }
        fn dicts(&mut self, da: &Dict, db: &Dict, path: &str, in_stream: bool, depth: usize) {
            let skip_stream_keys = |k: &[u8]| in_stream && matches!(k, b"Length" | b"Filter" | b"DecodeParms" | b"DL");
            let ka: BTreeSet<&Vec<u8>> = da.keys().filter(|k| !(self.ignore)(path, k) && !skip_stream_keys(k)).collect();
            let kb: BTreeSet<&Vec<u8>> = db.keys().filter(|k| !(self.ignore)(path, k) && !skip_stream_keys(k)).collect();
            if ka != kb {
                let f = |s: &BTreeSet<&Vec<u8>>| s.iter().map(|k| String::from_utf8_lossy(k).to_string()).collect::<Vec<_>>().join(",");
                self.push(path, "keys", f(&ka), f(&kb));
            }
            for k in ka.intersection(&kb) {
                let p = format!("{path}/{}", String::from_utf8_lossy(k));
                let (va, vb) = (da.get_b(k).unwrap().clone(), db.get_b(k).unwrap().clone());
                self.pair(&va, &vb, &p, in_stream, depth + 1);
            }
        }
        fn pair(&mut self, a: &Obj, b: &Obj, path: &str, in_stream: bool, depth: usize) {
            self.nodes += 1;
            if depth > 60 || self.nodes > 200_000 {
                return;
            }
            match (a, b) {
                (Obj::Ref(na, ga), Obj::Ref(nb, gb)) => {
                    if !self.seen.insert((*na, *nb)) {
                        return;
                    }
                    match (self.a.get(*na, *ga), self.b.get(*nb, *gb)) {
                        (Ok(oa), Ok(ob)) => self.pair(&oa, &ob, path, false, depth + 1),
                        (ra, rb) => self.push(path, "unresolvable", format!("{:?}", ra.map(|o| show(&o))), format!("{:?}", rb.map(|o| show(&o)))),
                    }
                }
                (Obj::Ref(na, ga), other) => match self.a.get(*na, *ga) {
                    Ok(oa) => self.pair(&oa, other, path, false, depth + 1),
                    Err(e) => self.push(path, "unresolvable", e, show(other)),
                },
                (other, Obj::Ref(nb, gb)) => match self.b.get(*nb, *gb) {
                    Ok(ob) => self.pair(other, &ob, path, false, depth + 1),
                    Err(e) => self.push(path, "unresolvable", show(other), e),
                },
                (Obj::Str(x), Obj::Str(y)) => {
                    self.strings += 1;
                    if x != y {
                        self.push(path, if in_stream { "stream-dict-string" } else { "string" }, vx::show_bytes(x, 60), vx::show_bytes(y, 60));
                        if let Some(d) = self.out.last_mut() {
                            if d.path == path {
                                d.a_raw = x.clone();
                                d.b_raw = y.clone();
                            }
                        }
                    }
                }
                (Obj::Array(x), Obj::Array(y)) => {
                    if x.len() != y.len() {
                        self.push(path, "array-length", x.len().to_string(), y.len().to_string());
                    }
                    for (i, (p, q)) in x.iter().zip(y.iter()).enumerate() {
                        self.pair(p, q, &format!("{path}[{i}]"), in_stream, depth + 1);
                    }
                }
                (Obj::Dict(x), Obj::Dict(y)) => self.dicts(x, y, path, in_stream, depth),
                (Obj::Stream(x), Obj::Stream(y)) => {
                    self.streams += 1;
                    self.dicts(&x.dict, &y.dict, path, true, depth);
                    match (decoded(x), decoded(y)) {
                        (Ok(p), Ok(q)) => {
                            // XMP packets carry the creation/modification time of the build
                            let is_xmp = x.dict.get("Type").and_then(|t| t.as_name()) == Some(b"Metadata");
                            let (p, q) = if is_xmp { (mask_dates(&p), mask_dates(&q)) } else { (p, q) };
                            if p != q {
                                self.push(path, "stream-data", format!("{} bytes: {}", p.len(), vx::show_bytes(&p, 40)), format!("{} bytes: {}", q.len(), vx::show_bytes(&q, 40)));
                            }
                        }
                        (p, q) => {
                            // undecodable on at least one side: that is a difference unless both fail on the same raw bytes
                            if !(p.is_err() && q.is_err() && x.data == y.data) {
                                self.push(path, "stream-data", format!("{:?}", p.map(|v| v.len())), format!("{:?}", q.map(|v| v.len())));
                            }
                        }
                    }
                }
                (Obj::Int(x), Obj::Real(y)) | (Obj::Real(y), Obj::Int(x)) if *x as f64 == *y => {}
                (x, y) if std::mem::discriminant(x) != std::mem::discriminant(y) => self.push(path, "type", show(x), show(y)),
                (x, y) => {
                    if !x.same(y) {
                        self.push(path, "value", show(x), show(y));
                    }
                }
            }
        }
    }

    /// Replace every `YYYY-MM-DDThh:mm:ss[.fraction]` by zeros (same shape, fraction dropped).
    pub fn mask_dates(d: &[u8]) -> Vec<u8> {
        const SHAPE: &[u8] = b"dddd-dd-ddTdd:dd:dd";
        let mut out = Vec::with_capacity(d.len());
        let mut i = 0;
        while i < d.len() {
            let m = i + SHAPE.len() <= d.len() && SHAPE.iter().zip(&d[i..]).all(|(s, c)| if *s == b'd' { c.is_ascii_digit() } else { s == c });
            if m {
                out.extend(SHAPE.iter().map(|s| if *s == b'd' { b'0' } else { *s }));
                i += SHAPE.len();
                if d.get(i) == Some(&b'.') {
                    i += 1;
                    while d.get(i).map(|c| c.is_ascii_digit()).unwrap_or(false) {
                        i += 1;
                    }
                }
            } else {
                out.push(d[i]);
                i += 1;
            }
        }
        out
    }

    pub struct GraphStats {
        pub nodes: usize,
        pub strings: usize,
        pub streams: usize,
    }

    /// Compare the object graphs reachable from the given roots (pairs of equally named entry
    /// points such as /Root and /Info). `ignore(path, key)` drops dictionary entries.
    pub fn graph_diff(a: &dyn Src, b: &dyn Src, roots: &[(&str, Option<Obj>, Option<Obj>)], ignore: &dyn Fn(&str, &[u8]) -> bool, max: usize) -> (Vec<Diff>, GraphStats) {
        let mut w = Walk { a, b, ignore, seen: BTreeSet::new(), out: Vec::new(), max, nodes: 0, strings: 0, streams: 0 };
        for (name, ra, rb) in roots {
            match (ra, rb) {
                (Some(x), Some(y)) => w.pair(x, y, name, false, 0),
                (None, None) => {}
                (x, y) => w.push(name, "keys", format!("{:?}", x.as_ref().map(show)), format!("{:?}", y.as_ref().map(show))),
            }
        }
        let st = GraphStats { nodes: w.nodes, strings: w.strings, streams: w.streams };
        (w.out, st)
    }

    pub fn show_diffs(d: &[Diff]) -> String {
        d.iter().take(4).map(|x| format!("[{} at {}: {} | {}]", x.kind, x.path, x.a, x.b)).collect::<Vec<_>>().join(" ")
    }

    /// Info entries that legitimately differ between two builds of the same program.
    pub fn ignore_volatile(path: &str, key: &[u8]) -> bool {
        path == "Info" && matches!(key, b"ModDate" | b"CreationDate" | b"oxidize-pdf-features" | b"oxidize-pdf-build")
    }
}

/// Shared by C05 and C06 (reverse direction): the document programs written through the
/// library, the plaintext baseline, and the reference reader's side of the oracle.
#[cfg(any(feature = "c05", feature = "c06"))]
#[allow(dead_code)]
pub mod encdoc {
    use super::enc::{self};
    use oxidize_pdf::document::{DocumentEncryption, EncryptionStrength};
    use oxidize_pdf::encryption::{PermissionFlags, Permissions};
    use oxidize_pdf::forms::{TextField, Widget};
    use oxidize_pdf::geometry::{Point, Rectangle};
    use oxidize_pdf::text::Font;
    use oxidize_pdf::writer::WriterConfig;
    use oxidize_pdf::{Document, Page};
    use refpdf::crypto as rc;

    pub const STRENGTHS: [(EncryptionStrength, &str); 4] = [(EncryptionStrength::Rc4_40bit, "RC4-40"), (EncryptionStrength::Rc4_128bit, "RC4-128"), (EncryptionStrength::Aes128, "AES-128"), (EncryptionStrength::Aes256, "AES-256")];

    /// (user, owner)
    pub fn password_pair(k: usize) -> (String, String) {
        match k {
            0 => ("user-pw".into(), "owner-pw".into()),
            1 => ("".into(), "owner-pw".into()),
            2 => ("contraseña".into(), "dueño-café".into()),
            3 => ("u-0123456789abcdefghijklmnopqrstuvwxyz-40".chars().take(40).collect(), "o-0123456789abcdefghijklmnopqrstuvwxyz-ABCDEF".into()),
            4 => (std::iter::repeat("user127-").take(16).collect::<String>()[..127].to_string(), std::iter::repeat("OWNER127/").take(15).collect::<String>()[..127].to_string()),
            5 => ("same-pw".into(), "same-pw".into()),
            // longer than the 127 bytes revisions 5/6 keep (ISO 32000-2 7.6.4.3.2); one role at a time
            6 => (std::iter::repeat("user128+").take(16).collect::<String>(), "owner-pw".into()),
            7 => ("user-pw".into(), std::iter::repeat("OWNER-200/").take(20).collect::<String>()),
            8 => ("only-user".into(), "".into()),
            _ => ("".into(), "".into()),
        }
    }
    pub const PASSWORD_NAMES: [&str; 10] = ["ascii", "empty-user", "non-ascii", "longer-than-32", "127-bytes", "user=owner", "user-128-bytes", "owner-200-bytes", "empty-owner", "both-empty"];

    /// canonical sets first, then raw /P values whose reserved bits are NOT in canonical form
    pub const N_PERMS: usize = 14;
    pub const RAW_PERMS: [u32; 4] = [0x0000_0F3C, 0x0000_0004, 0x7FFF_F0C4, 0xFFFF_FFFF];

    pub fn permission_set(k: usize) -> Permissions {
        match k {
            0 => Permissions::all(),
            1 => Permissions::new(),
            n if n >= 10 => Permissions::from_bits(RAW_PERMS[(n - 10) % 4]),
            n => {
                let b = n - 2;
                Permissions::from_flags(PermissionFlags {
                    print: b == 0,
                    modify_contents: b == 1,
                    copy: b == 2,
                    modify_annotations: b == 3,
                    fill_forms: b == 4,
                    accessibility: b == 5,
                    assemble: b == 6,
                    print_high_quality: b == 7,
                })
            }
        }
    }

    pub const CONTENT_NAMES: [&str; 3] = ["text-only", "metadata+form-field+2-pages", "strings-with-parens-backslash-CR-LF"];

    /// The document program. Deterministic: dates are pinned, nothing else depends on time
    /// except /ModDate, which the writer always overwrites and the comparison leaves out.
    pub fn build_document(content: usize) -> Result<Document, String> {
        let mut doc = Document::new();
    
        let mut page = Page::a4();
        let e = |e: oxidize_pdf::PdfError| e.to_string();
        match content {
            0 => {
                page.text().set_font(Font::Helvetica, 12.0).at(72.0, 720.0).write("Hello C05 plain text").map_err(e)?;
                doc.add_page(page);
            }
            1 => {
                doc.set_title("Round trip title");
                doc.set_author("A. Author");
                doc.set_subject("Subject of C05");
                doc.set_keywords("alpha, beta, gamma");
                doc.set_creator("vcheck C05");
                page.text().set_font(Font::Helvetica, 12.0).at(72.0, 720.0).write("First page with a form field").map_err(e)?;
                page.text().set_font(Font::Courier, 10.0).at(72.0, 700.0).write("second line 0123456789").map_err(e)?;
                let field = TextField::new("customer_name").with_default_value("default value").with_value("Jane Q. Public");
                let widget = Widget::new(Rectangle::new(Point::new(72.0, 600.0), Point::new(300.0, 620.0)));
                doc.enable_forms().add_text_field(field, widget, None).map_err(e)?;
                doc.add_page(page);
                let mut p2 = Page::a4();
                p2.text().set_font(Font::TimesRoman, 14.0).at(72.0, 720.0).write("Second page").map_err(e)?;
                doc.add_page(p2);
            }
            _ => {
                doc.set_title("Title (with) unbalanced ) paren \\ backslash");
                doc.set_author("line one\rline two\nline three\r\nend");
                doc.set_subject(")(");
                page.text().set_font(Font::Helvetica, 12.0).at(72.0, 720.0).write("text (with) parens ) and \\ backslash").map_err(e)?;
                let field = TextField::new("f(1)").with_value("value ) with \\ and \r CR");
                let widget = Widget::new(Rectangle::new(Point::new(72.0, 600.0), Point::new(300.0, 620.0)));
                doc.enable_forms().add_text_field(field, widget, None).map_err(e)?;
                doc.add_page(page);
            }
        }
        Ok(doc)
    }

    pub fn write_document(content: usize, cfg: &WriterConfig, enc: Option<(&DocumentEncryption, u64)>) -> Result<Vec<u8>, String> {
        let r = vx::guard(|| {
            let mut doc = build_document(content)?;
            doc.set_compress(cfg.compress_streams);
            if let Some((e, seed)) = enc {
                doc.set_encryption(e.clone());
                oxidize_pdf::verif_hooks::seed_rng(Some(seed));
            }
            let r = doc.to_bytes_with_config(cfg.clone()).map_err(|e| e.to_string());
            oxidize_pdf::verif_hooks::seed_rng(None);
            r
        });
        match r {
            Ok(x) => x,
            Err(p) => {
                oxidize_pdf::verif_hooks::seed_rng(None);
                Err(format!("PANIC {p}"))
            }
        }
    }

    pub fn config(xref_stream: bool, objstm: bool, compress: bool) -> WriterConfig {
        WriterConfig { use_xref_streams: xref_stream, use_object_streams: objstm, pdf_version: if xref_stream || objstm { "1.5" } else { "1.7" }.to_string(), compress_streams: compress, incremental_update: false }
    }

    /// A readable plaintext build: its bytes and what the library's high-level API says about it.
    pub struct Baseline {
        pub bytes: Vec<u8>,
        pub text: Vec<String>,
        pub meta: String,
    }
    impl Baseline {
        pub fn open(&self) -> Result<enc::LibOpen, String> {
            enc::lib_open(&self.bytes, None).map_err(|e| format!("plaintext build unreadable: {e}"))
        }
    }

    type BaseKey = (usize, bool, bool, bool);
    type BaseVal = Result<std::sync::Arc<Baseline>, String>;
    fn base_cache() -> &'static std::sync::Mutex<std::collections::HashMap<BaseKey, std::sync::Arc<std::sync::OnceLock<BaseVal>>>> {
        static C: std::sync::OnceLock<std::sync::Mutex<std::collections::HashMap<BaseKey, std::sync::Arc<std::sync::OnceLock<BaseVal>>>>> = std::sync::OnceLock::new();
        C.get_or_init(Default::default)
    }

    /// The plaintext build of a (content, configuration) cell and what the library reads back
    /// from it; Err = the configuration does not round-trip even without encryption. Computed
    /// once per cell and shared (unreadable configurations send the reader into slow recovery).
    pub fn baseline(content: usize, cfg: &WriterConfig) -> BaseVal {
        let key = (content, cfg.use_xref_streams, cfg.use_object_streams, cfg.compress_streams);
        let slot = base_cache().lock().unwrap().entry(key).or_default().clone();
        slot.get_or_init(|| baseline_uncached(content, cfg).map(std::sync::Arc::new)).clone()
    }

    fn baseline_uncached(content: usize, cfg: &WriterConfig) -> Result<Baseline, String> {
        let bytes = write_document(content, cfg, None).map_err(|e| format!("plaintext build fails: {e}"))?;
        let lib = enc::lib_open(&bytes, None).map_err(|e| format!("plaintext build unreadable: {e}"))?;
        if lib.encrypted {
            return Err("plaintext build reads as encrypted".into());
        }
        let (text, meta) = enc::lib_text_and_metadata(&lib).map_err(|e| format!("plaintext build unreadable: {e}"))?;
        // the graph must be walkable
        let (d, st) = enc::graph_diff(&lib, &lib, &[("Root", lib.root.clone(), lib.root.clone()), ("Info", lib.info.clone(), lib.info.clone())], &enc::ignore_volatile, 4);
        if !d.is_empty() || st.streams == 0 {
            return Err(format!("plaintext build unreadable: {}", enc::show_diffs(&d)));
        }
        // and must say the same as the default configuration does
        if cfg.use_xref_streams || cfg.use_object_streams || !cfg.compress_streams {
            let b0 = baseline(content, &config(false, false, true))?;
            if b0.text != text || b0.meta != meta {
                return Err("plaintext build reads back differently from the default configuration".into());
            }
        }
        Ok(Baseline { bytes, text, meta })
    }

    /// Findings of one encrypted file against its plaintext baseline: (key suffix, detail).
    pub type Findings = Vec<(String, String)>;

    /// The /Encrypt-less xref-stream signature (KF-C05-1): written with `use_xref_streams`, and the
    /// newest trailer has neither /Encrypt nor /ID although the body is encrypted.
    pub fn xref_stream_trailer_lacks_encrypt(bytes: &[u8]) -> bool {
        match refpdf::file::PdfFile::parse(bytes) {
            Ok(f) => f.sections[0].kind == refpdf::file::XKind::Stream && f.trailer.get("Encrypt").is_none() && f.trailer.get("ID").is_none(),
            Err(_) => false,
        }
    }

    pub struct Case<'a> {
        pub tag: String,
        pub user: &'a str,
        pub owner: &'a str,
        pub perms: u32,
        pub base: &'a Baseline,
        /// the plaintext build opened through the library: the definition of "the unencrypted document"
        pub base_lib: &'a enc::LibOpen,
    }

    /// Reference side (C06 reverse): the independent reader decrypts the library's file to the
    /// same object graph as the library's plaintext build.
    pub fn check_reference(enc_bytes: &[u8], cs: &Case) -> Findings {
        let mut out: Findings = Vec::new();
        let tag = &cs.tag;
        // the truth is the plaintext build as the library reads it (a literal string with a raw CR,
        // which the library's plaintext writer emits, would be read as LF by the reference - that is
        // C09/C10's business, not an encryption matter)
        let plain = cs.base_lib;
        let (pr, pi) = (plain.root.clone(), plain.info.clone());
        for (pw, role) in [(cs.user, rc::Which::User), (cs.owner, rc::Which::Owner)] {
            let mut f = match refpdf::file::PdfFile::parse(enc_bytes) {
                Ok(f) => f,
                Err(e) => {
                    out.push(("reference-reader-cannot-parse-encrypted-file".into(), format!("{tag}: {e}")));
                    return out;
                }
            };
            if !f.is_encrypted() {
                out.push(("reference-reader-sees-no-Encrypt".into(), format!("{tag}: trailer has no /Encrypt")));
                return out;
            }
            let u = match rc::unlock_ex(&mut f, pw.as_bytes()) {
                Ok(u) => u,
                Err(_) if pw.len() > 127 && rc::read_enc_info(&f).map(|i| i.r >= 5 && i.u.len() >= 48 && i.o.len() >= 48 && {
                    // known signature: the verifier in the file was made from ALL bytes of the password
                    let full = pw.as_bytes();
                    if role == rc::Which::User { rc::hash_r56(i.r, full, &i.u[32..40], &[])[..] == i.u[..32] } else { rc::hash_r56(i.r, full, &i.o[32..40], &i.u[..48])[..] == i.o[..32] }
                }).unwrap_or(false) => {
                    out.push(("aes256-password-over-127-bytes-hashed-untruncated".into(), format!("{tag}: the {role:?} password has {} bytes; /U and /O verify only against the untruncated bytes, ISO 32000-2 7.6.4.3.2 keeps the first 127", pw.len())));
                    continue;
                }
                Err(e) => {
                    out.push((format!("reference-reader-refuses-{}-password", if role == rc::Which::User { "user" } else { "owner" }), format!("{tag}: {pw:?}: {e}")));
                    continue;
                }
            };
            if u.which != role && cs.user != cs.owner {
                // an owner password that also authenticates as user, or the reverse
                let both = u.auth.user_key.is_some() && u.auth.owner_key.is_some();
                if !(both && role == rc::Which::User) {
                    out.push(("reference-reader-role-differs".into(), format!("{tag}: {pw:?} authenticates as {:?}, expected {role:?}", u.which)));
                }
            }
            if u.info.p as u32 != cs.perms {
                out.push(("reference-reader-permissions-differ".into(), format!("{tag}: /P {:#010x}, requested {:#010x}", u.info.p as u32, cs.perms)));
            }
            let (er, ei) = (f.trailer.get("Root").cloned(), f.trailer.get("Info").cloned());
            let problems = u.problems.clone();
            let src = enc::RefSrc(f);
            let (d, _) = enc::graph_diff(plain, &src, &[("Root", pr.clone(), er), ("Info", pi.clone(), ei)], &enc::ignore_volatile, 8);
            if !d.is_empty() {
                // known signature: encrypted streams carry a /Crypt filter entry without /Name, which
                // selects the Identity crypt filter (ISO 32000-1 7.6.5, Table 14) - a conforming reader
                // must not decrypt them. Confirmed when ignoring those entries makes every difference vanish.
                let mut explained = false;
                if d.iter().all(|x| x.kind == "stream-data") && u.info.v >= 4 {
                    if let Ok(mut f2) = refpdf::file::PdfFile::parse(enc_bytes) {
                        if rc::unlock_with(&mut f2, pw.as_bytes(), |i| i.ignore_stream_crypt_filters = true).is_ok() {
                            let (r2, i2) = (f2.trailer.get("Root").cloned(), f2.trailer.get("Info").cloned());
                            let src2 = enc::RefSrc(f2);
                            let (d2, _) = enc::graph_diff(plain, &src2, &[("Root", pr.clone(), r2), ("Info", pi.clone(), i2)], &enc::ignore_volatile, 8);
                            explained = d2.is_empty();
                        }
                    }
                }
                if explained {
                    out.push(("encrypted-streams-carry-nameless-Crypt-filter-meaning-Identity".into(), format!("{tag} ({role:?} password): an independent reader leaves these streams undecrypted: {}", enc::show_diffs(&d))));
                } else {
                    let kinds: std::collections::BTreeSet<&str> = d.iter().map(|x| x.kind).collect();
                    out.push((format!("reference-reader-content-differs/{}", kinds.into_iter().collect::<Vec<_>>().join("+")), format!("{tag} ({role:?} password): {}", enc::show_diffs(&d))));
                }
            }
            let p = problems.lock().unwrap();
            if !p.is_empty() {
                out.push(("reference-reader-undecryptable-data".into(), format!("{tag}: {:?}", &p[..p.len().min(3)])));
            }
        }
        out
    }

}
