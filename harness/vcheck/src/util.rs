//! helpers shared by property modules

/// Stream-filter plumbing shared by C07 and C08: filter menu, reference encoders, stream
/// dictionaries for the library, guarded calls of the library's stream-decode entry points.
#[cfg(any(feature = "c07", feature = "c08"))]
#[allow(dead_code)]
pub mod filt {
    use oxidize_pdf::parser::objects::{PdfArray, PdfDictionary, PdfName, PdfObject, PdfStream};
    use oxidize_pdf::parser::ParseOptions;
    use refpdf::filters as rf;

    #[derive(Clone, Copy, PartialEq, Eq, Debug, Hash)]
    pub enum F {
        Flate,
        Lzw1,
        Lzw0,
        AHx,
        A85,
        RL,
    }
    pub const ALL_F: [F; 6] = [F::Flate, F::Lzw1, F::Lzw0, F::AHx, F::A85, F::RL];
    impl F {
        pub fn pdf_name(self) -> &'static str {
            match self {
                F::Flate => "FlateDecode",
                F::Lzw1 | F::Lzw0 => "LZWDecode",
                F::AHx => "ASCIIHexDecode",
                F::A85 => "ASCII85Decode",
                F::RL => "RunLengthDecode",
            }
        }
        pub fn short(self) -> &'static str {
            match self {
                F::Flate => "flate",
                F::Lzw1 => "lzw-ec1",
                F::Lzw0 => "lzw-ec0",
                F::AHx => "asciihex",
                F::A85 => "ascii85",
                F::RL => "runlength",
            }
        }
        /// number of reference-encoder variants (all produce conforming encodings)
        pub fn variants(self) -> usize {
            match self {
                F::Flate => 3,
                F::Lzw1 | F::Lzw0 => 2,
                F::AHx => 2,
                F::A85 => 1,
                F::RL => 2,
            }
        }
        pub fn variant_name(self, v: usize) -> &'static str {
            match (self, v) {
                (F::Flate, 0) => "miniz-default",
                (F::Flate, 1) => "miniz-stored",
                (F::Flate, _) => "miniz-best",
                (F::Lzw1 | F::Lzw0, 0) => "refpdf",
                (F::Lzw1 | F::Lzw0, _) => "weezl",
                (F::AHx, 0) => "upper",
                (F::AHx, _) => "lower",
                (F::RL, 0) => "greedy",
                (F::RL, _) => "literals-only",
                _ => "refpdf",
            }
        }
        pub fn takes_predictor(self) -> bool {
            matches!(self, F::Flate | F::Lzw1 | F::Lzw0)
        }
    }

    pub fn weezl_lzw(data: &[u8], early_change: bool) -> Vec<u8> {
        let mut enc = if early_change {
            weezl::encode::Encoder::with_tiff_size_switch(weezl::BitOrder::Msb, 8)
        } else {
            weezl::encode::Encoder::new(weezl::BitOrder::Msb, 8)
        };
        enc.encode(data).expect("weezl encode")
    }

    /// RunLength encoding that never uses repeat runs (still conforming: literal runs of 1..128 + EOD).
    fn rl_literals_only(data: &[u8]) -> Vec<u8> {
        let mut o = Vec::with_capacity(data.len() + data.len() / 128 + 2);
        for ch in data.chunks(128) {
            o.push((ch.len() - 1) as u8);
            o.extend_from_slice(ch);
        }
        o.push(128);
        o
    }

    pub fn ref_encode(f: F, variant: usize, data: &[u8]) -> Vec<u8> {
        match (f, variant) {
            (F::Flate, 0) => rf::flate_encode(data),
            (F::Flate, 1) => rf::flate_encode_level(data, 0),
            (F::Flate, _) => rf::flate_encode_level(data, 9),
            (F::Lzw1, 0) => rf::lzw_encode(data, true),
            (F::Lzw1, _) => weezl_lzw(data, true),
            (F::Lzw0, 0) => rf::lzw_encode(data, false),
            (F::Lzw0, _) => weezl_lzw(data, false),
            (F::AHx, 0) => rf::asciihex_encode(data),
            (F::AHx, _) => rf::asciihex_encode(data).to_ascii_lowercase(),
            (F::A85, _) => rf::ascii85_encode(data),
            (F::RL, 0) => rf::runlength_encode(data),
            (F::RL, _) => rl_literals_only(data),
        }
    }

    /// One stage of a /Filter chain with its /DecodeParms entries (EarlyChange 0 is added
    /// automatically for `Lzw0`).
    #[derive(Clone, Debug)]
    pub struct Stage {
        pub f: F,
        pub parms: Vec<(&'static str, i64)>,
    }
    impl Stage {
        pub fn plain(f: F) -> Self {
            Stage { f, parms: Vec::new() }
        }
        pub fn all_parms(&self) -> Vec<(&'static str, i64)> {
            let mut p = self.parms.clone();
            if self.f == F::Lzw0 {
                p.push(("EarlyChange", 0));
            }
            p
        }
    }

    fn name(s: &str) -> PdfObject {
        PdfObject::Name(PdfName(s.to_string()))
    }
    fn parms_dict(p: &[(&'static str, i64)]) -> PdfObject {
        let mut d = PdfDictionary::new();
        for (k, v) in p {
            d.insert(k.to_string(), PdfObject::Integer(*v));
        }
        PdfObject::Dictionary(d)
    }

    /// Build the library's stream object. `array_form`: write /Filter and /DecodeParms as
    /// arrays even for a single filter (both forms are allowed by ISO 32000-1 Table 5).
    pub fn make_stream(stages: &[Stage], raw: Vec<u8>, array_form: bool) -> PdfStream {
        let mut d = PdfDictionary::new();
        d.insert("Length".to_string(), PdfObject::Integer(raw.len() as i64));
        if stages.len() == 1 && !array_form {
            d.insert("Filter".to_string(), name(stages[0].f.pdf_name()));
            let p = stages[0].all_parms();
            if !p.is_empty() {
                d.insert("DecodeParms".to_string(), parms_dict(&p));
            }
        } else if !stages.is_empty() {
            d.insert("Filter".to_string(), PdfObject::Array(PdfArray(stages.iter().map(|s| name(s.f.pdf_name())).collect())));
            if stages.iter().any(|s| !s.all_parms().is_empty()) {
                let arr = stages
                    .iter()
                    .map(|s| {
                        let p = s.all_parms();
                        if p.is_empty() { PdfObject::Null } else { parms_dict(&p) }
                    })
                    .collect();
                d.insert("DecodeParms".to_string(), PdfObject::Array(PdfArray(arr)));
            }
        }
        PdfStream { dict: d, data: raw }
    }

    /// Library result: outer Err = panic ("msg @ file:line"), inner Err = the library's error text.
    pub type LibResult = Result<Result<Vec<u8>, String>, String>;

    pub fn lib_decode(s: &PdfStream) -> LibResult {
        let opts = ParseOptions::default();
        vx::guard(|| s.decode(&opts).map_err(|e| e.to_string()))
    }
    pub fn lib_decode_limit(s: &PdfStream, limit: usize) -> LibResult {
        let opts = ParseOptions::default();
        vx::guard(|| s.decode_with_limit(&opts, limit).map_err(|e| e.to_string()))
    }

    /// Deterministic data patterns (index → bytes of length n).
    pub const PATTERNS: [&str; 4] = ["zeros", "counter", "all-pairs-new", "mixed"];
    pub fn pattern(kind: usize, n: usize) -> Vec<u8> {
        match kind {
            0 => vec![0u8; n],
            1 => (0..n).map(|i| (i % 256) as u8).collect(),
            // x, x+s, x+1, x+1+s, ... for s = 1,2,...: every adjacent byte pair is new for the
            // first 4608 bytes, so an LZW dictionary gains one entry per input byte
            2 => (0..n)
                .map(|i| {
                    let s = 1 + i / 512;
                    let x = (i % 512) / 2;
                    if i % 2 == 0 { x as u8 } else { ((x + s) % 256) as u8 }
                })
                .collect(),
            _ => (0..n).map(|i| ((i * 31 + i / 7 + (i * i) / 97) % 256) as u8).collect(),
        }
    }

    pub fn short_err(r: &LibResult) -> String {
        match r {
            Ok(Ok(v)) => format!("Ok({} bytes: {})", v.len(), vx::show_bytes(v, 48)),
            Ok(Err(e)) => format!("Err({})", vx::one_line(e, 160)),
            Err(p) => format!("PANIC({})", vx::one_line(p, 200)),
        }
    }
}

/// Library object model -> reference object model, and a canonical (sorted-keys) rendering,
/// for object-by-object comparisons (C04, C18, C19).
#[cfg(any(feature = "c04", feature = "c18", feature = "c19"))]
#[allow(dead_code)]
pub mod objcmp {
    use oxidize_pdf::parser::objects::PdfObject;
    use refpdf::syntax::{Dict, Obj, StreamObj};

    fn dict_to_ref(d: &oxidize_pdf::parser::objects::PdfDictionary) -> Dict {
        let mut v: Vec<(Vec<u8>, Obj)> = d.0.iter().map(|(k, v)| (k.0.as_bytes().to_vec(), to_ref(v))).collect();
        v.sort_by(|a, b| a.0.cmp(&b.0));
        Dict(v)
    }
    pub fn to_ref(o: &PdfObject) -> Obj {
        match o {
            PdfObject::Null => Obj::Null,
            PdfObject::Boolean(b) => Obj::Bool(*b),
            PdfObject::Integer(i) => Obj::Int(*i),
            PdfObject::Real(r) => Obj::Real(*r),
            PdfObject::String(s) => Obj::Str(s.0.clone()),
            PdfObject::Name(n) => Obj::Name(n.0.as_bytes().to_vec()),
            PdfObject::Array(a) => Obj::Array(a.0.iter().map(to_ref).collect()),
            PdfObject::Dictionary(d) => Obj::Dict(dict_to_ref(d)),
            PdfObject::Stream(s) => Obj::Stream(Box::new(StreamObj { dict: dict_to_ref(&s.dict), data: s.data.clone() })),
            PdfObject::Reference(n, g) => Obj::Ref(*n, *g),
        }
    }
    /// The same object with every dictionary's keys sorted (dictionaries are unordered).
    pub fn sorted(o: &Obj) -> Obj {
        let sd = |d: &Dict| {
            let mut v: Vec<(Vec<u8>, Obj)> = d.0.iter().map(|(k, v)| (k.clone(), sorted(v))).collect();
            v.sort_by(|a, b| a.0.cmp(&b.0));
            Dict(v)
        };
        match o {
            Obj::Array(a) => Obj::Array(a.iter().map(sorted).collect()),
            Obj::Dict(d) => Obj::Dict(sd(d)),
            Obj::Stream(s) => Obj::Stream(Box::new(StreamObj { dict: sd(&s.dict), data: s.data.clone() })),
            other => other.clone(),
        }
    }
    /// Canonical text of an object (sorted keys; stream data included as-is, /Length normalised
    /// by the serializer).
    pub fn canon(o: &Obj) -> Vec<u8> {
        refpdf::syntax::to_bytes(&sorted(o))
    }
    pub fn canon_lib(o: &PdfObject) -> Vec<u8> {
        canon(&to_ref(o))
    }
    pub fn show(o: &Obj) -> String {
        vx::show_bytes(&canon(o), 200)
    }
}
