//! helpers shared by property modules
