#!/bin/bash
# tools/confirm_batch.sh <out-file> <ID-n> [<ID-n>...]
# Independent confirmation of seeded regressions from /tmp/seeded-out/<ID-n>/ against /repo HEAD,
# in the persistent scratch worktree /tmp/confirm-wt:
#  [clean]   every demo passes on unmodified HEAD
#  [patched] each demo fails (not a compile error) with only its own patch applied
#  [suite]   the pinned suite passes with ALL the batch's patches applied together
# Uses patch_28e08dc8.diff / demo_28e08dc8.rs when present (ports to the current HEAD).
set -u
OUT="$1"; shift
WT=/tmp/confirm-wt
exec 9>/tmp/confirm-wt.lock; flock 9
export CARGO_NET_OFFLINE=true CARGO_BUILD_JOBS=${CARGO_BUILD_JOBS:-12}; unset RUSTFLAGS
if [ ! -e $WT/.git ]; then git -C /repo worktree add --detach $WT HEAD >/dev/null 2>&1 || { echo "worktree failed"; exit 2; }; fi
cd $WT && git checkout -q --detach "$(git -C /repo rev-parse HEAD)" && git reset -q --hard && git clean -qfd -e target -e .suite-out
echo "# confirm_batch $(date -u +%H:%M) HEAD=$(git rev-parse --short HEAD) seeds: $*" >> "$OUT"
name() { echo "seeded_demo_$(echo "$1" | tr -- '-.' '__' | tr 'A-Z' 'a-z')"; }
pfile() { [ -f /tmp/seeded-out/$1/patch_28e08dc8.diff ] && echo /tmp/seeded-out/$1/patch_28e08dc8.diff || echo /tmp/seeded-out/$1/patch.diff; }
dfile() { [ -f /tmp/seeded-out/$1/demo_28e08dc8.rs ] && echo /tmp/seeded-out/$1/demo_28e08dc8.rs || echo /tmp/seeded-out/$1/demo.rs; }
GOOD=()
for s in "$@"; do
  n=$(name $s); cp "$(dfile $s)" oxidize-pdf-core/tests/$n.rs
done
for s in "$@"; do
  n=$(name $s)
  cargo test -p oxidize-pdf --test $n --offline >/tmp/confirm-$s-clean.log 2>&1; r1=$?
  if ! git apply --check "$(pfile $s)" 2>/dev/null; then echo "$s clean=$r1 APPLY-CONFLICT" >> "$OUT"; continue; fi
  git apply "$(pfile $s)"
  cargo test -p oxidize-pdf --test $n --offline >/tmp/confirm-$s-patched.log 2>&1; r3=$?
  ce=$(grep -c "^error\[E\|could not compile" /tmp/confirm-$s-patched.log)
  git apply -R "$(pfile $s)"
  echo "$s clean=$r1(want 0) patched=$r3(want !=0) compile_errors=$ce" >> "$OUT"
  if [ $r1 = 0 ] && [ $r3 != 0 ] && [ $ce = 0 ]; then GOOD+=($s); fi
done
for s in "$@"; do rm -f oxidize-pdf-core/tests/$(name $s).rs; done
APPLIED=()
for s in "${GOOD[@]}"; do
  if git apply --check "$(pfile $s)" 2>/dev/null; then git apply "$(pfile $s)"; APPLIED+=($s); else echo "$s not in union (conflicts with an earlier seed of the batch)" >> "$OUT"; fi
done
echo "union applied: ${APPLIED[*]}" >> "$OUT"
/verif/tools/run_suite.sh $WT > /tmp/confirm-suite.log 2>&1
cat /tmp/confirm-suite.log >> "$OUT"
# re-run tests that dropped out, serially (timing tests flake under load)
grep "NO LONGER PASSING" /tmp/confirm-suite.log | sed 's/.*:: *//; s/.*PASSING: //' | while read t; do
  tn=${t##*::}
  ( cd oxidize-pdf-core && cargo nextest run -p oxidize-pdf --offline -j 1 -E "test(=$tn) or test(/::$tn\$/)" 2>&1 | grep -E "PASS|FAIL" | head -3 | sed "s/^/   rerun: /" ) >> "$OUT"
done
git reset -q --hard; git clean -qfd -e target -e .suite-out
echo "# batch done $(date -u +%H:%M)" >> "$OUT"
