#!/bin/bash
# run_suite.sh <worktree-dir>  — runs the repository's pinned test suite in that worktree and
# reports whether every test of the pinned baseline (9263 stable passes) still passes.
set -u
W="$(realpath "$1")"
cd "$W"
export CARGO_NET_OFFLINE=true CARGO_BUILD_JOBS=${CARGO_BUILD_JOBS:-8}
unset RUSTFLAGS
OUT="$W/.suite-out"; mkdir -p "$OUT"
cargo nextest run --workspace --no-fail-fast --tool-config-file pb:/w/lib/nextest.toml --profile pb --test-threads 8 --offline >"$OUT/log.txt" 2>&1
echo "nextest exit: $?" >>"$OUT/log.txt"
J="$W/target/nextest/pb/junit.xml"
python3 /w/lib/parse_tests.py --kind junit --glob "$J" --out "$OUT/parsed.json" >/dev/null 2>&1 || true
python3 - "$OUT/parsed.json" <<'PY'
import json,sys
base=json.load(open('/root/.vp/BASELINE.json'))
want=set(base['stable_pass'])
try: got=json.load(open(sys.argv[1]))
except Exception as e: print("no results parsed (build failure?)",e); sys.exit(2)
passed=set(got.get('passed',[]))
missing=sorted(w for w in want if w not in passed)
print(f"baseline stable_pass={len(want)} passed_now={len(passed)} failed_now={len(got.get('failed',[]))} baseline_tests_no_longer_passing={len(missing)}")
for m in missing[:40]: print("  NO LONGER PASSING:",m)
sys.exit(1 if missing else 0)
PY
