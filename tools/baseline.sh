#!/bin/bash
# Run the repository's pinned baseline with every verification guard OFF and compare with
# /root/.vp/BASELINE.json: every test in stable_pass must pass. Exit 0 iff none is missing.
set -u
cd /repo
export CARGO_NET_OFFLINE=true CARGO_BUILD_JOBS=${CARGO_BUILD_JOBS:-16}
unset RUSTFLAGS
OUT=${1:-/verif/.scratch/baseline}
mkdir -p "$OUT"
if [ -f /w/lib/nextest.toml ]; then
  cargo nextest run --workspace --no-fail-fast --tool-config-file pb:/w/lib/nextest.toml --profile pb --test-threads 8 --offline >"$OUT/log.txt" 2>&1
else
  cargo nextest run --workspace --no-fail-fast --test-threads 8 --offline >"$OUT/log.txt" 2>&1
fi
echo "nextest exit: $?" >>"$OUT/log.txt"
J=/repo/target/nextest/pb/junit.xml
[ -f "$J" ] || J=/repo/target/nextest/default/junit.xml
python3 /w/lib/parse_tests.py --kind junit --glob "$J" --out "$OUT/parsed.json" >/dev/null 2>&1 || true
python3 - "$OUT/parsed.json" <<'PY'
import json,sys
base=json.load(open('/root/.vp/BASELINE.json'))
want=set(base['stable_pass'])
got=json.load(open(sys.argv[1]))
passed=set(got.get('passed',[]))
missing=sorted(w for w in want if w not in passed)
print(f"baseline stable_pass={len(want)} passed_now={len(passed)} failed_now={len(got.get('failed',[]))} missing={len(missing)}")
for m in missing[:40]: print("  MISSING",m)
sys.exit(1 if missing else 0)
PY
