#!/usr/bin/env python3
"""Assemble MANIFEST.json from manifest_parts/*.json (one file per claimed property) +
manifest_parts/_not_applicable.json; validates against the schema."""
import json,glob,os,sys
root=os.path.dirname(os.path.dirname(os.path.abspath(__file__)))
props=[json.loads(l)['id'] for l in open(f'{root}/properties.jsonl')]
parts={}
for f in sorted(glob.glob(f'{root}/manifest_parts/C*.json')):
    p=json.load(open(f)); parts[p['property_id']]=p
na=json.load(open(f'{root}/manifest_parts/_not_applicable.json')) if os.path.exists(f'{root}/manifest_parts/_not_applicable.json') else {}
checks=[]
for pid in props:
    if pid in parts:
        p=parts[pid]
        eng='vsched' if pid in ('C22','C29') else 'vx'
        checks.append({"property_id":pid,"quick_cmd":f"./check {pid} --tier quick","thorough_cmd":f"./check {pid} --tier thorough","evidence_file":f"evidence/{pid}.json","replay_cmd_template":f"./check {pid} --replay {{path}}","engine":p.get('engine',eng),
          "level_claimed":{"category":p.get('category','model_checking'),"text":p['text'],"design_ref":f"DESIGN.md section 4 {pid} and section 9"},"level_note":p['note'],"technique":p['technique']})
claimed=[c['property_id'] for c in checks]
m={"version":1,"setup_cmd":"./tools/setup.sh",
 "hooks":{"guard":"oxidize_pdf_verif","enable":"RUSTFLAGS='--cfg oxidize_pdf_verif' for vcheck; plus '--cfg oxidize_pdf_verif_sched' (std sync/thread -> shuttle in batch/ and memory/cache.rs) for vsched; both set by /verif/check","baseline_off_cmd":"/verif/tools/baseline.sh","source_commits":["5bc611f8","40edd27f","29c9ceb4","a29704bb"],"add_only":True},
 "engines":[
  {"name":"vx","path":"harness/vx","serves_properties":[c for c in claimed if c not in('C22','C29')],"kind_free_text":"stateless choice-tree explorer over the real library: FULL enumeration or deviation-bounded DEV(k); deterministic replay; parallel DFS; evidence + known-findings matcher"},
  {"name":"refpdf","path":"harness/refpdf","serves_properties":[c for c in claimed if c not in('C22','C29','C14')],"kind_free_text":"reference layer (oracle side): independent strict PDF parser/reader/validator/builder, filters, crypto, CMaps, fonts, PNG, encodings; validated at setup against spec vectors, third-party codecs and the repository's qpdf/pypdf fixtures"},
  {"name":"vsched","path":"harness/vsched","serves_properties":[c for c in claimed if c in('C22','C29')],"kind_free_text":"preemption-bounded exhaustive DFS scheduler on shuttle (CHESS-style iterative context bounding) over the real batch pool and object cache; stateright explicit-state search for the sequential LRU"}],
 "checks":checks,
 "notes":"See DESIGN.md. Known findings: known_findings.d/<ID>.json. Seeded regressions and which check catches them: seeded/*/meta.json and DESIGN.md section 9.3.",
 "not_applicable":[{"property_id":p,"reason":na.get(p,"check not finished in this round (planned in DESIGN.md section 4); not claimed until it runs clean")} for p in props if p not in claimed]}
json.dump(m,open(f'{root}/MANIFEST.json','w'),indent=1)
try:
    import jsonschema
    jsonschema.validate(m,json.load(open('/root/.vp/MANIFEST.schema.json'))); print("MANIFEST ok; claimed:",claimed)
except ImportError:
    print("written (jsonschema not importable here); claimed:",claimed)
