#!/bin/bash
# tools/confirm_union.sh <out-file> <label> <ID-n> [<ID-n>...]
# Independent confirmation of seeded regressions, union style (one build per phase instead
# of one per seed), in the persistent scratch worktree /tmp/confirm-wt at /repo HEAD:
#  [clean]  all demos of the set pass on unmodified HEAD (skipped when CLEAN_DONE=1)
#  [union]  with ALL patches of the set applied, every demo of the set fails (no compile error)
#  [suite]  the pinned suite passes with all patches of the set applied
# That each patch compiles and has an effect ALONE is established separately by the per-seed
# mutant runs (tools/mutant_run_fast.sh applies exactly one patch). Ports to the current
# HEAD (patch_28e08dc8.diff / demo_28e08dc8.rs) are used when present.
set -u
OUT="$1"; LABEL="$2"; shift 2
WT=/tmp/confirm-wt
exec 9>/tmp/confirm-wt.lock; flock 9
export CARGO_NET_OFFLINE=true CARGO_BUILD_JOBS=${CARGO_BUILD_JOBS:-14}; unset RUSTFLAGS
if [ ! -e $WT/.git ]; then git -C /repo worktree add --detach $WT HEAD >/dev/null 2>&1 || { echo "worktree failed"; exit 2; }; fi
cd $WT && git reset -q --hard && git checkout -q --detach "${BASE:-$(git -C /repo rev-parse HEAD)}" && git reset -q --hard && git clean -qfd -e target -e .suite-out
echo "# confirm_union[$LABEL] $(date -u +%H:%M) HEAD=$(git rev-parse --short HEAD) seeds: $*" >> "$OUT"
name() { echo "seeded_demo_$(echo "$1" | tr -- '-.' '__' | tr 'A-Z' 'a-z')"; }
pfile() { [ -f /tmp/seeded-out/$1/patch_28e08dc8.diff ] && echo /tmp/seeded-out/$1/patch_28e08dc8.diff || echo /tmp/seeded-out/$1/patch.diff; }
dfile() { [ -f /tmp/seeded-out/$1/demo_28e08dc8.rs ] && echo /tmp/seeded-out/$1/demo_28e08dc8.rs || echo /tmp/seeded-out/$1/demo.rs; }
SET=()
for s in "$@"; do
  if [ -f "$(dfile $s)" ] && [ -f "$(pfile $s)" ]; then cp "$(dfile $s)" oxidize-pdf-core/tests/$(name $s).rs; SET+=($s); else echo "$s MISSING-FILES" >> "$OUT"; fi
done
run_demos() { # $1 = phase
  local args=(); for s in "${SET[@]}"; do args+=(--test $(name $s)); done
  ( cd oxidize-pdf-core && cargo test -p oxidize-pdf "${args[@]}" --offline --no-fail-fast ) > /tmp/confirm-$LABEL-$1.log 2>&1
  for s in "${SET[@]}"; do
    n=$(name $s)
    res=$(awk -v n="tests/$n.rs" 'index($0,"Running " n) {f=1} f && /^test result:/ {print; exit}' /tmp/confirm-$LABEL-$1.log)
    echo "$s [$1] ${res:-NO-RESULT (compile error?)}" >> "$OUT"
  done
  grep -E "^error(\[|:)" /tmp/confirm-$LABEL-$1.log | sort | uniq -c | head -5 >> "$OUT"
}
if [ "${CLEAN_DONE:-0}" != 1 ]; then run_demos clean; fi
APPLIED=()
for s in "${SET[@]}"; do
  if git apply --check "$(pfile $s)" 2>/dev/null; then git apply "$(pfile $s)"; APPLIED+=($s); else echo "$s NOT-IN-UNION (does not apply on top of the others / HEAD)" >> "$OUT"; fi
done
echo "union applied: ${APPLIED[*]}" >> "$OUT"
run_demos union
for s in "${SET[@]}"; do rm -f oxidize-pdf-core/tests/$(name $s).rs; done
/verif/tools/run_suite.sh $WT > /tmp/confirm-$LABEL-suite.log 2>&1
cat /tmp/confirm-$LABEL-suite.log >> "$OUT"
grep "NO LONGER PASSING" /tmp/confirm-$LABEL-suite.log | sed 's/.*PASSING: *//' | while read t; do
  tn=${t##*::}
  ( cd oxidize-pdf-core && cargo nextest run -p oxidize-pdf --offline -j 1 -E "test(/(^|::)$tn\$/)" 2>&1 | grep -E "^\s+(PASS|FAIL)" | head -3 | sed "s/^/   rerun: /" ) >> "$OUT"
done
git reset -q --hard; git clean -qfd -e target -e .suite-out
echo "# union[$LABEL] done $(date -u +%H:%M)" >> "$OUT"
