#!/bin/bash
# MANIFEST.setup_cmd: build the harness offline from files on disk and validate the
# reference layer (refpdf unit tests = its binding to spec vectors, third-party codecs and
# the qpdf/pypdf-produced fixtures of the repository).
set -u
ROOT="$(cd "$(dirname "$0")/.." && pwd)"
export CARGO_NET_OFFLINE=true
cd "$ROOT/harness"
mkdir -p "$ROOT/.scratch" "$ROOT/evidence" "$ROOT/replays"
[ -f Cargo.lock ] || cp /repo/Cargo.lock Cargo.lock
RUSTFLAGS="--cfg oxidize_pdf_verif" cargo build --release --offline -p vcheck 2>"$ROOT/.scratch/setup-vcheck.log" || { tail -40 "$ROOT/.scratch/setup-vcheck.log"; echo "setup: vcheck build failed"; exit 1; }
RUSTFLAGS="--cfg oxidize_pdf_verif --cfg oxidize_pdf_verif_sched" CARGO_TARGET_DIR="$ROOT/harness/target-sched" cargo build --release --offline -p vsched 2>"$ROOT/.scratch/setup-vsched.log" || { tail -40 "$ROOT/.scratch/setup-vsched.log"; echo "setup: vsched build failed"; exit 1; }
RUSTFLAGS="--cfg oxidize_pdf_verif" cargo test --release --offline -p refpdf -p vx 2>&1 | tee "$ROOT/.scratch/setup-refpdf-tests.log" | grep -E "^test result|FAILED|panicked" 
if grep -q "FAILED\|panicked" "$ROOT/.scratch/setup-refpdf-tests.log"; then echo "setup: reference-layer validation failed"; exit 1; fi
echo "setup ok"
