#!/bin/bash
# tools/mutant_run.sh <patch.diff> <ID> [<ID>...]   [env TIER=quick|thorough]
# Runs checks against a scratch worktree of /repo with <patch.diff> applied, without touching
# /repo or /verif's evidence. Everything lives under /tmp/mut-<pid> and is removed at exit.
set -u
PATCH="$(realpath "$1")"; shift
W=/tmp/mut-$$
cleanup() { git -C /repo worktree remove --force "$W/repo" >/dev/null 2>&1; rm -rf "$W"; git -C /repo worktree prune >/dev/null 2>&1; }
trap cleanup EXIT
mkdir -p "$W/verif"
git -C /repo worktree add --detach "$W/repo" HEAD >/dev/null 2>&1 || { echo "worktree failed"; exit 2; }
# carry over uncommitted hook changes of /repo, if any
( cd /repo && git diff HEAD ) | ( cd "$W/repo" && git apply --allow-empty - ) 2>/dev/null
( cd "$W/repo" && git apply "$PATCH" ) || { echo "patch does not apply"; exit 2; }
rsync -a --exclude 'target*' /verif/harness "$W/verif/"
cp -r /verif/known_findings.json /verif/known_findings.d /verif/check "$W/verif/" 2>/dev/null
grep -rl '/repo/oxidize-pdf-core' "$W/verif/harness" --include=Cargo.toml | xargs sed -i "s|/repo/oxidize-pdf-core|$W/repo/oxidize-pdf-core|g"
export VERIF_REPO="$W/repo"
RC=0
for ID in "$@"; do
  echo "=== mutant $(basename "$PATCH") check $ID"
  "$W/verif/check" "$ID" --tier "${TIER:-quick}" 2>&1 | grep -E "^(VIOLATION|KNOWN-FINDING|OK|MACHINERY|error)" | cut -c1-400
  rc=${PIPESTATUS[0]}; echo "exit=$rc"; [ "$rc" != 0 ] && RC=$rc
done
exit $RC
