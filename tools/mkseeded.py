#!/usr/bin/env python3
"""Assemble /verif/seeded/<ID-n>/ from the breaker outputs (/tmp/seeded-out), my confirmation log
(/tmp/confirm-union.txt) and my detection logs (/tmp/seed-detect.out tail, /tmp/seed-detect2.out).
Only seeds I confirmed myself are kept. Writes seeded/INDEX.md."""
import json, os, re, shutil, sys

SRC = '/tmp/seeded-out'
DST = '/verif/seeded'

def parse_detect(path, only_after=None):
    """Sections are delimited by the runner's own '=== mutant <seed>/<patch> check <ID>' lines (two
    runners shared one log, so the '#####' headers written by the driver script may interleave)."""
    res = {}
    if not os.path.exists(path):
        return res
    txt = open(path, errors='replace').read()
    if only_after and only_after in txt:
        txt = txt[txt.index(only_after):]
    cur = None
    for line in txt.splitlines():
        m = re.match(r'^=== mutant (C\d+-\d+)/(\S+) check (C\d+)', line)
        if m:
            cur = m.group(1)
            if m.group(3) != cur.split('-')[0]:
                cur = cur + ':' + m.group(3)
            res[cur] = {'lines': [], 'exit': None, 'patch': m.group(2)}
            continue
        m = re.match(r'^##### (C\d+-\d+)', line)
        if m:
            hdr = m.group(1)
            if 'patch does not apply' in line or 'no patch' in line:
                res.setdefault(hdr, {'lines': ['patch does not apply'], 'exit': 2, 'patch': 'patch.diff'})
            cur = None
            continue
        if cur is None:
            if line.startswith('patch does') and 'hdr' in dir():
                res.setdefault(hdr, {'lines': ['patch does not apply'], 'exit': 2, 'patch': 'patch.diff'})
            continue
        if line.startswith('exit='):
            res[cur]['exit'] = int(line.split('=')[1]); cur = None
        elif line.startswith(('VIOLATION', 'OK', 'MACHINERY')):
            res[cur]['lines'].append(line)
    return res

def parse_confirm(path):
    res = {}
    suites = []
    if not os.path.exists(path):
        return res, suites
    label = None
    for line in open(path, errors='replace'):
        line = line.rstrip('\n')
        m = re.match(r'^# confirm_union\[(\w+)\]', line)
        if m:
            label = m.group(1)
            continue
        m = re.match(r'^(C\d+-\d+) \[(clean|union)\] (.*)', line)
        if m:
            res.setdefault(m.group(1), {})[m.group(2)] = m.group(3)
            res[m.group(1)]['set'] = label
            continue
        m = re.match(r'^(C\d+-\d+) (NOT-IN-UNION|MISSING-FILES)', line)
        if m:
            res.setdefault(m.group(1), {})['note'] = m.group(2)
            continue
        if line.startswith('baseline stable_pass') or 'NO LONGER PASSING' in line or line.strip().startswith('rerun:'):
            suites.append((label, line.strip()))
    return res, suites

det = parse_detect('/tmp/seed-detect.out', only_after='##### DONE C07-2')
det.update(parse_detect('/tmp/seed-detect2.out'))
det.update(parse_detect('/tmp/seed-detect3.out'))
conf, suites = parse_confirm('/tmp/confirm-union.txt')

suite_ok = {}
for label in {l for l, _ in suites}:
    lines = [t for l, t in suites if l == label]
    head = next((t for t in lines if t.startswith('baseline')), '')
    missing = [t for t in lines if 'NO LONGER PASSING' in t]
    reruns = [t for t in lines if t.startswith('rerun:')]
    failed_rerun = [t for t in reruns if 'FAIL' in t]
    timing_only = all(re.search(r'performance|timeout|parallelism|under_30s|optimization', t) for t in missing)
    suite_ok[label] = {'summary': head, 'dropped_under_load': [t.split('PASSING:')[-1].strip() for t in missing], 'rerun_pass': sum('PASS' in t for t in reruns), 'rerun_fail': len(failed_rerun),
                       'note': 'all dropped tests are wall-clock timing assertions in code no seed touches; the machine ran at load 40-150 during the run (the same tests dropped, in varying subsets, in every breaker run and in runs of the unpatched fix branches, and pass when the machine is calm)' if missing else '',
                       'ok': bool(head) and (len(missing) == 0 or timing_only)}

os.makedirs(DST, exist_ok=True)
rows = []
for name in sorted(os.listdir(SRC)):
    if not re.match(r'^C\d+-\d+$', name):
        continue
    d = os.path.join(SRC, name)
    if not os.path.exists(os.path.join(d, 'patch.diff')):
        continue
    c = conf.get(name, {})
    clean_ok = 'ok.' in c.get('clean', '') and ' 0 failed' in c.get('clean', '')
    union_fail = 'FAILED' in c.get('union', '') or re.search(r'[1-9]\d* failed', c.get('union', '')) is not None
    sset = c.get('set')
    s_ok = suite_ok.get(sset, {}).get('ok', False) and c.get('note') is None
    confirmed = clean_ok and union_fail and s_ok
    dd = det.get(name)
    caught = dd is not None and dd['exit'] == 1 and any(l.startswith('VIOLATION') for l in dd['lines'])
    keys = sorted({m.group(1) for l in (dd['lines'] if dd else []) for m in [re.search(r'key=(\S+)', l)] if m})
    meta = {}
    mp = os.path.join(d, 'meta.json')
    if os.path.exists(mp):
        try:
            meta = json.load(open(mp))
        except Exception:
            meta = {}
    status = 'kept' if confirmed else 'not-kept'
    if confirmed:
        out = os.path.join(DST, name)
        os.makedirs(out, exist_ok=True)
        for f in ('patch.diff', 'demo.rs', 'patch_28e08dc8.diff', 'demo_28e08dc8.rs'):
            if os.path.exists(os.path.join(d, f)):
                shutil.copy(os.path.join(d, f), os.path.join(out, f))
        m2 = dict(meta)
        m2.setdefault('property', name.split('-')[0])
        m2['lead_confirmation'] = {
            'base_commit': '28e08dc8 (seeded against 29c9ceb4..28e08dc8; a patch_28e08dc8.diff port is used when present)',
            'demo_on_clean_base': c.get('clean'), 'demo_with_patches_of_set_applied': c.get('union'), 'set': sset,
            'pinned_suite_with_set_applied': suite_ok.get(sset),
            'commands': ['tools/confirm_union.sh /tmp/confirm-union.txt %s <all seeds of the set>' % sset,
                         'BASE=28e08dc8 KFDIR=<known-findings snapshot> tools/mutant_run_fast.sh <patch> %s' % name.split('-')[0]],
        }
        m2['detection'] = {'check': name.split('-')[0], 'caught': caught, 'exit': dd['exit'] if dd else None, 'keys': keys,
                           'lines': [l[:300] for l in (dd['lines'] if dd else [])][:6], 'patch_used': dd['patch'] if dd else None}
        json.dump(m2, open(os.path.join(out, 'meta.json'), 'w'), indent=1, ensure_ascii=False)
    summ = (meta.get('summary') or '').replace('|', '/').replace('\n', ' ')[:160]
    need = (meta.get('needs') or '').replace('|', '/').replace('\n', ' ')[:140]
    cross = [k.split(':')[1] for k, v in det.items() if k.startswith(name + ':') and v['exit'] == 1]
    if cross and confirmed:
        m3 = json.load(open(os.path.join(DST, name, 'meta.json'))); m3['detection']['also_caught_by'] = cross
        json.dump(m3, open(os.path.join(DST, name, 'meta.json'), 'w'), indent=1, ensure_ascii=False)
    if cross:
        keys = keys + ['(also caught by ' + ','.join(cross) + ')']
    rows.append((name, status, 'caught' if caught else ('NOT caught' if dd and dd['exit'] == 0 else 'not run' if not dd else 'run error'), ', '.join(k.split('/', 1)[-1] for k in keys[:3]), summ, need))

with open(os.path.join(DST, 'INDEX.md'), 'w') as f:
    f.write('# Seeded regressions (generated by tools/mkseeded.py)\n\n')
    f.write('`kept` = confirmed by the lead (demo passes on the clean base, fails with the patch set applied, pinned suite green with the set applied) and stored here; `not-kept` = produced by a breaker agent but not confirmed by the lead in time (or did not apply to the base), listed for the detection record only.\n\n')
    f.write('Suite runs per confirmation set: ' + json.dumps(suite_ok) + '\n\n')
    f.write('| seed | status | detection by its property\'s check | keys (first 3) | change | needs |\n|---|---|---|---|---|---|\n')
    for r in rows:
        f.write('| ' + ' | '.join(r) + ' |\n')
    kept = sum(1 for r in rows if r[1] == 'kept'); caught = sum(1 for r in rows if r[2] == 'caught')
    f.write(f'\nTotals: {len(rows)} seeds, {kept} kept, {caught} caught by the check of their own property.\n')
print('seeds', len(rows), 'kept', sum(1 for r in rows if r[1] == 'kept'), 'caught', sum(1 for r in rows if r[2] == 'caught'))
