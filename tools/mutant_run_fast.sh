#!/bin/bash
# tools/mutant_run_fast.sh <patch.diff> <ID> [<ID>...]   [env TIER=quick|thorough]
# Same purpose as mutant_run.sh (run checks against /repo HEAD + patch without touching
# /repo or /verif's evidence) but with ONE persistent scratch worktree and persistent target
# dirs under /tmp/mutfast, so only the library crate and the needed check module rebuild.
# env BASE=<commit> pins the repo commit (default /repo HEAD); KFDIR=<dir> the known-findings snapshot.
# Sequential (flock). `tools/mutant_run_fast.sh --cleanup` removes everything.
set -u
W=/tmp/mutfast
if [ "${1:-}" = "--cleanup" ]; then git -C /repo worktree remove --force $W/repo 2>/dev/null; rm -rf $W; git -C /repo worktree prune; exit 0; fi
PATCH="$(realpath "$1")"; shift
exec 9>/tmp/mutfast.lock; flock 9
mkdir -p $W/verif
export CARGO_NET_OFFLINE=true
if [ ! -e $W/repo/.git ]; then git -C /repo worktree add --detach $W/repo HEAD >/dev/null 2>&1 || { echo "worktree failed"; exit 2; }; fi
( cd $W/repo && git reset -q --hard && git checkout -q --detach "${BASE:-$(git -C /repo rev-parse HEAD)}" && git reset -q --hard && git clean -qfd ) || exit 2
( cd $W/repo && git apply "$PATCH" ) || { echo "patch does not apply"; exit 2; }
rsync -a --delete --exclude 'target*' /verif/harness $W/verif/
rm -rf $W/verif/known_findings.d $W/verif/evidence $W/verif/replays; cp -r /verif/known_findings.json $W/verif/ 2>/dev/null; cp -r "${KFDIR:-/verif/known_findings.d}" $W/verif/known_findings.d
grep -rl '/repo/oxidize-pdf-core' $W/verif/harness --include=Cargo.toml | xargs sed -i "s|/repo/oxidize-pdf-core|$W/repo/oxidize-pdf-core|g"
export VERIF_REPO=$W/repo VERIF_ROOT=$W/verif
RC=0
for ID in "$@"; do
  echo "=== mutant $(basename "$(dirname "$PATCH")")/$(basename "$PATCH") check $ID"
  lc=$(echo "$ID" | tr 'A-Z' 'a-z'); FEAT=$lc; [ "$lc" = c03 ] && FEAT=c02,c03
  case "$ID" in
    C22|C29) ( cd $W/verif/harness && RUSTFLAGS="--cfg oxidize_pdf_verif --cfg oxidize_pdf_verif_sched" CARGO_TARGET_DIR=$W/target-sched cargo build --release --offline -q -p vsched 2>$W/build.log ) || { echo "MACHINERY build failed"; grep -E "^error" -A6 $W/build.log | head -20; RC=2; continue; }
             BIN=$W/target-sched/release/vsched ;;
    *)       ( cd $W/verif/harness && RUSTFLAGS="--cfg oxidize_pdf_verif" CARGO_TARGET_DIR=$W/target cargo build --release --offline -q -p vcheck --no-default-features --features $FEAT 2>$W/build.log ) || { echo "MACHINERY build failed"; grep -E "^error" -A6 $W/build.log | head -20; RC=2; continue; }
             BIN=$W/target/release/vcheck ;;
  esac
  ( cd $W/verif/harness && $BIN "$ID" --tier "${TIER:-quick}" 2>&1 ) | grep -E "^(VIOLATION|KNOWN-FINDING|OK|MACHINERY)" | cut -c1-400
  rc=${PIPESTATUS[0]}; echo "exit=$rc"; [ "$rc" != 0 ] && RC=$rc
done
exit $RC
