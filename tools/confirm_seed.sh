#!/bin/bash
# tools/confirm_seed.sh <dir with patch.diff demo.rs meta.json>
# Confirms a seeded regression independently: (1) demo passes on clean HEAD, (2) patch applies
# and crate compiles, (3) demo fails with the patch, (4) pinned suite still passes with the patch.
# Uses one persistent scratch worktree /tmp/confirm-wt (incremental builds); run
# `tools/confirm_seed.sh --cleanup` when done to remove it.
set -u
WT=/tmp/confirm-wt
if [ "${1:-}" = "--cleanup" ]; then git -C /repo worktree remove --force $WT 2>/dev/null; rm -rf $WT; git -C /repo worktree prune; exit 0; fi
D="$(realpath "$1")"
exec 9>/tmp/confirm-wt.lock; flock 9
export CARGO_NET_OFFLINE=true CARGO_BUILD_JOBS=${CARGO_BUILD_JOBS:-12}; unset RUSTFLAGS
if [ ! -d $WT/.git ] && [ ! -f $WT/.git ]; then git -C /repo worktree add --detach $WT HEAD >/dev/null 2>&1 || { echo "worktree failed"; exit 2; }; fi
cd $WT && git checkout -q --detach "$(git -C /repo rev-parse HEAD)" && git reset -q --hard && git clean -qfd -e target -e .suite-out
NAME="seeded_demo_$(basename "$D" | tr -- '-.' '__' | tr 'A-Z' 'a-z')"
cp "$D/demo.rs" "oxidize-pdf-core/tests/$NAME.rs"
echo "== [1] demo on clean HEAD"
cargo test -p oxidize-pdf --test "$NAME" --offline >"$D/confirm_clean.log" 2>&1; R1=$?
echo "   exit=$R1 (want 0)"
echo "== [2] apply patch"
git apply "$D/patch.diff"; R2=$?
echo "   exit=$R2 (want 0)"
echo "== [3] demo with patch"
cargo test -p oxidize-pdf --test "$NAME" --offline >"$D/confirm_patched.log" 2>&1; R3=$?
grep -E "^error(\[|:)" "$D/confirm_patched.log" | head -3
echo "   exit=$R3 (want non-zero, and not a compile error)"
COMPILE_ERR=$(grep -c "^error\[E\|could not compile" "$D/confirm_patched.log")
rm -f "oxidize-pdf-core/tests/$NAME.rs"
echo "== [4] pinned suite with patch"
/verif/tools/run_suite.sh $WT | tee "$D/confirm_suite.log" | head -12; R4=${PIPESTATUS[0]}
git reset -q --hard; git clean -qfd -e target -e .suite-out
if [ $R1 = 0 ] && [ $R2 = 0 ] && [ $R3 != 0 ] && [ "$COMPILE_ERR" = 0 ] && [ $R4 = 0 ]; then echo "CONFIRMED $(basename "$D")"; exit 0; fi
echo "NOT-CONFIRMED $(basename "$D") clean=$R1 apply=$R2 patched=$R3 compile_err=$COMPILE_ERR suite=$R4"; exit 1
